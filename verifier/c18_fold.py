"""Constant folding of pure integer / string / container code (helper of verifier/c18.py).

`Folder(ctx, rel).call("mkusetmask", "a")` gives the value the function *returns* for literal arguments, whatever way the source builds it:
a dict literal of `|` / `<<` expressions in the function, a module-level table, a table filled by a loop or by `functools.reduce(operator.or_,
...)` over a data table, private helper functions.  It is a static evaluation of the parsed source (Python `ast`): nothing is imported from
the package, nothing of it is executed by the interpreter; every node kind, builtin, method and library function is taken from an explicit
white-list and everything else is `Unsupported` (-> ANALYSIS-ERROR, never a verdict).  Only ints, strings, bools, None and tuples / lists /
dicts / sets / ranges of them exist as values; a step budget bounds the work.

The folder remembers the position of every integer literal it read (`Folder.literals`): these are the literals that *define* the folded
value (used by the who-may-define rule to tell the definition of the masks from a copy of one)."""
from __future__ import annotations

import ast
import copy as _copy
import functools
import itertools
import operator

from .core import AnchorError, Unsupported

MAX_STEPS = 400_000
MAX_DEPTH = 40
MAX_INT_BITS = 4096


class RawModule:
    """the module exactly as written: the C18 rules evaluate *values*, so they need neither the alpha-renaming to reference names nor the
    temporary-inlining / polarity normalisations the shared source model applies for the text-based rules (and the inlining of a local bound to
    a mutable display - `t = {}` followed by `t[k] = v` - would lose the stores).  Functions are indexed by qualified name as in e1_srcmodel;
    nodes carry the same location attributes, so `ctx.src.where(node)` works."""

    def __init__(self, mod):
        self.rel, self.source, self.real = mod.rel, mod.source, mod
        self.tree = ast.parse(mod.source, filename=mod.path)
        self.funcs = {}
        self._index(self.tree, "")

    def _index(self, node, prefix):
        for child in ast.iter_child_nodes(node):
            if isinstance(child, (ast.expr_context, ast.operator, ast.unaryop, ast.cmpop, ast.boolop)):
                continue
            child._vparent = node
            child._vmod = self.real
            if isinstance(child, (ast.FunctionDef, ast.AsyncFunctionDef, ast.ClassDef)):
                q = prefix + child.name
                child._vqual = q
                if not isinstance(child, ast.ClassDef):
                    k, i = q, 2
                    while k in self.funcs:
                        k = f"{q}#{i}"
                        i += 1
                    self.funcs[k] = child
                self._index(child, q + ".")
            else:
                self._index(child, prefix)


def raw_module(ctx, rel):
    m = ctx.src.mod(rel)
    if "_c18_raw" not in m.__dict__:
        m.__dict__["_c18_raw"] = RawModule(m)
    return m.__dict__["_c18_raw"]


def raw_func(ctx, rel, qual):
    """the function as written (AnchorError when it does not exist; registered as consulted)"""
    ctx.src.func(rel, qual)
    f = raw_module(ctx, rel).funcs.get(qual)
    if f is None:
        raise AnchorError(f"function {qual} not found in {rel}")
    return f


class FoldRaise(Exception):
    """the folded code reached a `raise` (or an operation that raises: missing key, bad index)"""

    def __init__(self, what, node=None, exc=None):
        super().__init__(what)
        self.what = what
        self.node = node
        self.exc = exc if exc is not None else what.split(":")[0].strip()        # name of the exception class


_EXC_PARENTS = {"KeyError": "LookupError", "IndexError": "LookupError", "LookupError": "Exception", "ZeroDivisionError": "ArithmeticError",
                "OverflowError": "ArithmeticError", "ArithmeticError": "Exception", "NotImplementedError": "RuntimeError", "Exception": "BaseException"}


def _exc_is(name, cls):
    """is the exception class `name` a subclass of `cls` (built-in hierarchy, by name)"""
    seen = 0
    while name is not None and seen < 8:
        if name == cls:
            return True
        name = _EXC_PARENTS.get(name, "Exception" if name != "BaseException" else None)
        seen += 1
    return False


class _Return(Exception):
    def __init__(self, value):
        self.value = value


class _Break(Exception):
    pass


class _Continue(Exception):
    pass


class Func:
    """a function of the analysed module (or a lambda / nested function) as a value: calling it folds its body"""

    def __init__(self, folder, node, frames, name):
        self.folder, self.node, self.frames, self.name = folder, node, frames, name

    def __call__(self, *args, **kw):
        return self.folder._call_func(self, list(args), dict(kw))


_DATA = (int, str, bool, type(None), tuple, list, dict, set, frozenset, range, float)

_BUILTINS = {
    "dict": dict, "list": list, "tuple": tuple, "set": set, "frozenset": frozenset, "int": int, "str": str, "bool": bool, "len": len,
    "range": range, "sum": sum, "min": min, "max": max, "enumerate": enumerate, "zip": zip, "sorted": sorted, "reversed": reversed,
    "any": any, "all": all, "abs": abs, "divmod": divmod, "pow": pow, "map": map, "filter": filter, "iter": iter, "next": next,
    "repr": repr, "format": format, "bin": bin, "hex": hex, "ord": ord, "chr": chr, "float": float, "isinstance": isinstance, "type": type,
    "True": True, "False": False, "None": None,
}
_EXC_NAMES = {"ValueError", "KeyError", "TypeError", "IndexError", "RuntimeError", "Exception", "AssertionError", "NotImplementedError",
              "LookupError", "AttributeError", "StopIteration", "ArithmeticError", "ZeroDivisionError", "OverflowError", "BaseException"}
_MODULES = {
    "functools": {"reduce": functools.reduce, "partial": functools.partial},
    "operator": {k: getattr(operator, k) for k in (
        "or_", "and_", "xor", "ior", "iand", "ixor", "add", "iadd", "sub", "mul", "lshift", "rshift", "ilshift", "irshift", "invert", "inv", "not_",
        "eq", "ne", "lt", "le", "gt", "ge", "getitem", "setitem", "itemgetter", "neg", "pos", "floordiv", "mod", "truth", "contains", "index")},
    "itertools": {k: getattr(itertools, k) for k in ("chain", "product", "accumulate", "repeat", "islice", "combinations", "permutations", "starmap",
                                                     "zip_longest")},
    "copy": {"copy": _copy.copy, "deepcopy": _copy.deepcopy},
    "types": {"MappingProxyType": dict},       # a read-only view of a dict holds the dict's items
}
_METHODS = {
    str: {"split", "rsplit", "join", "strip", "lstrip", "rstrip", "lower", "upper", "format", "startswith", "endswith", "replace", "isdigit",
          "isalpha", "find", "index", "count", "partition", "rpartition", "zfill", "title", "splitlines", "isupper", "islower", "removeprefix",
          "removesuffix"},
    dict: {"items", "keys", "values", "get", "copy", "update", "setdefault", "pop", "fromkeys", "__getitem__", "__contains__"},
    list: {"append", "extend", "insert", "copy", "index", "count", "pop", "sort", "reverse", "remove", "clear", "__getitem__", "__contains__"},
    tuple: {"index", "count", "__getitem__", "__contains__"},
    set: {"add", "union", "intersection", "difference", "update", "issubset", "issuperset", "copy", "discard", "symmetric_difference", "isdisjoint"},
    frozenset: {"union", "intersection", "difference", "issubset", "issuperset", "copy", "symmetric_difference", "isdisjoint"},
    int: {"bit_length", "bit_count"},
    bool: {"bit_length", "bit_count"},
    range: {"index", "count"},
}
_CLASS_ATTRS = {(dict, "fromkeys"): dict.fromkeys, (str, "join"): str.join, (int, "bit_length"): int.bit_length,
                (itertools.chain, "from_iterable"): itertools.chain.from_iterable}
_BIN = {
    ast.BitOr: operator.or_, ast.BitAnd: operator.and_, ast.BitXor: operator.xor, ast.Add: operator.add, ast.Sub: operator.sub,
    ast.Mult: operator.mul, ast.FloorDiv: operator.floordiv, ast.Mod: operator.mod,
}
_CMP = {
    ast.Eq: operator.eq, ast.NotEq: operator.ne, ast.Lt: operator.lt, ast.LtE: operator.le, ast.Gt: operator.gt, ast.GtE: operator.ge,
    ast.Is: operator.is_, ast.IsNot: operator.is_not, ast.In: lambda a, b: a in b, ast.NotIn: lambda a, b: a not in b,
}


class _Ext:
    """a white-listed library module"""

    def __init__(self, name):
        self.name = name


class Folder:
    def __init__(self, ctx, rel):
        self.ctx, self.rel = ctx, rel
        self.mod = raw_module(ctx, rel)
        self.steps = 0
        self.depth = 0
        self.literals = set()           # (lineno, col_offset) of every int literal read
        self.functions = set()          # names of the module functions entered
        self.globals = {}
        self._busy = set()
        self._top = None

    # ---------------------------------------------------------------------------------------------------------- module level
    def _toplevel(self):
        """{name: [top-level statements that bind or mutate it]} in source order"""
        if self._top is None:
            top = {}

            def note(name, st):
                lst = top.setdefault(name, [])
                if not lst or lst[-1] is not st:
                    lst.append(st)

            def scan(stmts):
                for st in stmts:
                    if isinstance(st, (ast.FunctionDef, ast.AsyncFunctionDef, ast.ClassDef)):
                        note(st.name, st)
                        continue
                    if isinstance(st, (ast.Import, ast.ImportFrom)):
                        for a in st.names:
                            note((a.asname or a.name).split(".")[0], st)
                        continue
                    for n in ast.walk(st):
                        if isinstance(n, ast.Name) and isinstance(n.ctx, (ast.Store, ast.Del)):
                            note(n.id, st)
                        elif isinstance(n, (ast.Subscript, ast.Attribute)) and isinstance(n.ctx, (ast.Store, ast.Del)) and isinstance(n.value, ast.Name):
                            note(n.value.id, st)
                        elif isinstance(n, ast.Expr) and isinstance(n.value, ast.Call) and isinstance(n.value.func, ast.Attribute) \
                                and isinstance(n.value.func.value, ast.Name):
                            note(n.value.func.value.id, st)         # X.update(...) / X.append(...) as a statement
            scan(self.mod.tree.body)
            self._top = top
        return self._top

    def _global(self, name, node):
        if name in self.globals:
            return self.globals[name]
        sts = self._toplevel().get(name)
        if not sts:
            if name in _BUILTINS:
                return _BUILTINS[name]
            if name in _EXC_NAMES:
                return ("<exception>", name)
            raise Unsupported(f"fold: name `{name}` is not bound by foldable code ({self.rel}:{getattr(node, 'lineno', '?')})")
        if name in self._busy:
            raise Unsupported(f"fold: `{name}` is defined in terms of itself")
        self._busy.add(name)
        try:
            frames = [self.globals]
            for st in sts:
                self._exec(st, frames)
        finally:
            self._busy.discard(name)
        if name not in self.globals:
            raise Unsupported(f"fold: top-level code did not bind `{name}`")
        return self.globals[name]

    def _global_store(self, name, v, node):
        """assignment to a module-level name from inside a function (`global name`): the module-level statements that bind the name run
        first (its initial value), then the name holds v for every later read"""
        if name not in self.globals and self._toplevel().get(name) and name not in self._busy:
            self._global(name, node)
        self.globals[name] = v

    # ------------------------------------------------------------------------------------------------------------- interface
    def call(self, fname, *args, **kw):
        """the value the module function `fname` returns for the given literal arguments (FoldRaise if it raises)"""
        if fname not in self.mod.funcs:
            raise AnchorError(f"function {fname} not found in {self.rel}")
        self.ctx.src.func(self.rel, fname)
        f = self._global(fname, None)
        if not isinstance(f, Func):
            raise Unsupported(f"fold: {fname} is not a plain function")
        return self._call_func(f, list(args), dict(kw))

    # ------------------------------------------------------------------------------------------------------------ statements
    def _tick(self, node):
        self.steps += 1
        if self.steps > MAX_STEPS:
            raise Unsupported("fold: step budget exhausted (unbounded loop?)")

    def _lookup(self, name, frames, node):
        for fr in reversed(frames):
            if name in fr:
                return fr[name]
        return self._global(name, node)

    def _run(self, stmts, frames):
        for st in stmts:
            self._exec(st, frames)

    def _exec(self, st, frames):
        self._tick(st)
        loc = frames[-1]
        if isinstance(st, ast.Expr):
            if isinstance(st.value, ast.Constant):
                return
            self._ev(st.value, frames)
        elif isinstance(st, ast.Assign):
            v = self._ev(st.value, frames)
            for t in st.targets:
                self._store(t, v, frames)
        elif isinstance(st, ast.AnnAssign):
            if st.value is not None:
                self._store(st.target, self._ev(st.value, frames), frames)
        elif isinstance(st, ast.AugAssign):
            cur = self._ev(_as_load(st.target), frames)
            v = self._binop(st.op, cur, self._ev(st.value, frames), st, inplace=True)
            self._store(st.target, v, frames)
        elif isinstance(st, ast.Return):
            raise _Return(self._ev(st.value, frames) if st.value is not None else None)
        elif isinstance(st, ast.If):
            self._run(st.body if self._truth(self._ev(st.test, frames)) else st.orelse, frames)
        elif isinstance(st, ast.For):
            broke = False
            for x in self._iter(self._ev(st.iter, frames), st.iter):
                self._tick(st)
                self._store(st.target, x, frames)
                try:
                    self._run(st.body, frames)
                except _Break:
                    broke = True
                    break
                except _Continue:
                    continue
            if not broke:
                self._run(st.orelse, frames)
        elif isinstance(st, ast.While):
            broke = False
            while self._truth(self._ev(st.test, frames)):
                self._tick(st)
                try:
                    self._run(st.body, frames)
                except _Break:
                    broke = True
                    break
                except _Continue:
                    continue
            if not broke:
                self._run(st.orelse, frames)
        elif isinstance(st, ast.Break):
            raise _Break()
        elif isinstance(st, ast.Continue):
            raise _Continue()
        elif isinstance(st, ast.Pass):
            pass
        elif isinstance(st, ast.Raise):
            if st.exc is None:
                cur = frames[-1].get("<handling>") or next((fr.get("<handling>") for fr in reversed(frames) if fr.get("<handling>")), None)
                if cur is not None:
                    raise cur
                raise FoldRaise("RuntimeError: no active exception", st, "RuntimeError")
            e = st.exc.func if isinstance(st.exc, ast.Call) else st.exc
            raise FoldRaise(ast.unparse(st)[:120], st, e.id if isinstance(e, ast.Name) else "Exception")
        elif isinstance(st, ast.Try):
            self._try(st, frames)
        elif isinstance(st, ast.Assert):
            if not self._truth(self._ev(st.test, frames)):
                raise FoldRaise("assert " + ast.unparse(st.test)[:100], st, "AssertionError")
        elif isinstance(st, (ast.FunctionDef,)):
            if st.decorator_list and not all(_is_cache_decorator(d) for d in st.decorator_list):
                raise Unsupported(f"fold: decorated function {st.name}")
            loc[st.name] = Func(self, st, list(frames) if loc is not self.globals else [self.globals], st.name)
        elif isinstance(st, ast.Import):
            for a in st.names:
                root = a.name.split(".")[0]
                loc[a.asname or root] = _Ext(a.name if a.asname else root)
        elif isinstance(st, ast.ImportFrom):
            for a in st.names:
                tab = _MODULES.get(st.module or "")
                if tab is not None and a.name in tab and not st.level:
                    loc[a.asname or a.name] = tab[a.name]
                else:
                    loc[a.asname or a.name] = _Ext(f"{st.module}.{a.name}")
        elif isinstance(st, ast.Delete):
            for t in st.targets:
                if isinstance(t, ast.Name) and t.id in loc:
                    del loc[t.id]
                elif isinstance(t, ast.Subscript):
                    base = self._ev(t.value, frames)
                    if not isinstance(base, (dict, list)):
                        raise Unsupported("fold: del on " + type(base).__name__)
                    try:
                        del base[self._index(t.slice, frames)]
                    except (KeyError, IndexError) as e:
                        raise FoldRaise(f"{type(e).__name__}: {e}", st)
                else:
                    raise Unsupported("fold: del " + ast.unparse(t))
        elif isinstance(st, (ast.Global, ast.Nonlocal)):
            # the names are bound in the module frame / the nearest enclosing function frame from here on (a lazily filled module-level cache)
            if loc is self.globals:
                return
            key = "<global>" if isinstance(st, ast.Global) else "<nonlocal>"
            loc[key] = set(loc.get(key, ())) | set(st.names)
            for nm in st.names:
                if nm in loc:
                    raise Unsupported(f"fold: `{nm}` is assigned before its global / nonlocal declaration")
        else:
            raise Unsupported(f"fold: statement {type(st).__name__} ({self.rel}:{st.lineno})")

    def _try(self, st, frames):
        """try / except / else / finally over the exceptions the folded code itself can raise (FoldRaise carries the class name)"""
        try:
            try:
                self._run(st.body, frames)
            except FoldRaise as e:
                for h in st.handlers:
                    names = [] if h.type is None else [x.id if isinstance(x, ast.Name) else None for x in (h.type.elts if isinstance(h.type, ast.Tuple) else [h.type])]
                    if None in names:
                        raise Unsupported("fold: except clause " + ast.unparse(h.type))
                    if h.type is None or any(_exc_is(e.exc, n) for n in names):
                        loc = frames[-1]
                        old = loc.get("<handling>")
                        loc["<handling>"] = e
                        if h.name:
                            loc[h.name] = ("<exception-instance>", e.exc, (e.what,))
                        try:
                            self._run(h.body, frames)
                        finally:
                            loc["<handling>"] = old
                            if h.name:
                                loc.pop(h.name, None)
                        break
                else:
                    raise
            else:
                self._run(st.orelse, frames)
        finally:
            self._run(st.finalbody, frames)

    def _store(self, target, v, frames):
        if isinstance(target, ast.Name):
            loc = frames[-1]
            if target.id in loc.get("<global>", ()):
                self._global_store(target.id, v, target)
            elif target.id in loc.get("<nonlocal>", ()):
                fr = next((f for f in reversed(frames[:-1]) if target.id in f and f is not self.globals), None)
                if fr is None:
                    raise Unsupported(f"fold: nonlocal `{target.id}` not found in an enclosing function")
                fr[target.id] = v
            else:
                loc[target.id] = v
        elif isinstance(target, (ast.Tuple, ast.List)):
            vals = list(self._iter(v, target))
            stars = [i for i, t in enumerate(target.elts) if isinstance(t, ast.Starred)]
            if stars:
                # a, *rest, z = vals: the starred name takes the list of what the others leave
                i, after = stars[0], len(target.elts) - stars[0] - 1
                if len(stars) > 1:
                    raise Unsupported("fold: two starred assignment targets")
                if len(vals) < len(target.elts) - 1:
                    raise FoldRaise("ValueError: not enough values to unpack", target)
                for t, x in zip(target.elts[:i], vals[:i]):
                    self._store(t, x, frames)
                self._store(target.elts[i].value, vals[i:len(vals) - after], frames)
                for t, x in zip(target.elts[i + 1:], vals[len(vals) - after:]):
                    self._store(t, x, frames)
                return
            if len(vals) != len(target.elts):
                raise FoldRaise("ValueError: unpacking", target)
            for t, x in zip(target.elts, vals):
                self._store(t, x, frames)
        elif isinstance(target, ast.Subscript):
            base = self._ev(target.value, frames)
            if not isinstance(base, (dict, list)):
                raise Unsupported("fold: item assignment on " + type(base).__name__)
            try:
                base[self._index(target.slice, frames)] = v
            except (KeyError, IndexError, TypeError) as e:
                raise FoldRaise(f"{type(e).__name__}: {e}", target)
        else:
            raise Unsupported("fold: assignment target " + ast.unparse(target))

    # ----------------------------------------------------------------------------------------------------------- expressions
    @staticmethod
    def _truth(v):
        if isinstance(v, _DATA):
            return bool(v)
        raise Unsupported("fold: truth value of " + type(v).__name__)

    def _iter(self, v, node):
        if isinstance(v, (tuple, list, dict, set, frozenset, range, str)):
            return iter(list(v))
        if isinstance(v, (enumerate, zip, map, filter, reversed, itertools.chain, itertools.product, itertools.accumulate, itertools.islice,
                          itertools.combinations, itertools.permutations, itertools.starmap, itertools.zip_longest)) or type(v).__name__ in (
                "generator", "dict_items", "dict_keys", "dict_values", "list_iterator", "tuple_iterator", "list_reverseiterator", "dict_itemiterator",
                "dict_keyiterator", "dict_valueiterator", "range_iterator", "str_iterator", "set_iterator", "str_ascii_iterator"):
            return v
        raise Unsupported(f"fold: iteration over {type(v).__name__} ({self.rel}:{getattr(node, 'lineno', '?')})")

    def _index(self, sl, frames):
        if isinstance(sl, ast.Slice):
            return slice(*[None if p is None else self._ev(p, frames) for p in (sl.lower, sl.upper, sl.step)])
        return self._ev(sl, frames)

    def _binop(self, op, a, b, node, inplace=False):
        t = type(op)
        if isinstance(a, bool) or isinstance(b, bool):
            a = int(a) if isinstance(a, bool) and not isinstance(b, bool) else a
            b = int(b) if isinstance(b, bool) and not isinstance(a, bool) else b
        if isinstance(a, int) and isinstance(b, int):
            try:
                if t in _BIN:
                    r = _BIN[t](a, b)
                elif t is ast.LShift:
                    if not 0 <= b <= MAX_INT_BITS:
                        raise Unsupported("fold: shift count")
                    r = a << b
                elif t is ast.RShift:
                    if b < 0:
                        raise FoldRaise("ValueError: negative shift count", node)
                    r = a >> b
                elif t is ast.Pow:
                    if not (0 <= b <= 512 and abs(a) <= 1 << 64):
                        raise Unsupported("fold: power")
                    r = a ** b
                else:
                    raise Unsupported("fold: integer operator " + t.__name__)
            except ZeroDivisionError:
                raise FoldRaise("ZeroDivisionError", node)
            if isinstance(r, int) and r.bit_length() > MAX_INT_BITS:
                raise Unsupported("fold: integer too large")
            return r
        if t is ast.Add and ((isinstance(a, str) and isinstance(b, str)) or (isinstance(a, list) and isinstance(b, list)) or (isinstance(a, tuple) and isinstance(b, tuple))):
            if inplace and isinstance(a, list):
                a.extend(b)
                return a
            return a + b
        if t is ast.Mult and ((isinstance(a, (str, list, tuple)) and isinstance(b, int)) or (isinstance(b, (str, list, tuple)) and isinstance(a, int))):
            n = b if isinstance(b, int) else a
            if n > 4096:
                raise Unsupported("fold: repetition count")
            return a * b
        if t is ast.Mod and isinstance(a, str) and _plain(b):
            try:
                return a % b
            except (TypeError, ValueError) as e:
                raise FoldRaise(f"{type(e).__name__}: {e}", node)
        if t in (ast.BitOr, ast.BitAnd, ast.BitXor, ast.Sub) and isinstance(a, (set, frozenset)) and isinstance(b, (set, frozenset)):
            return {ast.BitOr: operator.or_, ast.BitAnd: operator.and_, ast.BitXor: operator.xor, ast.Sub: operator.sub}[t](a, b)
        if t is ast.BitOr and isinstance(a, dict) and isinstance(b, dict):
            if inplace:
                a.update(b)
                return a
            return {**a, **b}
        raise Unsupported(f"fold: {type(a).__name__} {t.__name__} {type(b).__name__} ({self.rel}:{getattr(node, 'lineno', '?')})")

    def _ev(self, node, frames):
        self._tick(node)
        if isinstance(node, ast.Constant):
            v = node.value
            if isinstance(v, bool) or v is None or isinstance(v, str):
                return v
            if isinstance(v, int):
                self.literals.add((node.lineno, node.col_offset))
                return v
            if isinstance(v, float):
                return v
            raise Unsupported(f"fold: constant {v!r}")
        if isinstance(node, ast.Name):
            return self._lookup(node.id, frames, node)
        if isinstance(node, ast.BinOp):
            return self._binop(node.op, self._ev(node.left, frames), self._ev(node.right, frames), node)
        if isinstance(node, ast.UnaryOp):
            v = self._ev(node.operand, frames)
            if isinstance(node.op, ast.Not):
                return not self._truth(v)
            if isinstance(v, int):
                return {ast.Invert: operator.invert, ast.USub: operator.neg, ast.UAdd: operator.pos}[type(node.op)](int(v))
            raise Unsupported("fold: unary operator on " + type(v).__name__)
        if isinstance(node, ast.BoolOp):
            v = None
            for x in node.values:
                v = self._ev(x, frames)
                t = self._truth(v)
                if (isinstance(node.op, ast.And) and not t) or (isinstance(node.op, ast.Or) and t):
                    return v
            return v
        if isinstance(node, ast.Compare):
            left = self._ev(node.left, frames)
            for op, rn in zip(node.ops, node.comparators):
                right = self._ev(rn, frames)
                if not (_plain(left) and _plain(right)):
                    if isinstance(op, (ast.Is, ast.IsNot)) and (left is None or right is None):
                        pass
                    else:
                        raise Unsupported("fold: comparison of " + type(left).__name__ + " and " + type(right).__name__)
                try:
                    r = _CMP[type(op)](left, right)
                except TypeError as e:
                    raise FoldRaise(f"TypeError: {e}", node)
                if not r:
                    return False
                left = right
            return True
        if isinstance(node, ast.IfExp):
            return self._ev(node.body if self._truth(self._ev(node.test, frames)) else node.orelse, frames)
        if isinstance(node, ast.Dict):
            out = {}
            for k, v in zip(node.keys, node.values):
                if k is None:
                    d = self._ev(v, frames)
                    if not isinstance(d, dict):
                        raise Unsupported("fold: ** of a non-dict")
                    out.update(d)
                else:
                    out[self._hashable(self._ev(k, frames))] = self._ev(v, frames)
            return out
        if isinstance(node, (ast.Tuple, ast.List, ast.Set)):
            out = []
            for e in node.elts:
                if isinstance(e, ast.Starred):
                    out.extend(self._iter(self._ev(e.value, frames), e))
                else:
                    out.append(self._ev(e, frames))
            if isinstance(node, ast.Tuple):
                return tuple(out)
            return out if isinstance(node, ast.List) else {self._hashable(x) for x in out}
        if isinstance(node, ast.Subscript):
            base = self._ev(node.value, frames)
            ix = self._index(node.slice, frames)
            if isinstance(base, (dict, list, tuple, str, range)):
                try:
                    return base[ix]
                except (KeyError, IndexError, TypeError) as e:
                    raise FoldRaise(f"{type(e).__name__}: {e}", node)
            raise Unsupported(f"fold: subscript of {type(base).__name__} ({self.rel}:{node.lineno})")
        if isinstance(node, ast.Attribute):
            base = self._ev(node.value, frames)
            return self._attr(base, node.attr, node)
        if isinstance(node, ast.Call):
            return self._call(node, frames)
        if isinstance(node, (ast.ListComp, ast.SetComp, ast.GeneratorExp, ast.DictComp)):
            out = []
            self._comp(node, 0, frames + [{}], out)
            if isinstance(node, ast.DictComp):
                return dict(out)
            if isinstance(node, ast.SetComp):
                return set(out)
            return out if isinstance(node, ast.ListComp) else iter(out)
        if isinstance(node, ast.JoinedStr):
            parts = []
            for v in node.values:
                if isinstance(v, ast.Constant):
                    parts.append(str(v.value))
                else:
                    x = self._ev(v.value, frames)
                    if not _plain(x):
                        raise Unsupported("fold: f-string field")
                    spec = self._ev(v.format_spec, frames) if v.format_spec is not None else ""
                    if v.conversion == 114:
                        x = repr(x)
                    elif v.conversion == 115:
                        x = str(x)
                    elif v.conversion == 97:
                        x = ascii(x)
                    try:
                        parts.append(format(x, spec))
                    except (TypeError, ValueError) as e:
                        raise FoldRaise(f"{type(e).__name__}: {e}", node)
            return "".join(parts)
        if isinstance(node, ast.Lambda):
            return Func(self, node, list(frames), "<lambda>")
        if isinstance(node, ast.NamedExpr) and isinstance(node.target, ast.Name):
            v = self._ev(node.value, frames)
            frames[-1][node.target.id] = v
            return v
        if isinstance(node, ast.Starred):
            raise Unsupported("fold: starred expression")
        raise Unsupported(f"fold: expression {type(node).__name__} ({self.rel}:{getattr(node, 'lineno', '?')})")

    @staticmethod
    def _hashable(k):
        if isinstance(k, (int, str, bool, type(None), tuple, frozenset, float)):
            return k
        raise Unsupported("fold: unhashable key")

    def _comp(self, node, gi, frames, out):
        if gi == len(node.generators):
            if isinstance(node, ast.DictComp):
                out.append((self._hashable(self._ev(node.key, frames)), self._ev(node.value, frames)))
            else:
                out.append(self._ev(node.elt, frames))
            return
        g = node.generators[gi]
        if g.is_async:
            raise Unsupported("fold: async comprehension")
        for x in self._iter(self._ev(g.iter, frames), g.iter):
            self._tick(node)
            self._store(g.target, x, frames)
            if all(self._truth(self._ev(c, frames)) for c in g.ifs):
                self._comp(node, gi + 1, frames, out)

    def _attr(self, base, name, node):
        if isinstance(base, _Ext):
            tab = _MODULES.get(base.name)
            if tab is not None and name in tab:
                return tab[name]
            raise Unsupported(f"fold: {base.name}.{name} is outside the folded subset ({self.rel}:{getattr(node, 'lineno', '?')})")
        for typ, names in _METHODS.items():
            if type(base) is typ:
                if name in names:
                    return getattr(base, name)
                raise Unsupported(f"fold: method {typ.__name__}.{name}")
        if (base, name) in _CLASS_ATTRS:
            return _CLASS_ATTRS[(base, name)]
        raise Unsupported(f"fold: attribute {name} of {type(base).__name__} ({self.rel}:{getattr(node, 'lineno', '?')})")

    def _call(self, node, frames):
        f = self._ev(node.func, frames)
        args = []
        for a in node.args:
            if isinstance(a, ast.Starred):
                args.extend(self._iter(self._ev(a.value, frames), a))
            else:
                args.append(self._ev(a, frames))
        kw = {}
        for k in node.keywords:
            if k.arg is None:
                d = self._ev(k.value, frames)
                if not isinstance(d, dict):
                    raise Unsupported("fold: ** of a non-dict")
                kw.update(d)
            else:
                kw[k.arg] = self._ev(k.value, frames)
        if isinstance(f, Func):
            return self._call_func(f, args, kw)
        if isinstance(f, tuple) and len(f) == 2 and f[0] == "<exception>":
            return ("<exception-instance>", f[1], tuple(args))
        if not callable(f) or isinstance(f, _Ext):
            raise Unsupported(f"fold: call of {type(f).__name__} ({self.rel}:{node.lineno})")
        try:
            r = f(*args, **kw)
        except (_Return, _Break, _Continue):
            raise
        except (Unsupported, FoldRaise, AnchorError):
            raise
        except (KeyError, IndexError, TypeError, ValueError, StopIteration, AttributeError, ZeroDivisionError, OverflowError) as e:
            raise FoldRaise(f"{type(e).__name__}: {e}", node)
        if isinstance(r, int) and not isinstance(r, bool) and r.bit_length() > MAX_INT_BITS:
            raise Unsupported("fold: integer too large")
        return r

    def _call_func(self, f, args, kw):
        self.depth += 1
        if self.depth > MAX_DEPTH:
            self.depth -= 1
            raise Unsupported("fold: call depth")
        try:
            node = f.node
            if f.name != "<lambda>" and f.frames and f.frames[-1] is self.globals:
                self.functions.add(f.name)
            a = node.args
            loc = {}
            pos = [p.arg for p in a.posonlyargs + a.args]
            if len(args) > len(pos):
                if a.vararg is None:
                    raise FoldRaise(f"TypeError: {f.name}() takes {len(pos)} positional arguments", node)
                loc[a.vararg.arg] = tuple(args[len(pos):])
            elif a.vararg is not None:
                loc[a.vararg.arg] = ()
            for p, v in zip(pos, args):
                loc[p] = v
            names = set(pos) | {p.arg for p in a.kwonlyargs}
            extra = {}
            for k, v in kw.items():
                if k in loc:
                    raise FoldRaise(f"TypeError: {f.name}() got multiple values for {k}", node)
                if k in names and k not in {p.arg for p in a.posonlyargs}:
                    loc[k] = v
                elif a.kwarg is not None:
                    extra[k] = v
                else:
                    raise FoldRaise(f"TypeError: {f.name}() got an unexpected keyword argument {k}", node)
            if a.kwarg is not None:
                loc[a.kwarg.arg] = extra
            dpos = dict(zip(pos[len(pos) - len(a.defaults):], a.defaults))
            dkw = {p.arg: d for p, d in zip(a.kwonlyargs, a.kw_defaults) if d is not None}
            for p in pos + [x.arg for x in a.kwonlyargs]:
                if p not in loc:
                    d = dpos.get(p, dkw.get(p))
                    if d is None:
                        raise FoldRaise(f"TypeError: {f.name}() missing argument {p}", node)
                    loc[p] = self._ev(d, f.frames)
            frames = list(f.frames) + [loc]
            if isinstance(node, ast.Lambda):
                return self._ev(node.body, frames)
            try:
                self._run(node.body, frames)
            except _Return as r:
                return r.value
            return None
        finally:
            self.depth -= 1


def _plain(v):
    if isinstance(v, (int, str, bool, type(None), float, range)):
        return True
    if isinstance(v, (tuple, list, set, frozenset)):
        return all(_plain(x) for x in v)
    if isinstance(v, dict):
        return all(_plain(k) and _plain(x) for k, x in v.items())
    return False


def _as_load(t):
    n = _copy.copy(t)
    n.ctx = ast.Load()
    return n


def _is_cache_decorator(d):
    """functools.lru_cache / functools.cache (with or without arguments): memoisation does not change the value"""
    if isinstance(d, ast.Call):
        d = d.func
    name = d.attr if isinstance(d, ast.Attribute) else (d.id if isinstance(d, ast.Name) else None)
    return name in ("lru_cache", "cache")
