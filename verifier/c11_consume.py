"""C11 -- consumption evaluator: file-position bookkeeping of a reading function, decided on values.

`Walker` walks the statements of a function with the symbolic evaluator (AutoEvaluator) and records, per loop body and per branch, what
the function *consumes* from the file it reads:

    f.read(n)                     n bytes                 (the value read is the atom  rd(frame, offset, n))
    f.seek(n, 1)                  n bytes
    np.fromfile(f, dtype, n)      n * itemsize(dtype) bytes
    f.readline()                  1 line                  (the value read is the atom  ln(frame, line offset))
    it.islice(f, n)               n lines
    for _ in it.repeat(None, n) / range(n): <body>        n * (consumption of the body)
    self._getkey(), self._skipkey(k), self.rdop2eot(), self._get_ascii_block(...) ...
                                  whatever their bodies consume: functions of the same class that touch the file (transitively) and
                                  one-line getters are *followed*, so extracting or inlining a helper changes nothing.

The result is a tree of items

    ("B", bytes) | ("L", lines) | ("loop", Loop) | ("if", test value, items, items) | ("exit", kind) | ("abs", position)

Values read from the file are named by *where* they were read (frame = loop nesting path, offset = bytes/lines consumed in that frame so
far), not by the local they were stored in; loop-carried locals are named by the value they enter the loop with.  A reader and a skipper
that consume the same bytes and loop on the same decoded words therefore produce *equal trees* whatever their temporaries, local names,
branch layout or helper structure are.

Two arms of an `if` that consume the same are merged.  At a struct/fromfile cut-over the two arms consume `nbytes` and
`count * itemsize(dtype)`: the walker merges them *assuming* itemsize(dtype) == nbytes / count and records that equation in
`Walker.cutovers`; rule C11-R1 discharges every recorded equation for every format binding and key width.

Nothing of pyyeti is imported or executed: all of this is a walk over the ast with formulas as values."""
from __future__ import annotations

import ast
import itertools

from . import e2_formula as F
from . import op4_model as M
from .core import Unsupported
from .e1_srcmodel import dotted
from .e2_eval import AutoEvaluator, Unknown, is_unknown, need

FILE = F.sym("self._fileh")
ZERO = F.const(0)
ONE = F.const(1)


# ------------------------------------------------------------------------------------------------------------------ formula helpers
def atoms_of(r):
    """atom ids occurring at the top level of a formula (numerator and denominator)"""
    out = set()
    for p in (r.n, r.d):
        for m in p.t:
            for a, _e in m:
                out.add(a)
    return out


def as_atom(r):
    """formula that is exactly one atom -> its description tuple, else None"""
    if r is None or is_unknown(r) or isinstance(r, tuple):
        return None
    if not r.d.is_const() or r.d.const_value() != 1 or len(r.n.t) != 1:
        return None
    (m, c), = r.n.t.items()
    if c != 1 or len(m) != 1 or m[0][1] != 1:
        return None
    return F.atom_desc(m[0][0])


def fn_parts(r):
    """formula that is one opaque application -> (name, [args as Rat or str]) else None"""
    d = as_atom(r)
    if d is None or d[0] != "fn":
        return None
    return d[1], [_arg(k) for k in d[2]]


def _arg(k):
    if isinstance(k, str):
        return k
    return F.Rat(F._poly_from_key(k[1]), F._poly_from_key(k[2]))


def sym_name(r):
    d = as_atom(r)
    return d[1] if d is not None and d[0] == "s" else None


def rewrite(r, pre=None, post=None):
    """rebuild a formula bottom-up.  pre(desc) -> Rat | None  is asked before the arguments of an atom are rebuilt (a result short-cuts);
    post(name, args) -> Rat | None  after.  Symbols go through pre only."""
    memo = {}

    def poly(p):
        res = F.const(0)
        for m, c in p.t.items():
            term = F.const(c)
            for a, e in m:
                term = term * (atom(a) ** e)
            res = res + term
        return res

    def atom(a):
        if a in memo:
            return memo[a]
        d = F.atom_desc(a)
        out = None
        if pre is not None:
            out = pre(d)
        if out is None:
            if d[0] == "fn":
                args = [k if isinstance(k, str) else poly(F._poly_from_key(k[1])) / poly(F._poly_from_key(k[2])) for k in d[2]]
                if post is not None:
                    out = post(d[1], args)
                if out is None:
                    out = F.fn(d[1], *args)
            else:
                out = F.Rat(F.Poly.atom(a))
        memo[a] = out
        return out

    if isinstance(r, tuple):
        return tuple(rewrite(x, pre, post) for x in r)
    if r is None or is_unknown(r):
        return r
    return poly(r.n) / poly(r.d)


def walk_atoms(r, seen=None):
    """every atom description occurring anywhere inside a formula (arguments of applications included)"""
    seen = set() if seen is None else seen
    out = []

    def poly(p):
        for m in p.t:
            for a, _e in m:
                if a in seen:
                    continue
                seen.add(a)
                d = F.atom_desc(a)
                out.append(d)
                if d[0] == "fn":
                    for k in d[2]:
                        if not isinstance(k, str):
                            poly(F._poly_from_key(k[1]))
                            poly(F._poly_from_key(k[2]))

    if isinstance(r, tuple):
        for x in r:
            out.extend(walk_atoms(x, seen))
        return out
    if r is None or is_unknown(r):
        return out
    poly(r.n)
    poly(r.d)
    return out


def floordiv(a, b):
    """a // b on integer-valued polynomials: the terms of `a` that are multiples of `b` are divided exactly,
    (q*b + rem) // b = q + rem // b ; so (L + p - 1) // p and (L - 1) // p + 1 have the same normal form"""
    a, b = need(a), need(b)
    if b.is_zero():
        raise Unsupported("floor division by zero")
    if not a.d.is_const() or not b.d.is_const():
        return F.fn("floordiv", a, b)
    bn = b.n.scale(1 / b.d.const_value())
    an = a.n.scale(1 / a.d.const_value())
    if len(bn.t) != 1:
        return F.fn("floordiv", a, b)
    (bm, bc), = bn.t.items()
    q, rem = F.Poly(), F.Poly()
    bdict = dict(bm)
    for m, c in an.t.items():
        md = dict(m)
        if all(md.get(x, 0) >= e for x, e in bdict.items()) and (c / bc).denominator == 1:
            for x, e in bdict.items():
                md[x] -= e
                if not md[x]:
                    del md[x]
            q = q + F.Poly({tuple(sorted(md.items())): c / bc})
        else:
            rem = rem + F.Poly({m: c})
    if rem.is_zero():
        return F.Rat(q)
    return F.Rat(q) + F.fn("floordiv", F.Rat(rem), b)


def whole(r):
    """the same formula under the format invariant 'records hold whole values': every x // b is x / b"""
    def post(name, args):
        if name == "floordiv" and len(args) == 2 and not isinstance(args[1], str) and not args[1].is_zero():
            return args[0] / args[1]
        return None
    return rewrite(r, post=post)


def canon_tests(r):
    """integer comparisons in one normal form: a < b, a + 1 <= b, b > a, not a >= b ... all become ge0(b - a - 1)"""
    def post(name, args):
        if name.startswith("cmp:") and len(args) == 2:
            a, b = args
            k = name[4:]
            if k == "Lt":
                return F.fn("ge0", b - a - 1)
            if k == "LtE":
                return F.fn("ge0", b - a)
            if k == "Gt":
                return F.fn("ge0", a - b - 1)
            if k == "GtE":
                return F.fn("ge0", a - b)
            if k in ("Eq", "NotEq"):
                d = a - b
                if F._leading_negative(d.n):
                    d = -d
                e = F.fn("eq0", d)
                return e if k == "Eq" else F.fn("not", e)
            if k == "NotIn":
                return F.fn("not", F.fn("cmp:In", a, b))
            if k == "IsNot":
                return F.fn("not", F.fn("cmp:Is", a, b))
        if name == "not" and len(args) == 1:
            p = fn_parts(args[0])
            if p is not None and p[0] == "not":
                return p[1][0]
            if p is not None and p[0] == "ge0":
                return F.fn("ge0", -p[1][0] - 1)
        return None
    return rewrite(r, post=post)


def expand_words(r):
    """W = hi16(W) * 65536 + lo16(W) for every word W whose halves occur in the formula"""
    words = []
    for d in walk_atoms(r):
        if d[0] == "fn" and d[1] in ("hi16", "lo16"):
            a = as_atom(_arg(d[2][0]))
            if a is not None and a not in words:
                words.append(a)
    if not words:
        return r

    def pre(d):
        if d[0] == "fn" and d[1] in ("hi16", "lo16"):
            return F.Rat(F.Poly.atom(F._intern(d)))
        if d in words:
            at = F.Rat(F.Poly.atom(F._intern(d)))
            return F.fn("hi16", at) * 65536 + F.fn("lo16", at)
        return None
    return rewrite(r, pre=pre)


_NORM = {}


def norm(r, whole_values=True):
    if r is None or is_unknown(r) or isinstance(r, tuple):
        return r if not isinstance(r, tuple) else tuple(norm(x, whole_values) for x in r)
    k = (r.n.key(), r.d.key(), whole_values)
    out = _NORM.get(k)
    if out is None:
        out = canon_tests(expand_words(r))
        if whole_values:
            out = whole(out)
        if len(_NORM) > 20000:
            _NORM.clear()
        _NORM[k] = out
    return out


def same(a, b, whole_values=True):
    if a is None or b is None or is_unknown(a) or is_unknown(b):
        return False
    if isinstance(a, tuple) or isinstance(b, tuple):
        return isinstance(a, tuple) and isinstance(b, tuple) and len(a) == len(b) and all(same(x, y, whole_values) for x, y in zip(a, b))
    try:
        return need(norm(a, whole_values)).equals(need(norm(b, whole_values)))
    except Unsupported:
        return False


def phi(c, a, b):
    """value of a local after `if c: <a> else: <b>`"""
    if a is None or b is None:
        return Unknown("bound in one arm of an `if` only")
    if isinstance(a, tuple) or isinstance(b, tuple):
        if isinstance(a, tuple) and isinstance(b, tuple) and len(a) == len(b):
            return tuple(phi(c, x, y) for x, y in zip(a, b))
        try:
            a = F.fn("tuple", *[need(x) for x in a]) if isinstance(a, tuple) else a
            b = F.fn("tuple", *[need(x) for x in b]) if isinstance(b, tuple) else b
        except Unsupported:
            return Unknown("tuple in one arm of an `if` only")
    if not is_unknown(c) and not isinstance(c, tuple) and c.is_const():
        return a if c.const_value() != 0 else b
    if is_unknown(a) or is_unknown(b):
        return a if is_unknown(a) else b
    if is_unknown(c):
        return c
    if a.equals(b):
        return a
    return F.fn("phi", c, a, b)


def leaves(values):
    """every consistent resolution of the phi(...) selections inside a list of formulas -> [(assignments, [resolved values])]"""
    def first_phi(v):
        for d in walk_atoms(v):
            if d[0] == "fn" and d[1] == "phi":
                return _arg(d[2][0])
        return None

    def choose(v, c, take):
        def pre(d):
            if d[0] == "fn" and d[1] == "phi" and _arg(d[2][0]).equals(c):
                return choose(_arg(d[2][1 if take else 2]), c, take)
            return None
        return rewrite(v, pre=pre)

    out = []

    def rec(vals, path):
        c = None
        for v in vals:
            if v is None or is_unknown(v):
                continue
            c = first_phi(v)
            if c is not None:
                break
        if c is None:
            out.append((path, vals))
            return
        if len(path) > 12:
            raise Unsupported("too many nested selections")
        for take in (True, False):
            rec([v if v is None or is_unknown(v) else choose(v, c, take) for v in vals], path + [(c, take)])

    rec(list(values), [])
    return out


# ------------------------------------------------------------------------------------------------------------------ items
class Loop:
    __slots__ = ("kind", "test", "items", "carry", "frame", "node", "exits", "entry", "guard", "ph")

    def __init__(self, kind, test, items, carry, frame, node, entry, guard=(), ph=None):
        self.kind, self.test, self.items, self.carry, self.frame, self.node, self.entry = kind, test, items, carry, frame, node, entry
        self.guard = guard            # path condition under which the loop is reached
        self.ph = ph or {}            # local name -> placeholder

    def entry_test(self):
        """the loop condition on first entry (placeholders replaced by the values the locals enter the loop with)"""
        mapping = [(p, self.entry.get(nm)) for nm, p in self.ph.items()
                   if not is_unknown(p) and self.entry.get(nm) is not None and not is_unknown(self.entry.get(nm)) and not isinstance(self.entry.get(nm), tuple)]
        return renamer(mapping)(self.test)


def tidy(items):
    """adjacent byte / line counts added up, zero counts dropped"""
    out = []
    for it in items:
        if it[0] in ("B", "L"):
            if is_unknown(it[1]):
                out.append(it)
                continue
            if out and out[-1][0] == it[0] and not is_unknown(out[-1][1]):
                out[-1] = (it[0], out[-1][1] + it[1])
            else:
                out.append(it)
        elif it[0] == "if":
            out.append(("if", it[1], tidy(it[2]), tidy(it[3])))
        else:
            out.append(it)
    return [it for it in out if not (it[0] in ("B", "L") and not is_unknown(it[1]) and norm(it[1]).is_zero())]


def _loop_refs(lp):
    """placeholders (loop-carried locals) the consumption of a loop depends on: those in its test, its items and, transitively, in the
    updates of those"""
    names = {repr(p): p for p, _v in lp.carry}
    upd = {repr(p): v for p, v in lp.carry}
    want = set()

    def scan(v):
        for d in walk_atoms(v):
            if d[0] == "fn" and d[1] == "lv":
                k = repr(F.Rat(F.Poly.atom(F._intern(d))))
                if k in names:
                    want.add(k)

    def scan_items(items):
        for it in items:
            if it[0] in ("B", "L", "abs"):
                scan(it[1])
            elif it[0] == "if":
                scan(it[1])
                scan_items(it[2])
                scan_items(it[3])
            elif it[0] == "loop":
                scan(it[1].test)
                scan_items(it[1].items)
                for _p, v in it[1].carry:
                    scan(v)
    scan(lp.test)
    scan_items(lp.items)
    n = -1
    while n != len(want):
        n = len(want)
        for k in list(want):
            scan(upd[k])
    return [(names[k], upd[k]) for k in sorted(want)]


def same_items(a, b, whole_values=True, why=None):
    """equality of two consumption trees; `why` (a list) receives the first difference"""
    a, b = tidy(a), tidy(b)

    def no(msg):
        if why is not None and not why:
            why.append(msg)
        return False

    if len(a) != len(b):
        return no(f"{show(a)}  vs  {show(b)}")
    for x, y in zip(a, b):
        if x[0] != y[0]:
            return no(f"{show([x])}  vs  {show([y])}")
        if x[0] in ("B", "L", "abs"):
            if not same(x[1], y[1], whole_values):
                return no(f"{show([x])}  vs  {show([y])}")
        elif x[0] == "exit":
            if x[1] != y[1]:
                return no(f"{x[1]} vs {y[1]}")
        elif x[0] == "if":
            if not same(x[1], y[1], whole_values):
                return no(f"branch on {x[1]!r}  vs  {y[1]!r}")
            if not same_items(x[2], y[2], whole_values, why) or not same_items(x[3], y[3], whole_values, why):
                return False
        elif x[0] == "loop":
            if not same_loops(x[1], y[1], whole_values, why):
                return False
    return True


def truth_of(v):
    """True / False when a (normalised) test formula is decided by constants, else None"""
    if v is None or is_unknown(v) or isinstance(v, tuple):
        return None
    v = norm(v, whole_values=False)
    if v.is_const():
        return v.const_value() != 0
    p = fn_parts(v)
    if p is None:
        return None
    if p[0] == "ge0" and p[1][0].is_const():
        return p[1][0].const_value() >= 0
    if p[0] == "eq0":
        d = p[1][0]
        if d.is_const():
            return d.const_value() == 0
        # two different text literals are different
        terms = list(d.n.t.items()) if d.d.is_const() else []
        if len(terms) == 2 and all(len(m) == 1 and m[0][1] == 1 and F.atom_desc(m[0][0])[0] == "s" and F.atom_desc(m[0][0])[1][:1] in "'\""
                                   for m, _c in terms) and terms[0][1] == -terms[1][1]:
            return False
    if p[0] == "not":
        t = truth_of(p[1][0])
        return None if t is None else not t
    if p[0] in ("bool:And", "bool:Or"):
        ts = [truth_of(a) for a in p[1]]
        if p[0] == "bool:And":
            return False if any(t is False for t in ts) else (True if all(t is True for t in ts) else None)
        return True if any(t is True for t in ts) else (False if all(t is False for t in ts) else None)
    return None


def settle(v):
    """selections whose condition is decided by constants are taken (after a substitution of concrete values)"""
    def post(name, args):
        if name == "phi" and len(args) == 3:
            t = truth_of(args[0])
            if t is not None:
                return args[1] if t else args[2]
        if name == "odd" and len(args) == 1 and not isinstance(args[0], str) and args[0].is_const() and args[0].const_value().denominator == 1:
            return F.const(int(args[0].const_value()) & 1)
        return None
    return rewrite(v, post=post)


def _canon_carried(lp):
    """a loop-carried local that is only tested (not used in the body's consumption) and is overwritten in every iteration by a value that
    does not depend on loop-carried locals is named by that value: the value it *enters* the loop with then matters only through the
    truth of the loop condition on first entry (compared separately), so `dtype = 1` and `dtype = 2` before `while dtype > 0` are the same"""
    used = []

    def scan_items(items):
        for it in items:
            if it[0] in ("B", "L", "abs"):
                used.extend(walk_atoms(it[1]))
            elif it[0] == "if":
                used.extend(walk_atoms(it[1]))
                scan_items(it[2])
                scan_items(it[3])
            elif it[0] == "loop":
                used.extend(walk_atoms(it[1].test))
                scan_items(it[1].items)
                for _p, v in it[1].carry:
                    used.extend(walk_atoms(v))
    scan_items(lp.items)
    mapping = []
    for p, v in lp.carry:
        if v is None or is_unknown(v) or isinstance(v, tuple):
            continue
        own = any(d[0] == "fn" and d[1] == "lv" and _arg(d[2][0]).equals(lp.frame) for d in walk_atoms(v))
        if own or as_atom(p) in used:
            continue
        mapping.append((p, F.fn("lvu", lp.frame, v)))
    return map_loop(lp, renamer(mapping)) if mapping else lp


def same_loops(l1, l2, whole_values=True, why=None):
    def no(msg):
        if why is not None and not why:
            why.append(msg)
        return False
    if l1.kind != l2.kind:
        return no(f"{l1.kind} loop vs {l2.kind} loop")
    e1, e2 = l1.entry_test(), l2.entry_test()
    t1, t2 = truth_of(e1), truth_of(e2)
    if not ((t1 is not None and t1 == t2) or same(e1, e2, whole_values)):
        return no(f"loop condition on entry {norm(e1)!r}  vs  {norm(e2)!r}")
    l1, l2 = _canon_carried(l1), _canon_carried(l2)
    if not same(l1.test, l2.test, whole_values):
        return no(f"loop condition {norm(l1.test)!r}  vs  {norm(l2.test)!r}")
    if not same_items(l1.items, l2.items, whole_values, why):
        return False
    c1, c2 = _loop_refs(l1), _loop_refs(l2)
    if len(c1) != len(c2):
        return no(f"loop-carried values {[repr(p) for p, _ in c1]}  vs  {[repr(p) for p, _ in c2]}")
    for (p1, v1) in c1:
        hit = [v2 for p2, v2 in c2 if same(p1, p2, whole_values)]
        if len(hit) != 1 or not same(v1, hit[0], whole_values):
            return no(f"update of {p1!r}: {None if is_unknown(v1) else norm(v1)!r}  vs  {[None if is_unknown(h) else norm(h) for h in hit]!r}")
    return True


def show(items, depth=0):
    out = []
    for it in tidy(items):
        if it[0] in ("B", "L", "abs"):
            v = it[1] if is_unknown(it[1]) else norm(it[1])
            out.append(f"{it[0]}[{v!r}]")
        elif it[0] == "exit":
            out.append(it[1])
        elif it[0] == "if":
            out.append(f"if({norm(it[1])!r}){{{show(it[2], depth + 1)}}}else{{{show(it[3], depth + 1)}}}")
        elif it[0] == "loop":
            out.append(f"{it[1].kind}({norm(it[1].test)!r}){{{show(it[1].items, depth + 1)}}}")
    return " ".join(out)


def map_items(items, f):
    """the same tree with every formula passed through f"""
    out = []
    for it in items:
        if it[0] in ("B", "L", "abs"):
            out.append((it[0], f(it[1])))
        elif it[0] == "if":
            out.append(("if", f(it[1]), map_items(it[2], f), map_items(it[3], f)))
        elif it[0] == "loop":
            out.append(("loop", map_loop(it[1], f)))
        else:
            out.append(it)
    return out


def map_loop(lp, f):
    fm = lambda v: v if v is None or is_unknown(v) else f(v)   # noqa
    new = Loop(lp.kind, f(lp.test), map_items(lp.items, f), [(f(p), fm(v)) for p, v in lp.carry],
               f(lp.frame), lp.node, {k: fm(v) for k, v in lp.entry.items()}, tuple((fm(c), pol) for c, pol in lp.guard),
               {k: fm(v) for k, v in lp.ph.items()})
    new.exits = lp.exits
    return new


def renamer(mapping):
    """f for map_items: atoms equal to a key of `mapping` (list of (formula, replacement)) are replaced, everywhere inside formulas"""
    keys = [(as_atom(k), v) for k, v in mapping if as_atom(k) is not None]

    def pre(d):
        for kd, v in keys:
            if kd == d:
                return v
        return None

    def f(r):
        return rewrite(r, pre=pre)
    return f


def total(items, unit):
    """sum of the plain counts of one unit in an item list; None if a loop / branch / unknown contributes"""
    tot = F.const(0)
    for it in tidy(items):
        if it[0] == unit:
            if is_unknown(it[1]):
                return None
            tot = tot + it[1]
        elif it[0] in ("loop", "if", "abs"):
            return None
    return tot


def loops_of_call(w, fn):
    """the loops a followed function opened directly in the frame it was called in (in order)"""
    sp = w.spans.get(id(fn))
    if sp is None:
        return []
    fid, n0, n1 = sp
    out = []
    for lp in loops_in(w.top.items):
        p = fn_parts(lp.frame)
        if p is not None and p[0] == "frame" and p[1][0].equals(fid) and n0 < p[1][1].const_value() <= n1:
            out.append(lp)
    return out


def loops_in(items, deep=True):
    out = []
    for it in items:
        if it[0] == "loop":
            out.append(it[1])
            if deep:
                out.extend(loops_in(it[1].items))
        elif it[0] == "if" and deep:
            out.extend(loops_in(it[2]))
            out.extend(loops_in(it[3]))
    return out


# ------------------------------------------------------------------------------------------------------------------ evaluator
class _Frame:
    def __init__(self, fid):
        self.id = fid
        self.items = []
        self.off = {"B": ZERO, "L": ZERO}
        self.nloops = 0
        self.nopq = 0

    def opaque(self):
        self.nopq += 1
        for u in ("B", "L"):
            self.off[u] = F.fn("after", self.id, F.const(self.nopq), u)


class Stuck(Exception):
    """the walker met a construct it cannot lower (not an Unsupported: Evaluator.ev would swallow that into an Unknown value)"""


def _is_str(v):
    """a value that is text: a literal, or a concatenation / method result of one"""
    if v is None or is_unknown(v) or isinstance(v, tuple):
        return False
    n = sym_name(v)
    if n is not None:
        return n[:1] in "'\"" or n[:2] in ("b'", 'b"')
    p = fn_parts(v)
    return p is not None and p[0] in ("cat", "fmt")


class CEval(AutoEvaluator):
    """AutoEvaluator whose calls are handled by the walker (each argument is evaluated exactly once: reads have effects)"""

    def __init__(self, fn, walker, **kw):
        super().__init__(fn, **kw)
        self.walker = walker

    def _call(self, node):
        return self.walker.call(node, self)

    def _assign(self, target, v, st, aug=False):
        if isinstance(target, ast.Name) and target.id in self.buffers:
            self.walker.all_inits.append((target.id, v, st))
            self.walker.init_guards[id(st)] = self.walker.guard
        return super()._assign(target, v, st, aug)

    def _ev(self, node):
        if isinstance(node, (ast.ListComp, ast.GeneratorExp, ast.SetComp)):
            parts = []
            saved = {}
            try:
                for g in node.generators:
                    v = self._ev(g.iter)
                    if isinstance(v, tuple):
                        try:
                            v = F.fn("tuple", *[need(x) for x in v])
                        except Unsupported as e:
                            v = Unknown(str(e))
                    if is_unknown(v):
                        return v
                    parts.append(need(v))
                    for i, x in enumerate(n for n in ast.walk(g.target) if isinstance(n, ast.Name)):
                        if x.id not in saved:
                            saved[x.id] = self.env.get(x.id)
                        self.env[x.id] = F.fn("each", need(v), F.const(i))
                    for c in g.ifs:
                        cv = self._ev(c)
                        if is_unknown(cv) or isinstance(cv, tuple):
                            return cv if is_unknown(cv) else Unknown("test on a tuple")
                        parts.append(F.fn("where", need(cv)))
                e = self._ev(node.elt)
                if isinstance(e, tuple):
                    try:
                        e = F.fn("tuple", *[need(x) for x in e])
                    except Unsupported as ex:
                        e = Unknown(str(ex))
                if is_unknown(e):
                    return e
                return F.fn("comp", need(e), *parts)
            finally:
                for k, v in saved.items():
                    if v is None:
                        self.env.pop(k, None)
                    else:
                        self.env[k] = v
        if isinstance(node, ast.JoinedStr):
            parts = []
            for v in node.values:
                if isinstance(v, ast.Constant):
                    parts.append(F.sym(repr(v.value)))
                elif isinstance(v, ast.FormattedValue) and v.conversion == -1 and v.format_spec is None:
                    x = self._ev(v.value)
                    if is_unknown(x) or isinstance(x, tuple):
                        return F.sym("fstr:" + ast.unparse(node))
                    parts.append(x)
                else:
                    return F.sym("fstr:" + ast.unparse(node))
            if not parts:
                return F.sym("''")
            out = parts[0]
            for x in parts[1:]:
                out = F.fn("cat", out, x)
            return out
        if isinstance(node, ast.Constant) and isinstance(node.value, bytes):
            return F.sym(repr(node.value))
        if isinstance(node, ast.Compare) and len(node.ops) == 1 and isinstance(node.comparators[0], (ast.Tuple, ast.List)) \
                or isinstance(node, ast.Compare) and len(node.ops) == 1 and isinstance(node.left, (ast.Tuple, ast.List)):
            a, b = self._ev(node.left), self._ev(node.comparators[0])
            pack = lambda v: F.fn("tuple", *[need(x) for x in v]) if isinstance(v, tuple) else v   # noqa
            try:
                a, b = pack(a), pack(b)
            except Unsupported as e:
                return Unknown(str(e))
            if is_unknown(a) or is_unknown(b):
                return a if is_unknown(a) else b
            return F.fn("cmp:" + type(node.ops[0]).__name__, need(a), need(b))
        if isinstance(node, ast.IfExp):
            c = self.decide(node.test)
            if c is True:
                return self._ev(node.body)
            if c is False:
                return self._ev(node.orelse)
            cv = self._ev(node.test)
            t = truth_of(cv)
            if t is not None:
                return self._ev(node.body if t else node.orelse)
            n0 = len(self.walker.frame.items)
            a, b = self._ev(node.body), self._ev(node.orelse)
            if len(self.walker.frame.items) != n0:
                raise Stuck(f"conditional expression with file effects at line {node.lineno}")
            if isinstance(cv, tuple):
                cv = Unknown("test on a tuple")
            return phi(cv, a, b)
        if isinstance(node, ast.Subscript):
            v = super()._ev(node)
            if not is_unknown(v) and not isinstance(v, tuple):
                p = fn_parts(v)
                if p is not None and p[0] == "idx" and not isinstance(p[1][0], str) and not isinstance(p[1][1], str) and p[1][1].is_const():
                    q = fn_parts(p[1][0])
                    if q is not None and q[0] == "dec":
                        self.walker.events.append(("decidx", p[1][0], int(p[1][1].const_value()), node))
            return v
        if isinstance(node, ast.NamedExpr):
            v = self._ev(node.value)
            self.walker.assign(node.target, v, node)
            return v
        if isinstance(node, ast.Lambda):
            return F.sym("lambda:" + ast.unparse(node))
        if isinstance(node, ast.Dict):
            return F.sym("dict:" + ast.unparse(node))
        return super()._ev(node)


class Walker:
    def __init__(self, ctx, rel, cls, fn, env=None, cond=None, no_inline=(), extra_inline=(), files=(FILE,), small=None, follow=None,
                 indirect=None, pinned=None):
        self.ctx, self.rel, self.cls, self.fn = ctx, rel, cls, fn
        self.cond = cond
        self.pinned = dict(pinned or {})
        self.files = list(files)
        self.no_inline = set(no_inline)
        self.extra_inline = set(extra_inline)
        self.indirect = indirect or {}       # {id(Call node) or local name: FunctionDef} calls through a local that holds a function
        self.follow = True if follow is None else follow
        self.small = {} if small is None else small
        self._int = M.int_binop(self.small)
        self.top = _Frame(F.sym("T"))
        self.frames = [self.top]
        self.events = []          # (kind, payload..., node) in evaluation order: read / fromfile / unpack / call / return / line
        self.cutovers = []        # (if node, dtype value, bytes-per-value assumed, count, struct-arm events, fromfile-arm events)
        self.assumed = []         # text of the invariants used
        self.depth = 0
        self.stack = [fn]
        self.guard = ()
        self.returns = []         # (value, guard, node) of the walked function itself
        self._ret_stack = [self.returns]
        self._breaks = []         # per open loop: environments at its `break` statements
        self.bound = {}           # id(followed FunctionDef) -> {parameter: value} of its (last) call
        self.spans = {}           # id(followed FunctionDef) -> (frame id, loops of that frame before the call, after the call)
        self._cells = []          # subscript stores of followed callees
        self.all_inits = []       # (buffer name, creating value, statement)
        self.init_guards = {}     # id(statement) -> guard under which a buffer was (re)bound
        cache = ctx.__dict__.setdefault("_c11_tables_fx", {})
        if (rel, cls) not in cache:
            tb = _method_table(ctx, rel, cls)
            cache[(rel, cls)] = (tb, _file_effects(tb))
        self.table, self.effects = cache[(rel, cls)]
        env = dict(env or {})
        a = fn.args
        for x in a.posonlyargs + a.args + a.kwonlyargs + ([a.vararg] if a.vararg else []) + ([a.kwarg] if a.kwarg else []):
            if x.arg not in env and x.arg not in ("self", "cls"):
                env[x.arg] = F.sym(x.arg)
        self.ev = self._new_ev(fn, env)
        self.status = None

    # ------------------------------------------------------------------ plumbing
    def _new_ev(self, fn, env):
        return CEval(fn, self, src=self.ctx.src, cond=self.cond, binop=self._binop, env=env, pinned=self.pinned)

    @property
    def frame(self):
        return self.frames[-1]

    @property
    def all_cells(self):
        """(buffer, index value, stored value, statement) of every subscript store met, followed callees included"""
        return list(self._cells) + list(self.ev.cells)

    def emit(self, unit, n, node=None):
        if is_unknown(n):
            raise Stuck(f"consumption of unknown size ({n.why}) at line {getattr(node, 'lineno', '?')}")
        fr = self.frame
        fr.items.append((unit, need(n)))
        fr.off[unit] = fr.off[unit] + need(n)

    def is_file(self, v):
        return v is not None and not is_unknown(v) and not isinstance(v, tuple) and any(v.equals(f) for f in self.files)

    def _binop(self, node, a, b, ev):
        op = node.op
        if is_unknown(a) or is_unknown(b) or isinstance(a, tuple) or isinstance(b, tuple):
            return NotImplemented
        if isinstance(op, ast.FloorDiv):
            try:
                return floordiv(a, b)
            except Unsupported as e:
                return Unknown(str(e))
        if isinstance(op, ast.Div):
            # true division is not integer arithmetic: kept opaque (int(a / b) is a // b), so that it never passes for a // b
            a, b = need(a), need(b)
            if b.is_const() and not b.is_zero() and (a / b).d.is_const() and all(
                    c.denominator == 1 for c in (a / b).n.scale(1 / (a / b).d.const_value()).t.values()):
                return a / b
            return F.fn("truediv", a, b)
        if isinstance(op, ast.Mod):
            return F.fn("fmt" if _is_str(a) else "mod", need(a), need(b))
        if isinstance(op, ast.Add) and (_is_str(a) or _is_str(b)):
            return F.fn("cat", need(a), need(b))
        if isinstance(op, (ast.RShift, ast.BitAnd)):
            a, b = need(a), need(b)
            if isinstance(op, ast.BitAnd) and b.is_const() and b.const_value() == 1:
                return F.fn("odd", a)
            wide = b.is_const() and b.const_value() == (16 if isinstance(op, ast.RShift) else 0xFFFF)
            r = self._int(node, self._split_words(a) if wide else a, b, ev)
            if is_unknown(r):
                # not a 16-bit split of a word: keep the operation opaque (a mask that keeps fewer bits than the field has
                # then simply differs from the expected low half)
                return F.fn("shr" if isinstance(op, ast.RShift) else "and", a, b)
            return r
        return self._int(node, a, b, ev)

    def _split_words(self, a):
        """W = hi16(W) * 65536 + lo16(W) for every opaque word W of a polynomial that is about to be shifted or masked"""
        if not a.d.is_const():
            return a
        res = F.const(0)
        for m, c in a.n.t.items():
            term = F.const(c / a.d.const_value())
            for x, e in m:
                d = F.atom_desc(x)
                at = F.Rat(F.Poly.atom(x))
                if e == 1 and len(m) == 1 and not (d[0] == "fn" and d[1] in ("hi16", "lo16")):
                    hi, lo = F.fn("hi16", at), F.fn("lo16", at)
                    self.small[repr(lo)] = 16
                    at = hi * 65536 + lo
                term = term * (at ** e)
            res = res + term
        return res

    # ------------------------------------------------------------------ statements
    def run_function(self):
        self.status = self.run(self.fn.body)
        return self

    def run(self, stmts):
        stmts = list(stmts)
        for i, st in enumerate(stmts):
            if isinstance(st, ast.If) and i + 1 < len(stmts) and self.ev.decide(st.test) is None:
                # early exit: `if c: ...; return` followed by the rest  ==  `if c: ... return  else: <the rest>` (and the mirrored form),
                # so that an arm written as an early return is compared with its sibling like any other arm
                new = None
                if not st.orelse and _always_exits(st.body):
                    new = ast.If(test=st.test, body=st.body, orelse=stmts[i + 1:])
                elif st.orelse and _always_exits(st.orelse) and not _always_exits(st.body):
                    new = ast.If(test=st.test, body=list(st.body) + stmts[i + 1:], orelse=st.orelse)
                if new is not None:
                    ast.copy_location(new, st)
                    return self.stmt(new)
            r = self.stmt(st)
            if r is not None:
                return r
        return None

    def sub_items(self, stmts):
        """run a statement list collecting its items separately: -> (items, exit status, offsets at its end)"""
        fr = self.frame
        keep_items, keep_off, keep_nopq = fr.items, dict(fr.off), fr.nopq
        fr.items = []
        try:
            status = self.run(stmts)
            return fr.items, status, dict(fr.off)
        finally:
            fr.items, fr.off, fr.nopq = keep_items, keep_off, max(keep_nopq, fr.nopq)

    def stmt(self, st):
        ev = self.ev
        if isinstance(st, ast.Expr):
            if isinstance(st.value, ast.Constant):
                return None
            ev.ev(st.value)
            return None
        if isinstance(st, ast.Assign):
            v = ev.ev(st.value)
            for t in st.targets:
                self.assign(t, v, st)
            return None
        if isinstance(st, ast.AnnAssign):
            if st.value is not None:
                self.assign(st.target, ev.ev(st.value), st)
            return None
        if isinstance(st, ast.AugAssign):
            ev.stmt(st)
            return None
        if isinstance(st, ast.If):
            return self._if(st)
        if isinstance(st, ast.While):
            return self._while(st)
        if isinstance(st, ast.For):
            return self._for(st)
        if isinstance(st, ast.With):
            for it in st.items:
                v = ev.ev(it.context_expr)
                if it.optional_vars is not None:
                    self.assign(it.optional_vars, v, st)
            return self.run(st.body)
        if isinstance(st, ast.Try):
            r = self.run(st.body)
            for h in st.handlers:
                items, _s, _o = self.sub_items(h.body)
                if tidy(items):
                    raise Stuck(f"file consumption inside an exception handler (line {st.lineno})")
            if r is None:
                r = self.run(st.orelse)
            r2 = self.run(st.finalbody)
            return r2 if r2 is not None else r
        if isinstance(st, ast.Return):
            v = ev.ev(st.value) if st.value is not None else F.sym("None")
            self._ret_stack[-1].append((v, self.guard, st))
            if self.depth == 0:
                self.events.append(("return", v, self.guard, st))
                self.frame.items.append(("exit", "return"))
            return "return"
        if isinstance(st, ast.Raise):
            self.frame.items.append(("exit", "raise"))
            return "raise"
        if isinstance(st, ast.Break):
            self.frame.items.append(("exit", "break"))
            if self._breaks:
                self._breaks[-1].append(dict(self.ev.env))
            return "break"
        if isinstance(st, ast.Continue):
            self.frame.items.append(("exit", "continue"))
            return "continue"
        if isinstance(st, (ast.Pass, ast.Assert, ast.Import, ast.ImportFrom, ast.Global, ast.Nonlocal, ast.Delete, ast.FunctionDef, ast.ClassDef)):
            return None
        raise Stuck(f"statement {type(st).__name__} at line {st.lineno}")

    def assign(self, target, v, st):
        ev = self.ev
        if isinstance(target, (ast.Tuple, ast.List)) and not isinstance(v, tuple) and not is_unknown(v) and v is not None:
            p = fn_parts(v)
            if p is not None and p[0] == "dec" and not any(isinstance(t, ast.Starred) for t in target.elts):
                self.events.append(("decunpack", v, len(target.elts), st))
            for i, t in enumerate(target.elts):
                if isinstance(t, ast.Starred):
                    self.assign(t.value, Unknown("starred target"), st)
                else:
                    self.assign(t, F.fn("idx", need(v), F.const(i)), st)
            return
        if isinstance(target, (ast.Tuple, ast.List)) and isinstance(v, tuple) and len(v) == len(target.elts):
            for t, x in zip(target.elts, v):
                self.assign(t, x, st)
            return
        ev._assign(target, v, st)

    # ---- if
    def _if(self, st):
        ev = self.ev
        c = ev.decide(st.test)
        if c is True:
            return self.run(st.body)
        if c is False:
            return self.run(st.orelse)
        cv = ev.ev(st.test)
        if isinstance(cv, tuple):
            cv = Unknown("test on a tuple")
        t = truth_of(cv)
        if t is not None:
            return self.run(st.body if t else st.orelse)
        env0 = dict(ev.env)
        e0 = len(self.events)
        g0 = self.guard
        self.guard = g0 + ((cv, True),)
        itA, stA, offA = self.sub_items(st.body)
        envA = ev.env
        e1 = len(self.events)
        ev.env = dict(env0)
        self.guard = g0 + ((cv, False),)
        itB, stB, offB = self.sub_items(st.orelse)
        envB = ev.env
        e2 = len(self.events)
        self.guard = g0
        fr = self.frame
        # ---- consumption
        tA, tB = tidy(itA), tidy(itB)
        merged = None
        if same_items(tA, tB):
            merged = itA
        else:
            merged = self._cutover(st, cv, tA, tB, self.events[e0:e1], self.events[e1:e2])
        if merged is not None:
            fr.items.extend(merged)
            for it in tidy(merged):
                if it[0] in ("B", "L"):
                    fr.off[it[0]] = fr.off[it[0]] + it[1]
                elif it[0] in ("loop", "if", "abs"):
                    fr.opaque()
        else:
            if is_unknown(cv):
                raise Stuck(f"branches that consume differently under a test that cannot be lowered ({cv.why}) at line {st.lineno}")
            fr.items.append(("if", need(cv), itA, itB))
            if stA is None and stB is None:
                fr.opaque()
            elif stA is None:
                self._advance(fr, tA)
            elif stB is None:
                self._advance(fr, tB)
        # ---- state
        if stA is not None and stB is not None:
            ev.env = envA
            return stA if stA == stB else "mixed"
        if stA is not None:
            ev.env = envB
            self.guard = g0 + ((cv, False),)
            return None
        if stB is not None:
            ev.env = envA
            self.guard = g0 + ((cv, True),)
            return None
        out = {}
        for k in set(envA) | set(envB):
            a, b = envA.get(k), envB.get(k)
            if a is b:
                out[k] = a
            else:
                out[k] = phi(cv, a, b)
        ev.env = out
        return None

    def _advance(self, fr, titems):
        for it in titems:
            if it[0] in ("B", "L"):
                fr.off[it[0]] = fr.off[it[0]] + it[1]
            elif it[0] in ("loop", "if", "abs"):
                fr.opaque()

    def _cutover(self, st, cv, tA, tB, evA, evB):
        """`if n < cutoff: struct.unpack(fmt % n, f.read(nbytes)) else: np.fromfile(f, dtype, n)`: merged under the recorded assumption
        itemsize(dtype) == nbytes / n"""
        def kind(evs):
            ff = [e for e in evs if e[0] == "fromfile"]
            un = [e for e in evs if e[0] == "unpack"]
            rd = [e for e in evs if e[0] == "read"]
            if len(ff) == 1 and not un and not rd:
                return "ff"
            if len(un) == 1 and len(rd) == 1 and not ff:
                return "un"
            return None
        kA, kB = kind(evA), kind(evB)
        if {kA, kB} != {"ff", "un"}:
            return None
        (sA, sE), (fA, fE) = ((tA, evA), (tB, evB)) if kA == "un" else ((tB, evB), (tA, evA))
        if len(sA) != 1 or len(fA) != 1 or sA[0][0] != "B" or fA[0][0] != "B":
            return None
        ff = [e for e in fE if e[0] == "fromfile"][0]
        un = [e for e in sE if e[0] == "unpack"][0]
        rd = [e for e in sE if e[0] == "read"][0]
        self.cutovers.append({"node": st, "test": cv, "frame": self.frame.id, "dtype": ff[1], "count_ff": ff[2], "nbytes": rd[2], "fmt": un[1], "data": un[2],
                              "read": rd[1], "unpack_node": un[3], "fromfile_node": ff[3], "struct_first": kA == "un", "depth": self.depth,
                              "function": self.stack[-1].name})
        return [("B", rd[2])]

    # ---- loops
    def _placeholders(self, st, frame_id):
        ev = self.ev
        names = []
        for n in ast.walk(st):
            tg = []
            if isinstance(n, ast.Assign):
                tg = n.targets
            elif isinstance(n, (ast.AugAssign, ast.AnnAssign)):
                tg = [n.target]
            elif isinstance(n, ast.For):
                tg = [n.target]
            elif isinstance(n, ast.With):
                tg = [i.optional_vars for i in n.items if i.optional_vars is not None]
            elif isinstance(n, ast.NamedExpr):
                tg = [n.target]
            for t in tg:
                for x in ast.walk(t):
                    nm = None
                    if isinstance(x, ast.Name) and isinstance(x.ctx, ast.Store):
                        nm = x.id
                    elif isinstance(x, ast.Attribute) and isinstance(x.ctx, ast.Store):
                        nm = dotted(x)
                    if nm and nm not in names and nm not in ev.buffers:
                        names.append(nm)
        ph = {}
        seen = {}
        for nm in names:
            e = ev.env.get(nm)
            if e is None or is_unknown(e):
                ph[nm] = Unknown(f"`{nm}` is not bound when the loop at line {st.lineno} is entered") if e is None else e
                continue
            if isinstance(e, tuple):
                try:
                    e = F.fn("tuple", *[need(x) for x in e])
                except Unsupported as ex:
                    ph[nm] = Unknown(str(ex))
                    continue
            k = repr(e)
            seen[k] = seen.get(k, 0) + 1
            ph[nm] = F.fn("lv", frame_id, e) if seen[k] == 1 else F.fn("lv", frame_id, e, F.const(seen[k]))
        return ph

    def _while(self, st):
        ev = self.ev
        parent = self.frame
        parent.nloops += 1
        fid = F.fn("frame", parent.id, F.const(parent.nloops))
        ph = self._placeholders(st, fid)
        entry = {nm: ev.env.get(nm) for nm in ph}
        for nm, p in ph.items():
            ev.env[nm] = p
        always = isinstance(st.test, ast.Constant) and bool(st.test.value) is True
        test = ONE if always else ev.ev(st.test)
        if isinstance(test, tuple):
            test = Unknown("test on a tuple")
        fr = _Frame(fid)
        self.frames.append(fr)
        g0 = self.guard
        self.guard = g0 + ((test, True),) if not always else g0
        self._breaks.append([])
        try:
            status = self.run(st.body)
        finally:
            self.frames.pop()
            self.guard = g0
            breaks = self._breaks.pop()
        carry = [(p, ev.env.get(nm)) for nm, p in ph.items() if not is_unknown(p)]
        lp = Loop("while", test, fr.items, carry, fid, st, entry, g0, ph)
        lp.exits = status
        if is_unknown(test):
            raise Stuck(f"loop condition at line {st.lineno} cannot be lowered ({test.why})")
        parent.items.append(("loop", lp))
        parent.opaque()
        if always and len(breaks) == 1:
            # `while 1: ... break`: the loop is left at its only break, with the values the locals have there
            for nm in ph:
                v = breaks[0].get(nm)
                ev.env[nm] = v if v is not None else Unknown(f"`{nm}` is not bound at the break of the loop at line {st.lineno}")
        else:
            for nm, p in ph.items():
                ev.env[nm] = F.fn("fin", p) if not is_unknown(p) else F.fn("fin", fid, F.sym(nm))
        if st.orelse:
            self.run(st.orelse)
        return None

    def _trip_count(self, it_node):
        """number of iterations of `for _ in <it_node>` when it does not depend on the file: it.repeat(x, n) / range(n)"""
        if isinstance(it_node, ast.Call):
            d = dotted(it_node.func) or ""
            if d.split(".")[-1] == "repeat" and len(it_node.args) == 2:
                return self.ev.ev(it_node.args[1])
            if d == "range" and len(it_node.args) == 1:
                return self.ev.ev(it_node.args[0])
        return None

    def _for(self, st):
        ev = self.ev
        parent = self.frame
        n = self._trip_count(st.iter)
        itv = None
        if n is None:
            itv = ev.ev(st.iter)
            if isinstance(itv, tuple):
                try:
                    itv = F.fn("tuple", *[need(x) for x in itv])
                except Unsupported as e:
                    itv = Unknown(str(e))
        parent.nloops += 1
        fid = F.fn("frame", parent.id, F.const(parent.nloops))
        ph = self._placeholders(st, fid)
        entry = {nm: ev.env.get(nm) for nm in ph}
        for nm, p in ph.items():
            ev.env[nm] = p
        tnames = [x.id for x in ast.walk(st.target) if isinstance(x, ast.Name)]
        for i, nm in enumerate(tnames):
            ev.env[nm] = F.fn("item", fid, F.const(i)) if (n is not None or not is_unknown(itv)) else itv
        fr = _Frame(fid)
        self.frames.append(fr)
        try:
            status = self.run(st.body)
        finally:
            self.frames.pop()
        body = tidy(fr.items)
        carry = [(p, ev.env.get(nm)) for nm, p in ph.items() if not is_unknown(p) and nm not in tnames]
        plain = all(it[0] in ("B", "L") for it in body) and status is None
        indep = plain and not any(d[0] == "fn" and d[1] in ("lv", "item", "rd", "ln") and d[2] and _arg(d[2][0]).equals(fid)
                                  for it in body for d in walk_atoms(it[1]))
        if n is not None and not is_unknown(n) and indep:
            for it in body:
                parent.items.append((it[0], it[1] * need(n)))
                parent.off[it[0]] = parent.off[it[0]] + it[1] * need(n)
        elif not body and status is None:
            pass                      # a loop that does not touch the file
        else:
            test = F.fn("count", need(n)) if n is not None and not is_unknown(n) else itv
            if test is None or is_unknown(test):
                raise Stuck(f"`for` at line {st.lineno} consumes from the file over an iterable that cannot be lowered")
            lp = Loop("for", test, fr.items, carry, fid, st, entry, self.guard, ph)
            lp.exits = status
            parent.items.append(("loop", lp))
            parent.opaque()
        for nm, p in ph.items():
            ev.env[nm] = F.fn("fin", p) if not is_unknown(p) else F.fn("fin", fid, F.sym(nm))
        if st.orelse:
            self.run(st.orelse)
        return None

    # ------------------------------------------------------------------ calls
    def _args(self, node, ev):
        pos = []
        for a in node.args:
            if isinstance(a, ast.Starred):
                pos.append(Unknown("starred argument"))
            else:
                pos.append(ev.ev(a))
        kws = {}
        for k in node.keywords:
            if k.arg is not None:
                kws[k.arg] = ev.ev(k.value)
        return pos, kws

    def call(self, node, ev):
        func = node.func
        name = dotted(func)
        recv = None
        if isinstance(func, ast.Attribute):
            # the receiver is evaluated once (it may itself be a call that reads)
            recv = ev.ev(func.value)
        # ---- file methods
        if recv is not None and self.is_file(recv):
            m = func.attr
            pos, kws = self._args(node, ev)
            if m == "read":
                if len(pos) != 1:
                    raise Stuck(f"read() of the whole file at line {node.lineno}")
                return self.do_read(pos[0], node)
            if m == "seek":
                whence = pos[1] if len(pos) > 1 else kws.get("whence", ZERO)
                if not is_unknown(whence) and not isinstance(whence, tuple) and whence.equals(ONE):
                    self.emit("B", pos[0], node)
                    self.events.append(("seek", pos[0], node))
                    return F.sym("None")
                if is_unknown(pos[0]) or isinstance(pos[0], tuple):
                    raise Stuck(f"absolute seek to an unknown position at line {node.lineno}")
                self.frame.items.append(("abs", need(pos[0])))
                self.frame.opaque()
                self.events.append(("abs", pos[0], self.guard, node))
                return F.sym("None")
            if m == "readline":
                fr = self.frame
                at = F.fn("ln", fr.id, fr.off["L"])
                self.emit("L", ONE, node)
                self.events.append(("line", at, node))
                return at
            if m == "tell":
                fr = self.frame
                return F.fn("tell", fr.id, fr.off["B"], fr.off["L"])
            if m in ("close", "flush"):
                return F.sym("None")
            raise Stuck(f"file method {m} at line {node.lineno}")
        # ---- np.fromfile
        if name in ("np.fromfile", "numpy.fromfile"):
            pos, kws = self._args(node, ev)
            a = dict(zip(("file", "dtype", "count", "sep", "offset"), pos))
            a.update(kws)
            if not self.is_file(a.get("file")):
                raise Stuck(f"np.fromfile from something that is not the file being read (line {node.lineno})")
            dt, cnt = a.get("dtype"), a.get("count")
            if dt is None or cnt is None or is_unknown(dt) or is_unknown(cnt) or isinstance(dt, tuple) or isinstance(cnt, tuple):
                raise Stuck(f"np.fromfile without a dtype and a count that can be lowered (line {node.lineno})")
            fr = self.frame
            at = F.fn("rd", fr.id, fr.off["B"], F.fn("itemsize", dt) * cnt)
            self.emit("B", F.fn("itemsize", dt) * cnt, node)
            self.events.append(("fromfile", dt, cnt, node, at))
            return F.fn("arr", at, dt)
        # ---- islice(file, n): n lines
        if name is not None and name.split(".")[-1] == "islice" and node.args:
            pos, kws = self._args(node, ev)
            if self.is_file(pos[0]):
                if len(pos) != 2:
                    raise Stuck(f"islice over the file with start/step (line {node.lineno})")
                fr = self.frame
                at = F.fn("lns", fr.id, fr.off["L"], need(pos[1]))
                self.emit("L", pos[1], node)
                self.events.append(("lines", at, pos[1], node))
                return at
            return self._opaque(name, recv, pos, kws, node)
        # ---- struct decoding
        is_unpack = False
        structobj = None
        if isinstance(func, ast.Attribute) and func.attr in ("unpack", "unpack_from"):
            is_unpack = True
            structobj = recv
        elif isinstance(func, ast.Name):
            v = ev.env.get(func.id)
            sn = sym_name(v) if v is not None else None
            if sn is not None and sn.endswith(".unpack"):
                is_unpack = True
                structobj = F.sym(sn[: -len(".unpack")])
            elif v is not None and not is_unknown(v) and not isinstance(v, tuple):
                p = fn_parts(v)
                if p is not None and p[0] == "attr:unpack":
                    is_unpack = True
                    structobj = p[1][0]
        if is_unpack:
            pos, kws = self._args(node, ev)
            if name in ("struct.unpack", "struct.unpack_from"):
                if len(pos) < 2:
                    raise Stuck(f"struct.unpack call at line {node.lineno}")
                fmt, data = pos[0], pos[1]
            else:
                if len(pos) < 1:
                    raise Stuck(f"unpack call at line {node.lineno}")
                fmt, data = F.fn("structof", need(structobj)) if structobj is not None and not is_unknown(structobj) else Unknown("struct object"), pos[0]
            if is_unknown(data) or isinstance(data, tuple):
                return data if is_unknown(data) else Unknown("unpack of a tuple")
            self.events.append(("unpack", fmt, data, node))
            return F.fn("dec", need(data))
        # ---- functions of the same class / module that are followed
        target = None
        if id(node) in self.indirect:
            target = self.indirect[id(node)]
        elif isinstance(func, ast.Name) and func.id in self.indirect:
            target = self.indirect[func.id]
        elif self.follow and name in self.table and name not in self.no_inline:
            f2 = self.table[name]
            if name in self.extra_inline or f2 in self.effects or _is_getter(f2):
                target = f2
        if target is not None:
            if id(node) in self.indirect and isinstance(func, ast.Name):
                self.events.append(("dispatch", ev.env.get(func.id), node))
            return self.inline(target, node, ev, name)
        pos, kws = self._args(node, ev)
        callee = ev.env.get(func.id) if isinstance(func, ast.Name) else None
        val = self._opaque(name, recv, pos, kws, node)
        self.events.append(("call", name if name is not None else ("." + func.attr if isinstance(func, ast.Attribute) else None), pos, kws,
                            self.guard, node, callee, self.frame.id, val))
        return val

    def _opaque(self, name, recv, pos, kws, node):
        func = node.func
        if name in ("abs", "np.abs", "np.absolute") and len(pos) == 1 and not is_unknown(pos[0]) and not isinstance(pos[0], tuple):
            return F.fn("abs", pos[0])
        if name == "int" and len(pos) == 1 and not kws and not is_unknown(pos[0]) and not isinstance(pos[0], tuple):
            p = fn_parts(pos[0])
            if p is not None and p[0] == "truediv":
                return floordiv(p[1][0], p[1][1])
        args = []
        if name is None:
            if isinstance(func, ast.Attribute):
                if recv is None or is_unknown(recv) or isinstance(recv, tuple):
                    return recv if is_unknown(recv) else Unknown(f"call {ast.unparse(func)}")
                args.append(need(recv))
                name = "." + func.attr
            else:
                return Unknown(f"call {ast.unparse(func)}")
        elif isinstance(func, ast.Attribute) and recv is not None and not is_unknown(recv) and not isinstance(recv, tuple) \
                and sym_name(recv) != dotted(func.value):
            # a method of a local that holds a value: name the call by the method and the *value* of the receiver
            args.append(need(recv))
            name = "." + func.attr
        for v in pos:
            if is_unknown(v):
                return v
            if isinstance(v, tuple):
                if any(is_unknown(x) or isinstance(x, tuple) for x in v):
                    return Unknown("nested tuple argument")
                v = F.fn("tuple", *[need(x) for x in v])
            args.append(need(v))
        for k, v in kws.items():
            if is_unknown(v) or isinstance(v, tuple):
                return Unknown(f"keyword {k}")
            args.append(F.fn("kw:" + k, need(v)))
        return F.fn("call:" + name, *args)

    def do_read(self, n, node):
        if is_unknown(n) or isinstance(n, tuple):
            raise Stuck(f"read of a size that cannot be lowered at line {node.lineno}" + (f" ({n.why})" if is_unknown(n) else ""))
        fr = self.frame
        at = F.fn("rd", fr.id, fr.off["B"], need(n))
        self.emit("B", n, node)
        self.events.append(("read", at, need(n), node))
        return at

    def inline(self, fn2, node, ev, name):
        if self.depth >= 6 or fn2 in self.stack:
            raise Stuck(f"call chain too deep / recursive at {name} (line {node.lineno})")
        a = fn2.args
        params = [x.arg for x in a.posonlyargs + a.args]
        if params and params[0] in ("self", "cls") and not any(isinstance(d, ast.Name) and d.id == "staticmethod" for d in fn2.decorator_list):
            params = params[1:]
        pos, kws = self._args(node, ev)
        if a.vararg or a.kwarg or len(pos) > len(params):
            raise Stuck(f"call of {name} with a signature that cannot be bound (line {node.lineno})")
        env = dict(zip(params, pos))
        env.update({k: v for k, v in kws.items() if k in params})
        dflt = dict(zip(params[::-1], (a.defaults or [])[::-1]))
        for p_ in params:
            if p_ not in env:
                if p_ not in dflt:
                    raise Stuck(f"call of {name}: parameter {p_} not bound (line {node.lineno})")
                env[p_] = ev.ev(dflt[p_])
        # attributes of self assigned by the caller so far stay visible to the callee
        for k, v in ev.env.items():
            if k.startswith("self.") and k not in env:
                env[k] = v
        self.bound[id(fn2)] = dict(env)
        span_frame, span_n0 = self.frame, self.frame.nloops
        sub = self._new_ev(fn2, env)
        keep = self.ev
        rets = []
        self._ret_stack.append(rets)
        self.ev = sub
        self.depth += 1
        self.stack.append(fn2)
        g0 = self.guard
        try:
            self.run(fn2.body)
        finally:
            self.ev = keep
            self.depth -= 1
            self.stack.pop()
            self._ret_stack.pop()
            self.guard = g0
        for k, v in sub.env.items():
            if k.startswith("self."):
                keep.env[k] = v
        self._cells.extend(sub.cells)
        self.spans[id(fn2)] = (span_frame.id, span_n0, span_frame.nloops)
        if not rets:
            return F.sym("None")
        # several returns: the value is selected by the guards under which they are reached
        val = rets[-1][0]
        for v, g, _st in reversed(rets[:-1]):
            extra = g[len(g0):]
            if len(extra) != 1:
                if same(v, val):
                    continue
                return Unknown(f"returns of {name} under nested conditions")
            c, pol = extra[0]
            val = phi(c, v, val) if pol else phi(c, val, v)
        return val


def _method_table(ctx, rel, cls):
    m = ctx.src.mod(rel)
    out = {}
    for q, f in m.funcs.items():
        if "#" in q:
            continue
        if "." not in q:
            out[q] = f
        elif cls and q.startswith(cls + ".") and q.count(".") == 1:
            nm = q.split(".", 1)[1]
            out["self." + nm] = f
            out[cls + "." + nm] = f
    return out


_FILE_METHODS = {"read", "seek", "readline", "readlines"}


def _file_effects(table):
    """functions of the table that touch a file, directly or through other functions of the table"""
    direct = set()
    callees = {}
    for nm, f in table.items():
        cs = set()
        for n in ast.walk(f):
            if isinstance(n, ast.Call):
                d = dotted(n.func)
                if isinstance(n.func, ast.Attribute) and n.func.attr in _FILE_METHODS:
                    direct.add(f)
                elif d in ("np.fromfile", "numpy.fromfile") or (d or "").split(".")[-1] == "islice":
                    direct.add(f)
                elif d in table:
                    cs.add(table[d])
        callees[f] = cs
    eff = set(direct)
    n = -1
    while n != len(eff):
        n = len(eff)
        for f, cs in callees.items():
            if f not in eff and cs & eff:
                eff.add(f)
    return eff


def _always_exits(stmts):
    if not stmts:
        return False
    last = stmts[-1]
    if isinstance(last, (ast.Return, ast.Raise, ast.Break, ast.Continue)):
        return True
    if isinstance(last, ast.If):
        return bool(last.orelse) and _always_exits(last.body) and _always_exits(last.orelse)
    return False


def _is_getter(f):
    body = [s for s in f.body if not (isinstance(s, ast.Expr) and isinstance(s.value, ast.Constant))]
    return len(body) == 1 and isinstance(body[0], ast.Return)


# ------------------------------------------------------------------------------------------------------------------ boolean guards
def bool_form(v):
    """truth value of a formula as a boolean structure over atoms: ('and'|'or', [..]) | ('not', x) | ('atom', key, value) | ('const', b)"""
    v = canon_tests(v)
    return _bool(v)


def _bool(v):
    if v.is_const():
        return ("const", v.const_value() != 0)
    p = fn_parts(v)
    if p is not None:
        nm, args = p
        if nm == "bool:And":
            return ("and", [_bool(a) for a in args])
        if nm == "bool:Or":
            return ("or", [_bool(a) for a in args])
        if nm == "not":
            return ("not", _bool(args[0]))
        if nm == "phi":
            c, a, b = args
            ta, tb = _truth(a), _truth(b)
            if ta is True and tb is False:
                return _bool(c)
            if ta is False and tb is True:
                return ("not", _bool(c))
            return ("or", [("and", [_bool(c), _bool(a)]), ("and", [("not", _bool(c)), _bool(b)])])
        if nm == "call:bool" and len(args) == 1 and not isinstance(args[0], str):
            return _bool(args[0])
    if sym_name(v) in ("True", "False"):
        return ("const", sym_name(v) == "True")
    return ("atom", repr(v), v)


def _truth(v):
    if v.is_const():
        return v.const_value() != 0
    if sym_name(v) in ("True", "False"):
        return sym_name(v) == "True"
    return None


def guard_form(guard):
    parts = []
    for c, pol in guard:
        if is_unknown(c):
            raise Unsupported(f"guard that cannot be lowered: {c.why}")
        b = bool_form(c)
        parts.append(b if pol else ("not", b))
    return ("and", parts)


def bool_atoms(f, out=None):
    out = {} if out is None else out
    if f[0] == "atom":
        out[f[1]] = f[2]
    elif f[0] in ("and", "or"):
        for x in f[1]:
            bool_atoms(x, out)
    elif f[0] == "not":
        bool_atoms(f[1], out)
    return out


def bool_eval(f, asg):
    if f[0] == "const":
        return f[1]
    if f[0] == "atom":
        return asg[f[1]]
    if f[0] == "not":
        return not bool_eval(f[1], asg)
    if f[0] == "and":
        return all(bool_eval(x, asg) for x in f[1])
    return any(bool_eval(x, asg) for x in f[1])


def assignments(keys):
    keys = sorted(keys)
    if len(keys) > 14:
        raise Unsupported("too many atoms in a guard")
    for bits in itertools.product((False, True), repeat=len(keys)):
        yield dict(zip(keys, bits))


def bool_equiv(f, g):
    keys = set(bool_atoms(f)) | set(bool_atoms(g))
    return all(bool_eval(f, a) == bool_eval(g, a) for a in assignments(keys))
