"""C11 -- consumption evaluator: file-position bookkeeping of a reading function, decided on values.

`Walker` walks the statements of a function with the symbolic evaluator (AutoEvaluator) and records, per loop body and per branch, what
the function *consumes* from the file it reads:

    f.read(n)                     n bytes                 (the value read is the atom  rd(frame, offset, n))
    f.seek(n, 1)                  n bytes
    np.fromfile(f, dtype, n)      n * itemsize(dtype) bytes
    f.readline()                  1 line                  (the value read is the atom  ln(frame, line offset))
    it.islice(f, n)               n lines
    for _ in it.repeat(None, n) / range(n): <body>        n * (consumption of the body)
    self._getkey(), self._skipkey(k), self.rdop2eot(), self._get_ascii_block(...) ...
                                  whatever their bodies consume: functions of the same class that touch the file (transitively) and
                                  one-line getters are *followed*, so extracting or inlining a helper changes nothing.

The result is a tree of items

    ("B", bytes) | ("L", lines) | ("loop", Loop) | ("if", test value, items, items) | ("exit", kind) | ("abs", position)

Values read from the file are named by *where* they were read (frame = loop nesting path, offset = bytes/lines consumed in that frame so
far), not by the local they were stored in; loop-carried locals are named by the value they enter the loop with.  A reader and a skipper
that consume the same bytes and loop on the same decoded words therefore produce *equal trees* whatever their temporaries, local names,
branch layout or helper structure are.

Two arms of an `if` that consume the same are merged.  At a struct/fromfile cut-over the two arms consume `nbytes` and
`count * itemsize(dtype)`: the walker merges them *assuming* itemsize(dtype) == nbytes / count and records that equation in
`Walker.cutovers`; rule C11-R1 discharges every recorded equation for every format binding and key width.

Nothing of pyyeti is imported or executed: all of this is a walk over the ast with formulas as values."""
from __future__ import annotations

import ast
import itertools

from . import e2_formula as F
from . import op4_model as M
from . import c11_conc as K
from .core import Unsupported
from .e1_srcmodel import dotted
from .e2_eval import AutoEvaluator, DictValue, Unknown, is_unknown, need

FILE = F.sym("self._fileh")
ZERO = F.const(0)
ONE = F.const(1)


# ------------------------------------------------------------------------------------------------------------------ formula helpers
def atoms_of(r):
    """atom ids occurring at the top level of a formula (numerator and denominator)"""
    out = set()
    for p in (r.n, r.d):
        for m in p.t:
            for a, _e in m:
                out.add(a)
    return out


def as_atom(r):
    """formula that is exactly one atom -> its description tuple, else None"""
    if r is None or is_unknown(r) or isinstance(r, tuple):
        return None
    if not r.d.is_const() or r.d.const_value() != 1 or len(r.n.t) != 1:
        return None
    (m, c), = r.n.t.items()
    if c != 1 or len(m) != 1 or m[0][1] != 1:
        return None
    return F.atom_desc(m[0][0])


def fn_parts(r):
    """formula that is one opaque application -> (name, [args as Rat or str]) else None"""
    d = as_atom(r)
    if d is None or d[0] != "fn":
        return None
    return d[1], [_arg(k) for k in d[2]]


def _arg(k):
    if isinstance(k, str):
        return k
    return F.Rat(F._poly_from_key(k[1]), F._poly_from_key(k[2]))


def sym_name(r):
    d = as_atom(r)
    return d[1] if d is not None and d[0] == "s" else None


def rewrite(r, pre=None, post=None, memo=None):
    """rebuild a formula bottom-up.  pre(desc) -> Rat | None  is asked before the arguments of an atom are rebuilt (a result short-cuts);
    post(name, args) -> Rat | None  after.  Symbols go through pre only.  `memo` (atom -> result) may be kept between calls by a caller
    whose pre / post are pure functions of the atom."""
    memo = {} if memo is None else memo

    def poly(p):
        res = F.const(0)
        for m, c in p.t.items():
            term = F.const(c)
            for a, e in m:
                term = term * (atom(a) ** e)
            res = res + term
        return res

    def atom(a):
        if a in memo:
            return memo[a]
        d = F.atom_desc(a)
        out = None
        if pre is not None:
            out = pre(d)
        if out is None:
            if d[0] == "fn":
                args = [k if isinstance(k, str) else poly(F._poly_from_key(k[1])) / poly(F._poly_from_key(k[2])) for k in d[2]]
                if post is not None:
                    out = post(d[1], args)
                if out is None:
                    out = F.fn(d[1], *args)
            else:
                out = F.Rat(F.Poly.atom(a))
        memo[a] = out
        return out

    if isinstance(r, tuple):
        return tuple(rewrite(x, pre, post, memo) for x in r)
    if r is None or is_unknown(r):
        return r
    return poly(r.n) / poly(r.d)


def walk_atoms(r, seen=None):
    """every atom description occurring anywhere inside a formula (arguments of applications included)"""
    seen = set() if seen is None else seen
    out = []

    def poly(p):
        for m in p.t:
            for a, _e in m:
                if a in seen:
                    continue
                seen.add(a)
                d = F.atom_desc(a)
                out.append(d)
                if d[0] == "fn":
                    for k in d[2]:
                        if not isinstance(k, str):
                            poly(F._poly_from_key(k[1]))
                            poly(F._poly_from_key(k[2]))

    if isinstance(r, tuple):
        for x in r:
            out.extend(walk_atoms(x, seen))
        return out
    if r is None or is_unknown(r):
        return out
    poly(r.n)
    poly(r.d)
    return out


def floordiv(a, b):
    """a // b on integer-valued polynomials: the terms of `a` that are multiples of `b` are divided exactly,
    (q*b + rem) // b = q + rem // b ; so (L + p - 1) // p and (L - 1) // p + 1 have the same normal form"""
    a, b = need(a), need(b)
    if b.is_zero():
        raise Unsupported("floor division by zero")
    if not a.d.is_const() or not b.d.is_const():
        return F.fn("floordiv", a, b)
    if not a.is_const() and all(c < 0 for k, c in a.n.scale(1 / a.d.const_value()).t.items() if k != ()) and not (b.is_const() and b.const_value() < 0):
        # floor(-x / b) = -ceil(x / b) = -((x + b - 1) // b)   (b > 0: a count per line / per value / per word): -(-n // p) is (n + p - 1) // p
        return -floordiv(-a + b - 1, b)
    bn = b.n.scale(1 / b.d.const_value())
    an = a.n.scale(1 / a.d.const_value())
    if len(bn.t) != 1:
        return F.fn("floordiv", a, b)
    (bm, bc), = bn.t.items()
    q, rem = F.Poly(), F.Poly()
    bdict = dict(bm)
    for m, c in an.t.items():
        md = dict(m)
        if all(md.get(x, 0) >= e for x, e in bdict.items()) and (c / bc).denominator == 1:
            for x, e in bdict.items():
                md[x] -= e
                if not md[x]:
                    del md[x]
            q = q + F.Poly({tuple(sorted(md.items())): c / bc})
        else:
            rem = rem + F.Poly({m: c})
    if rem.is_zero():
        return F.Rat(q)
    return F.Rat(q) + F.fn("floordiv", F.Rat(rem), b)


def refloor(r):
    """floor divisions re-evaluated after a substitution made their operands more definite (x // 1 is x, 12 // 4 is 3)"""
    def post(name, args):
        if name == "floordiv" and len(args) == 2 and not isinstance(args[0], str) and not isinstance(args[1], str) and not args[1].is_zero():
            return floordiv(args[0], args[1])
        return None
    return rewrite(r, post=post)


def whole(r):
    """the same formula under the format invariant 'records hold whole values': every x // b is x / b"""
    def post(name, args):
        if name == "floordiv" and len(args) == 2 and not isinstance(args[1], str) and not args[1].is_zero():
            return args[0] / args[1]
        return None
    return rewrite(r, post=post, memo=_MEMO_WHOLE)


_MEMO_WHOLE, _MEMO_CT1, _MEMO_CT2, _MEMO_SETTLE, _MEMO_MOD = {}, {}, {}, {}, {}


def canon_tests(r):
    """integer comparisons in one normal form: a < b, a + 1 <= b, b > a, not a >= b ... all become ge0(b - a - 1)"""
    def post(name, args):
        if name.startswith("cmp:") and len(args) == 2:
            a, b = args
            k = name[4:]
            if k == "Lt":
                return F.fn("ge0", b - a - 1)
            if k == "LtE":
                return F.fn("ge0", b - a)
            if k == "Gt":
                return F.fn("ge0", a - b - 1)
            if k == "GtE":
                return F.fn("ge0", a - b)
            if k in ("Eq", "NotEq"):
                d = a - b
                if F._leading_negative(d.n):
                    d = -d
                e = F.fn("eq0", d)
                return e if k == "Eq" else F.fn("not", e)
            if k == "NotIn":
                return F.fn("not", F.fn("cmp:In", a, b))
            if k == "IsNot":
                return F.fn("not", F.fn("cmp:Is", a, b))
        if name == "not" and len(args) == 1:
            p = fn_parts(args[0])
            if p is not None and p[0] == "not":
                return p[1][0]
            if p is not None and p[0] == "ge0":
                return F.fn("ge0", -p[1][0] - 1)
        if name == "phi" and len(args) == 3 and not any(isinstance(a, str) for a in args):
            return _canon_phi(*args)
        return None
    out = rewrite(r, post=post, memo=_MEMO_CT1)
    return rewrite(out, post=_canon_empty, memo=_MEMO_CT2)


def _canon_mod(name, args):
    """x % 2 is the parity of x, x % 65536 its low 16 bits (where the evaluator left the operation undetermined)"""
    if name == "mod" and len(args) == 2 and not isinstance(args[0], str) and not isinstance(args[1], str) and args[1].is_const():
        if args[1].const_value() == 2:
            return F.fn("odd", args[0])
        if args[1].const_value() == 65536:
            return F.fn("lo16", args[0])
    return None


def _canon_empty(name, args):
    """emptiness tests in one form: len(x) == 0, x == "", x == b"" are `not x`; len(x) > 0 is the truth of x, written x"""
    if name == "eq0" and len(args) == 1 and not isinstance(args[0], str):
        d = args[0]
        p = fn_parts(d) or fn_parts(-d)
        if p is not None and p[0] == "call:len" and len(p[1]) == 1 and not isinstance(p[1][0], str):
            return F.fn("not", p[1][0])
        terms = list(d.n.t.items()) if d.d.is_const() else []
        if len(terms) == 2 and terms[0][1] == -terms[1][1] and all(len(m) == 1 and m[0][1] == 1 for m, _c in terms):
            descs = [F.atom_desc(m[0][0]) for m, _c in terms]
            for i in (0, 1):
                if descs[i] in (("s", "''"), ("s", "b''")):
                    return F.fn("not", F.Rat(F.Poly.atom(terms[1 - i][0][0][0])))
    if name == "eq0" and len(args) == 1 and not isinstance(args[0], str):
        # a truth value compared with 0 / 1
        for d_, neg in ((args[0], True), (-args[0], True), (args[0] + 1, False), (1 - args[0], False)):
            if as_atom(d_) is not None and not d_.is_const() and is_truth_value(d_):
                q = fn_parts(d_)
                if neg and q is not None and q[0] == "ge0":
                    return F.fn("ge0", -q[1][0] - 1)
                if neg and q is not None and q[0] == "not":
                    return q[1][0]
                return F.fn("not", d_) if neg else d_
    if name == "ge0" and len(args) == 1 and not isinstance(args[0], str):
        p = fn_parts(args[0] + 1)
        if p is not None and p[0] == "call:len" and len(p[1]) == 1 and not isinstance(p[1][0], str):
            return p[1][0]
    if name == "not" and len(args) == 1 and not isinstance(args[0], str):
        p = fn_parts(args[0])
        if p is not None and p[0] == "not":
            return p[1][0]
    return None


def _canon_phi(c, a, b):
    """selections in one form: the condition of a selection is not negated; -x if x < 0 else x is abs(x)"""
    if is_unknown(a) or is_unknown(b) or is_unknown(c):
        return None
    pc = fn_parts(c)
    if pc is not None and pc[0] == "not" and not isinstance(pc[1][0], str):
        return F.fn("phi", pc[1][0], b, a)
    if pc is not None and pc[0] == "ge0":
        x = pc[1][0]
        # ge0(-v - 1): v < 0          ge0(v): v >= 0        ge0(v - 1): v > 0
        for v, neg in ((-(x + 1), True), (x, False), (x - 1, False)):
            if neg and a.equals(-v) and b.equals(v):
                return F.fn("abs", v)
            if not neg and a.equals(v) and b.equals(-v):
                return F.fn("abs", v)
    return None


def expand_words(r):
    """W = hi16(W) * 65536 + lo16(W) for every word W whose halves occur in the formula"""
    words = []
    for d in walk_atoms(r):
        if d[0] == "fn" and d[1] in ("hi16", "lo16"):
            a = as_atom(_arg(d[2][0]))
            if a is not None and a not in words:
                words.append(a)
    if not words:
        return r

    def pre(d):
        if d[0] == "fn" and d[1] in ("hi16", "lo16"):
            return F.Rat(F.Poly.atom(F._intern(d)))
        if d in words:
            at = F.Rat(F.Poly.atom(F._intern(d)))
            return F.fn("hi16", at) * 65536 + F.fn("lo16", at)
        return None
    return rewrite(r, pre=pre)


_NORM = {}


def norm(r, whole_values=True):
    if r is None or is_unknown(r) or isinstance(r, tuple):
        return r if not isinstance(r, tuple) else tuple(norm(x, whole_values) for x in r)
    k = (r.n.key(), r.d.key(), whole_values)
    out = _NORM.get(k)
    if out is None:
        out = canon_tests(expand_words(rewrite(r, post=_canon_mod, memo=_MEMO_MOD)))
        if whole_values:
            out = whole(out)
        if len(_NORM) > 20000:
            _NORM.clear()
        _NORM[k] = out
    return out


_SAME = {}


def same(a, b, whole_values=True):
    """equality of two values as functions of the bytes read: equal normal forms, or equal normal forms under every resolution of the
    selections (phi) and parities (odd) they contain - so that `2 - (m & 1)` and `1 if m & 1 else 2`, a selection made before or after an
    arithmetic step, or two differently nested selections are the same value"""
    if a is None or b is None or is_unknown(a) or is_unknown(b):
        return False
    if isinstance(a, tuple) or isinstance(b, tuple):
        return isinstance(a, tuple) and isinstance(b, tuple) and len(a) == len(b) and all(same(x, y, whole_values) for x, y in zip(a, b))
    try:
        na, nb = need(norm(a, whole_values)), need(norm(b, whole_values))
        if na.equals(nb):
            return True
        if not (_has_split(na) or _has_split(nb)):
            return False
        k = (na.n.key(), na.d.key(), nb.n.key(), nb.d.key(), whole_values)
        r = _SAME.get(k)
        if r is None:
            if len(_SAME) > 20000:
                _SAME.clear()
            r = True
            for _path, (x, y) in leaves([a, b], limit=10):
                if not need(norm(settle(x), whole_values)).equals(need(norm(settle(y), whole_values))):
                    r = False
                    break
            _SAME[k] = r
        return r
    except Unsupported:
        return False


class _NoValue(Exception):
    pass


def _evaluate(v, asg, rnd, small=False):
    """the number a (normalised) formula denotes when every atom that is not arithmetic the evaluator knows is given an integer: `asg`
    (atom key -> int) is filled on demand from `rnd`"""
    from fractions import Fraction

    def poly(p):
        tot = Fraction(0)
        for m, c in p.t.items():
            term = Fraction(c)
            for a, e in m:
                term *= Fraction(atom(a)) ** e
            tot += term
        return tot

    def rat(r):
        d = poly(r.d)
        if d == 0:
            raise _NoValue()
        return poly(r.n) / d

    def arg(k):
        if isinstance(k, str):
            raise _NoValue()
        return rat(_arg(k))

    def integer(x):
        if x.denominator != 1:
            raise _NoValue()
        return int(x)

    def atom(a):
        d = F.atom_desc(a)
        if d[0] == "fn":
            nm, ks = d[1], d[2]
            if nm == "phi" and len(ks) == 3:
                return arg(ks[1]) if arg(ks[0]) != 0 else arg(ks[2])
            if nm == "ge0" and len(ks) == 1:
                return 1 if arg(ks[0]) >= 0 else 0
            if nm == "eq0" and len(ks) == 1:
                return 1 if arg(ks[0]) == 0 else 0
            if nm == "not" and len(ks) == 1:
                return 0 if arg(ks[0]) != 0 else 1
            if nm == "odd" and len(ks) == 1:
                return integer(arg(ks[0])) & 1
            if nm == "abs" and len(ks) == 1:
                return abs(arg(ks[0]))
            if nm in ("hi16", "lo16") and len(ks) == 1:
                x = integer(arg(ks[0]))
                return (x >> 16) if nm == "hi16" else (x & 0xFFFF)
            if nm in ("floordiv", "mod", "and", "or", "shr") and len(ks) == 2:
                x, y = arg(ks[0]), arg(ks[1])
                if nm == "floordiv":
                    if y == 0:
                        raise _NoValue()
                    return x // y
                x, y = integer(x), integer(y)
                if nm == "mod":
                    if y == 0:
                        raise _NoValue()
                    return x % y
                if nm == "shr" and not 0 <= y <= 64:
                    raise _NoValue()
                return {"and": x & y, "or": x | y, "shr": x >> y if nm == "shr" else 0}[nm]
            if nm in ("bool:And", "bool:Or"):
                vals = [arg(k) != 0 for k in ks]
                return int(all(vals) if nm == "bool:And" else any(vals))
            if nm.startswith("cmp:") and len(ks) == 2 and nm[4:] in ("Lt", "LtE", "Gt", "GtE", "Eq", "NotEq"):
                x, y = arg(ks[0]), arg(ks[1])
                return int({"Lt": x < y, "LtE": x <= y, "Gt": x > y, "GtE": x >= y, "Eq": x == y, "NotEq": x != y}[nm[4:]])
        elif d[0] == "s" and (d[1][:1] in "'\"" or d[1] in ("None", "True", "False")):
            raise _NoValue()            # text / None: not a number
        if a not in asg:
            # a word read from the file, a size, a parameter: some positive integer (words wide enough to have both halves)
            # (a word decoded from the file may also be 0 or negative: end markers, negative row counts)
            wide = d[0] == "fn" and d[1] in ("idx", "call:int", "dec", "lv")
            u = rnd.random()
            if small:
                # a small world: every word between -2 and 6, every size / count between 1 and 4 - where the boundary cases of two tests meet
                asg[a] = rnd.randrange(-2, 7) if wide else rnd.randrange(1, 5)
            else:
                asg[a] = rnd.randrange(-2, 1) if wide and u < 0.25 else (rnd.randrange(1, 1 << 18) if wide and u < 0.6 else rnd.randrange(1, 40))
        return asg[a]
    return rat(v)


def refute(a, b, whole_values=True, trials=60):
    """a witness that two values differ as functions of what they are made of: an assignment of integers to their atoms under which they
    evaluate to different numbers -> {atom text: value} or None (none found: they may be equal in a way the normal form does not show)"""
    import random
    if a is None or b is None or is_unknown(a) or is_unknown(b) or isinstance(a, (tuple, DictValue)) or isinstance(b, (tuple, DictValue)):
        return None
    try:
        na, nb = need(norm(a, whole_values)), need(norm(b, whole_values))
    except Unsupported:
        return None
    rnd = random.Random(20260928)
    for trial in range(trials * 3):
        asg, asg_b = {}, {}
        small = trial >= trials
        try:
            x = _evaluate(na, asg, rnd, small)
            only_a = set(asg)
            asg_b = dict(asg)
            y = _evaluate(nb, asg_b, rnd, small)
        except (_NoValue, ZeroDivisionError, OverflowError, ValueError):
            continue
        # the two sides must speak about the same things: when each is made of something the other does not mention, what links the two
        # (a format invariant, a local carried through a loop in another form) is not known and numbers prove nothing
        excl_b = set(asg_b) - only_a
        excl_a = only_a - {k for k in only_a if _mentions_atom(nb, k)}
        if excl_a and excl_b:
            inner_a, inner_b = set(walk_atoms(na)), set(walk_atoms(nb))
            if not all(_position_named(k, inner_b) for k in excl_a) or not all(_position_named(k, inner_a) for k in excl_b):
                return None
        if x != y:
            return {repr(F.Rat(F.Poly.atom(k)))[:80]: v for k, v in list(asg_b.items())[:6]}
    return None


def _position_named(a, other=frozenset()):
    """an atom that is a word / a line read from the file, named by where it was read, or a decode (by functions the evaluator knows) of such
    data or of a loop-carried value the other side speaks about too: two of them read at different places / cut differently are different
    data - unlike two locals carried through loops in different forms, or the results of calls the evaluator does not follow"""
    based = False
    for d in walk_atoms(F.Rat(F.Poly.atom(a))):
        if d[0] == "fn":
            if d[1] in ("rd", "ln", "lns"):
                based = True
            elif d[1] in ("lv", "fin", "item"):
                if d not in other:
                    return False
                based = True
            elif d[1] in ("each", "comp", "truediv", "fstr") or d[1].startswith("attr:") \
                    or (d[1].startswith("call:") and d[1] not in ("call:int", "call:len", "call:slice", "call:.decode", "call:.strip", "call:.rstrip")):
                return False
    return based


def _mentions_atom(v, a):
    seen = set()

    def poly(p_):
        for m in p_.t:
            for x, _e in m:
                if x == a:
                    return True
                if x in seen:
                    continue
                seen.add(x)
                d = F.atom_desc(x)
                if d[0] == "fn":
                    for k in d[2]:
                        if not isinstance(k, str) and (poly(F._poly_from_key(k[1])) or poly(F._poly_from_key(k[2]))):
                            return True
        return False
    return poly(v.n) or poly(v.d)


def _has_split(v):
    return any(d[0] == "fn" and d[1] in ("phi", "odd") for d in walk_atoms(v))


def phi(c, a, b):
    """value of a local after `if c: <a> else: <b>`"""
    if a is None or b is None:
        return Unknown("bound in one arm of an `if` only")
    if isinstance(a, DictValue) or isinstance(b, DictValue):
        return a if a is b else Unknown("a lookup table bound differently in the two arms of an `if`")
    if isinstance(a, tuple) or isinstance(b, tuple):
        if isinstance(a, tuple) and isinstance(b, tuple) and len(a) == len(b):
            return tuple(phi(c, x, y) for x, y in zip(a, b))
        try:
            a = F.fn("tuple", *[need(x) for x in a]) if isinstance(a, tuple) else a
            b = F.fn("tuple", *[need(x) for x in b]) if isinstance(b, tuple) else b
        except Unsupported:
            return Unknown("tuple in one arm of an `if` only")
    if not is_unknown(c) and not isinstance(c, tuple) and c.is_const():
        return a if c.const_value() != 0 else b
    if not is_unknown(c) and not isinstance(c, (tuple, DictValue)):
        pc = fn_parts(c)
        if pc is not None and pc[0] == "call:bool" and len(pc[1]) == 1 and not isinstance(pc[1][0], str):
            c = pc[1][0]            # (what selects is the truth of the value)
    if is_unknown(a) or is_unknown(b):
        return a if is_unknown(a) else b
    if is_unknown(c):
        return c
    if a.equals(b):
        return a
    return F.fn("phi", c, a, b)


def assume(v, guard):
    """a value on the paths a guard [(condition, taken)] describes: the selections on those conditions are resolved"""
    if v is None or is_unknown(v) or isinstance(v, tuple):
        return v
    for c, pol in guard:
        if c is None or is_unknown(c) or isinstance(c, tuple):
            continue

        def pre(d, c=c, pol=pol):
            if d[0] == "fn" and d[1] == "phi" and same(_arg(d[2][0]), c, whole_values=False):
                return assume(_arg(d[2][1 if pol else 2]), guard)
            return None
        v = rewrite(v, pre=pre)
    return v


def leaves(values, limit=12):
    """every consistent resolution of the selections phi(c, a, b) and parities odd(x) inside a list of formulas
    -> [(assignments [(condition, taken)], [resolved values])]"""
    def first_split(v):
        for d in walk_atoms(v):
            if d[0] == "fn" and d[1] == "phi":
                return _arg(d[2][0])
        for d in walk_atoms(v):
            if d[0] == "fn" and d[1] == "odd":
                return F.Rat(F.Poly.atom(F._intern(d)))
        return None

    def choose(v, c, take):
        ca = as_atom(c)

        def pre(d):
            if d[0] == "fn" and d[1] == "phi" and _arg(d[2][0]).equals(c):
                return choose(_arg(d[2][1 if take else 2]), c, take)
            if ca is not None and d == ca and d[0] == "fn" and d[1] == "odd":
                return F.const(1 if take else 0)
            return None
        return rewrite(v, pre=pre)

    out = []

    def rec(vals, path):
        c = None
        for v in vals:
            if v is None or is_unknown(v):
                continue
            c = first_split(v)
            if c is not None:
                break
        if c is None:
            out.append((path, vals))
            return
        if len(path) > limit:
            raise Unsupported("too many nested selections")
        for take in (True, False):
            # a resolution that contradicts an earlier one (the condition of the earlier one is now decided the other way) is dropped
            new_path, ok = [], True
            for pc, pt in path:
                pc2 = settle(choose(pc, c, take))
                t = truth_of(pc2)
                if t is not None and t != pt:
                    ok = False
                    break
                new_path.append((pc, pt))
            if not ok:
                continue
            rec([v if v is None or is_unknown(v) else choose(v, c, take) for v in vals], new_path + [(c, take)])

    rec(list(values), [])
    return out


# ------------------------------------------------------------------------------------------------------------------ items
class Loop:
    __slots__ = ("kind", "test", "items", "carry", "frame", "node", "exits", "entry", "guard", "ph", "forced", "fr", "entry0")

    def __init__(self, kind, test, items, carry, frame, node, entry, guard=(), ph=None, forced=False, fr=None):
        self.kind, self.test, self.items, self.carry, self.frame, self.node, self.entry = kind, test, items, carry, frame, node, entry
        self.guard = guard            # path condition under which the loop is reached
        self.ph = ph or {}            # local name -> placeholder
        self.forced = forced          # the first iteration is unconditional (a loop tested at its end)
        self.fr = fr                  # the _Frame the body was walked in (identity of the loop for events recorded in it)
        self.entry0 = None            # the test made on first entry when it is not the loop's test on the entry values (a loop steered by a flag)

    def entry_test(self):
        """the loop condition on first entry (placeholders replaced by the values the locals enter the loop with)"""
        if self.forced:
            return ONE
        if self.entry0 is not None:
            return self.entry0
        mapping = [(p, self.entry.get(nm)) for nm, p in self.ph.items()
                   if not is_unknown(p) and self.entry.get(nm) is not None and not is_unknown(self.entry.get(nm)) and not isinstance(self.entry.get(nm), tuple)]
        return renamer(mapping)(self.test)


def tidy(items):
    """adjacent byte / line counts added up, zero counts dropped"""
    out = []
    for it in items:
        if it[0] in ("B", "L"):
            if is_unknown(it[1]):
                out.append(it)
                continue
            if out and out[-1][0] == it[0] and not is_unknown(out[-1][1]):
                out[-1] = (it[0], out[-1][1] + it[1])
            else:
                out.append(it)
        elif it[0] == "if":
            out.append(("if", it[1], tidy(it[2]), tidy(it[3])))
        else:
            out.append(it)
    return [it for it in out if not (it[0] in ("B", "L") and not is_unknown(it[1]) and norm(it[1]).is_zero())]


def _loop_refs(lp):
    """placeholders (loop-carried locals) the consumption of a loop depends on: those in its test, its items and, transitively, in the
    updates of those"""
    names = {akey(p): p for p, _v in lp.carry}
    upd = {akey(p): v for p, v in lp.carry}
    want = set()

    def scan(v):
        for d in walk_atoms(v):
            if d[0] == "fn" and d[1] == "lv":
                k = akey(F.Rat(F.Poly.atom(F._intern(d))))
                if k in names:
                    want.add(k)

    def scan_items(items):
        for it in items:
            if it[0] in ("B", "L", "abs"):
                scan(it[1])
            elif it[0] == "if":
                scan(it[1])
                scan_items(it[2])
                scan_items(it[3])
            elif it[0] == "loop":
                scan(it[1].test)
                scan_items(it[1].items)
                for _p, v in it[1].carry:
                    scan(v)
    scan(lp.test)
    scan_items(lp.items)
    n = -1
    while n != len(want):
        n = len(want)
        for k in list(want):
            scan(upd[k])
    return [(names[k], upd[k]) for k in sorted(want)]


LAST_DIFFERENCE = []        # the pair of values (x, y, whole_values) of the latest failed comparison of two amounts / tests, for a witness


def same_items(a, b, whole_values=True, why=None, _depth=0):
    """equality of two consumption trees (up to the numbering of their loops); `why` (a list) receives the first difference"""
    a, b = tidy(a), tidy(b)
    if _depth == 0:
        del LAST_DIFFERENCE[:]

    def no(msg):
        if why is not None and not why:
            why.append(msg)
        return False

    if len(a) != len(b):
        del LAST_DIFFERENCE[:]            # (a difference of shape, not of two amounts)
        return no(f"{show(a)}  vs  {show(b)}")
    for i in range(len(a)):
        x, y = a[i], b[i]
        if x[0] != y[0]:
            del LAST_DIFFERENCE[:]
            return no(f"{show([x])}  vs  {show([y])}")
        if x[0] in ("B", "L", "abs"):
            if not same(x[1], y[1], whole_values):
                LAST_DIFFERENCE[:] = [(x[1], y[1], whole_values)]
                return no(f"{show([x])}  vs  {show([y])}")
        elif x[0] == "exit":
            if x[1] != y[1]:
                del LAST_DIFFERENCE[:]
                return no(f"{x[1]} vs {y[1]}")
        elif x[0] == "if":
            if not same(x[1], y[1], whole_values):
                LAST_DIFFERENCE[:] = [(x[1], y[1], whole_values)]
                return no(f"branch on {x[1]!r}  vs  {y[1]!r}")
            if not same_items(x[2], y[2], whole_values, why, _depth + 1) or not same_items(x[3], y[3], whole_values, why, _depth + 1):
                return False
        elif x[0] == "loop":
            # the two loops, and whatever refers to them afterwards, under one name
            z = F.sym(f"<loop {_depth}.{i}>")
            if not x[1].frame.equals(z):
                a = a[:i] + map_items(a[i:], renamer([(x[1].frame, z)]))
            if not y[1].frame.equals(z):
                b = b[:i] + map_items(b[i:], renamer([(y[1].frame, z)]))
            if not same_loops(a[i][1], b[i][1], whole_values, why, _depth + 1):
                return False
    return True


def truth_of(v):
    """True / False when a (normalised) test formula is decided by constants, else None"""
    if v is None or is_unknown(v) or isinstance(v, tuple):
        return None
    v = norm(v, whole_values=False)
    if v.is_const():
        return v.const_value() != 0
    if sym_name(v) in ("True", "False", "None"):
        return sym_name(v) == "True"
    if sym_name(v) is not None and sym_name(v)[:1] in "'\"":
        x = K.conc(v)           # a text literal is true unless it is empty
        return bool(x) if isinstance(x, str) else None
    p = fn_parts(v)
    if p is None:
        return None
    if p[0] == "ge0" and p[1][0].is_const():
        return p[1][0].const_value() >= 0
    if p[0] == "eq0":
        d = p[1][0]
        if d.is_const():
            return d.const_value() == 0
        # two different text literals are different
        terms = list(d.n.t.items()) if d.d.is_const() else []
        if len(terms) == 2 and all(len(m) == 1 and m[0][1] == 1 and F.atom_desc(m[0][0])[0] == "s" and F.atom_desc(m[0][0])[1][:1] in "'\""
                                   for m, _c in terms) and terms[0][1] == -terms[1][1]:
            return False
    if p[0] == "not":
        t = truth_of(p[1][0])
        return None if t is None else not t
    if p[0] == "cmp:In" and len(p[1]) == 2 and not any(isinstance(a, str) for a in p[1]):
        x, seq = K.conc(p[1][0]), fn_parts(p[1][1])
        if x is not K.NOT and seq is not None and seq[0] == "tuple":
            elems = [K.conc(e) if not isinstance(e, str) else K.NOT for e in seq[1]]
            if not any(e is K.NOT for e in elems):
                return x in elems
    if p[0] in ("bool:And", "bool:Or"):
        ts = [truth_of(a) for a in p[1]]
        if p[0] == "bool:And":
            return False if any(t is False for t in ts) else (True if all(t is True for t in ts) else None)
        return True if any(t is True for t in ts) else (False if all(t is False for t in ts) else None)
    return None


def settle(v):
    """selections whose condition is decided by constants are taken (after a substitution of concrete values)"""
    def post(name, args):
        if name == "phi" and len(args) == 3:
            t = truth_of(args[0])
            if t is not None:
                return args[1] if t else args[2]
        if name == "odd" and len(args) == 1 and not isinstance(args[0], str) and args[0].is_const() and args[0].const_value().denominator == 1:
            return F.const(int(args[0].const_value()) & 1)
        if name in _INT_FOLDS and args and all(not isinstance(a, str) and a.is_const() and a.const_value().denominator == 1 for a in args):
            try:
                return F.const(_INT_FOLDS[name](*[int(a.const_value()) for a in args]))
            except (ZeroDivisionError, TypeError, ValueError):
                return None
        return None
    return rewrite(v, post=post, memo=_MEMO_SETTLE)


_INT_FOLDS = {"and": lambda a, b: a & b, "or": lambda a, b: a | b, "shr": lambda a, b: a >> b, "mod": lambda a, b: a % b, "floordiv": lambda a, b: a // b,
              "hi16": lambda a: a >> 16, "lo16": lambda a: a & 0xFFFF, "abs": abs}


def _canon_carried(lp):
    """a loop-carried local that is only tested (not used in the body's consumption) and is overwritten in every iteration by a value that
    does not depend on loop-carried locals is named by that value: the value it *enters* the loop with then matters only through the
    truth of the loop condition on first entry (compared separately), so `dtype = 1` and `dtype = 2` before `while dtype > 0` are the same"""
    used = []

    def scan_items(items):
        for it in items:
            if it[0] in ("B", "L", "abs"):
                used.extend(walk_atoms(it[1]))
            elif it[0] == "if":
                used.extend(walk_atoms(it[1]))
                scan_items(it[2])
                scan_items(it[3])
            elif it[0] == "loop":
                used.extend(walk_atoms(it[1].test))
                scan_items(it[1].items)
                for _p, v in it[1].carry:
                    used.extend(walk_atoms(v))
    scan_items(lp.items)
    mapping = []
    prev = renamer([(lp.frame, F.fn("prev", lp.frame))])      # what was read in the previous iteration
    for p, v in lp.carry:
        if v is None or is_unknown(v) or isinstance(v, tuple):
            continue
        own = any(d[0] == "fn" and d[1] == "lv" and _arg(d[2][0]).equals(lp.frame) for d in walk_atoms(v))
        if own or as_atom(p) in used:
            continue
        mapping.append((p, prev(v)))
    return map_loop(lp, renamer(mapping)) if mapping else lp


def _canon_derived(lp):
    """a loop-carried local that is, on entry and after every iteration, the same function of another loop-carried local (`n = int(line[16:24])`
    kept beside `line`) is written as that function of the other's placeholder: carrying the derived value or recomputing it at the top
    of the loop is the same loop"""
    carry = [(p, v) for p, v in lp.carry if v is not None and not is_unknown(v) and not isinstance(v, (tuple, DictValue))]
    mapping = []
    for px, vx in carry:
        dx = fn_parts(px)
        if dx is None or dx[0] != "lv" or len(dx[1]) < 2 or isinstance(dx[1][1], str):
            continue
        ex = dx[1][1]
        for py, vy in carry:
            dy = fn_parts(py)
            if py.equals(px) or dy is None or dy[0] != "lv" or len(dy[1]) < 2 or isinstance(dy[1][1], str) or as_atom(vy) is None or as_atom(dy[1][1]) is None:
                continue
            ey = dy[1][1]
            if not _mentions_atom(vx, F._intern(as_atom(vy))) or not _mentions_atom(ex, F._intern(as_atom(ey))):
                continue
            G = renamer([(vy, py)])(vx)               # the update of x, written on y as it is at the top of the next iteration
            if _mentions_atom(G, F._intern(as_atom(vy))):
                continue
            if same(renamer([(py, ey)])(G), ex, whole_values=False):
                mapping.append((px, G))
                break
    return map_loop(lp, renamer(mapping)) if mapping else lp


def same_loops(l1, l2, whole_values=True, why=None, _depth=0):
    def no(msg):
        if why is not None and not why:
            why.append(msg)
        return False
    if l1.kind != l2.kind:
        del LAST_DIFFERENCE[:]
        return no(f"{l1.kind} loop vs {l2.kind} loop")
    e1, e2 = l1.entry_test(), l2.entry_test()
    t1, t2 = truth_of(e1), truth_of(e2)
    if not ((t1 is not None and t1 == t2) or same(e1, e2, whole_values)):
        LAST_DIFFERENCE[:] = [(e1, e2, whole_values)]
        return no(f"loop condition on entry {norm(e1)!r}  vs  {norm(e2)!r}")
    # the loop-carried locals are named in one way on both sides: first with the locals that are a function of another carried local written
    # as that function; when the two loops do not compare equal that way, once more with every carried local named by what it was given in
    # the previous iteration (two loops that differ are then compared in the same form, and the difference can be put in numbers)
    first = []
    if _same_loops_in(_canon_carried(_canon_derived(l1)), _canon_carried(_canon_derived(l2)), whole_values, first, _depth):
        return True
    keep = list(LAST_DIFFERENCE)
    second = []
    if _same_loops_in(_canon_carried(l1), _canon_carried(l2), whole_values, second, _depth):
        return True
    if LAST_DIFFERENCE and refute(*LAST_DIFFERENCE[0]) is None and keep:
        LAST_DIFFERENCE[:] = keep
        second = first
    if why is not None and not why:
        why.extend((second or first)[:1])
    return False


def _same_loops_in(l1, l2, whole_values, why, _depth):
    def no(msg):
        if why is not None and not why:
            why.append(msg)
        return False
    pending = None
    if not same(l1.test, l2.test, whole_values):
        LAST_DIFFERENCE[:] = [(l1.test, l2.test, whole_values)]
        msg = f"loop condition {norm(l1.test)!r}  vs  {norm(l2.test)!r}"
        if refute(l1.test, l2.test, whole_values) is not None:
            return no(msg)
        # (not the same formula, but no numbers on which the two tests differ: a difference of shape or of amounts further on decides)
        pending = (msg, (l1.test, l2.test, whole_values))
    sub = []
    if not same_items(l1.items, l2.items, whole_values, sub, _depth):
        if pending is None or not LAST_DIFFERENCE or refute(*LAST_DIFFERENCE[0]) is not None:
            return no(sub[0] if sub else "the bodies of the loops differ")
        # (the bodies differ in a way numbers do not show either: the first difference stands)
    if pending is not None:
        LAST_DIFFERENCE[:] = [pending[1]]
        return no(pending[0])
    c1, c2 = _loop_refs(l1), _loop_refs(l2)
    if len(c1) != len(c2):
        del LAST_DIFFERENCE[:]
        return no(f"loop-carried values {[repr(p) for p, _ in c1]}  vs  {[repr(p) for p, _ in c2]}")
    for (p1, v1) in c1:
        hit = [v2 for p2, v2 in c2 if same(p1, p2, whole_values)]
        if len(hit) != 1:
            del LAST_DIFFERENCE[:]
        if len(hit) == 1 and not same(v1, hit[0], whole_values):
            LAST_DIFFERENCE[:] = [(v1, hit[0], whole_values)]
        if len(hit) != 1 or not same(v1, hit[0], whole_values):
            return no(f"update of {p1!r}: {None if is_unknown(v1) else norm(v1)!r}  vs  {[None if is_unknown(h) else norm(h) for h in hit]!r}")
    return True


def show(items, depth=0):
    out = []
    for it in tidy(items):
        if it[0] in ("B", "L", "abs"):
            v = it[1] if is_unknown(it[1]) else norm(it[1])
            out.append(f"{it[0]}[{v!r}]")
        elif it[0] == "exit":
            out.append(it[1])
        elif it[0] == "if":
            out.append(f"if({norm(it[1])!r}){{{show(it[2], depth + 1)}}}else{{{show(it[3], depth + 1)}}}")
        elif it[0] == "loop":
            out.append(f"{it[1].kind}({norm(it[1].test)!r}){{{show(it[1].items, depth + 1)}}}")
    return " ".join(out)


def map_items(items, f):
    """the same tree with every formula passed through f"""
    out = []
    for it in items:
        if it[0] in ("B", "L", "abs"):
            out.append((it[0], f(it[1])))
        elif it[0] == "if":
            out.append(("if", f(it[1]), map_items(it[2], f), map_items(it[3], f)))
        elif it[0] == "loop":
            out.append(("loop", map_loop(it[1], f)))
        else:
            out.append(it)
    return out


def map_loop(lp, f):
    fm = lambda v: v if v is None or is_unknown(v) else f(v)   # noqa
    new = Loop(lp.kind, f(lp.test), map_items(lp.items, f), [(f(p), fm(v)) for p, v in lp.carry],
               f(lp.frame), lp.node, {k: fm(v) for k, v in lp.entry.items()}, tuple((fm(c), pol) for c, pol in lp.guard),
               {k: fm(v) for k, v in lp.ph.items()}, lp.forced, lp.fr)
    new.exits = lp.exits
    new.entry0 = fm(lp.entry0)
    return new


def renamer(mapping):
    """f for map_items: atoms equal to a key of `mapping` (list of (formula, replacement)) are replaced, everywhere inside formulas"""
    keys = [(as_atom(k), v) for k, v in mapping if as_atom(k) is not None]

    def pre(d):
        for kd, v in keys:
            if kd == d:
                return v
        return None

    memo = {}

    def f(r):
        return rewrite(r, pre=pre, memo=memo)
    return f


def total(items, unit):
    """sum of the plain counts of one unit in an item list; None if a loop / branch / unknown contributes"""
    tot = F.const(0)
    for it in tidy(items):
        if it[0] == unit:
            if is_unknown(it[1]):
                return None
            tot = tot + it[1]
        elif it[0] in ("loop", "if", "abs"):
            return None
    return tot


def loops_of_call(w, fn):
    """the loops a followed function opened directly in the frame it was called in (in order)"""
    sp = w.spans.get(id(fn))
    if sp is None:
        return []
    fid, n0, n1 = sp
    out = []
    for lp in loops_in(w.top.items):
        p = fn_parts(lp.frame)
        if p is not None and p[0] == "frame" and p[1][0].equals(fid) and n0 < p[1][1].const_value() <= n1:
            out.append(lp)
    return out


def loops_in(items, deep=True):
    out = []
    for it in items:
        if it[0] == "loop":
            out.append(it[1])
            if deep:
                out.extend(loops_in(it[1].items))
        elif it[0] == "if" and deep:
            out.extend(loops_in(it[2]))
            out.extend(loops_in(it[3]))
    return out


# ------------------------------------------------------------------------------------------------------------------ evaluator
class _Frame:
    def __init__(self, fid):
        self.id = fid
        self.items = []
        self.off = {"B": ZERO, "L": ZERO}
        self.nloops = 0
        self.nopq = 0

    def opaque(self):
        self.nopq += 1
        for u in ("B", "L"):
            self.off[u] = F.fn("after", self.id, F.const(self.nopq), u)


class Stuck(Exception):
    """the walker met a construct it cannot lower (not an Unsupported: Evaluator.ev would swallow that into an Unknown value)"""


def _is_str(v):
    """a value that is text: a literal, or a concatenation / method result of one"""
    if v is None or is_unknown(v) or isinstance(v, tuple):
        return False
    n = sym_name(v)
    if n is not None:
        return n[:1] in "'\"" or n[:2] in ("b'", 'b"')
    p = fn_parts(v)
    return p is not None and p[0] in ("cat", "fmt")


KNOWN_CONSTS = {"os.SEEK_SET": 0, "os.SEEK_CUR": 1, "os.SEEK_END": 2, "io.SEEK_SET": 0, "io.SEEK_CUR": 1, "io.SEEK_END": 2}
NONE = F.sym("None")


def module_table(ctx, rel):
    """{name: value node} of the module-level names of `rel` that are bound exactly once, at top level (constants, slices, tables a clean-up
    moved out of a function); evaluated on use like an inlined temporary"""
    cache = ctx.__dict__.setdefault("_c11_modtab", {})
    if rel in cache:
        return cache[rel]
    m = ctx.src.mod(rel)
    count, val = {}, {}
    for st in ast.walk(m.tree):
        tg = []
        if isinstance(st, ast.Assign):
            tg = st.targets
        elif isinstance(st, (ast.AnnAssign, ast.AugAssign)):
            tg = [st.target]
        elif isinstance(st, (ast.Global, ast.Nonlocal)):
            for nm in st.names:
                count[nm] = count.get(nm, 0) + 2
        if st in m.tree.body:
            for t in tg:
                for x in ast.walk(t):
                    if isinstance(x, ast.Name):
                        count[x.id] = count.get(x.id, 0) + 1
            if isinstance(st, (ast.Assign, ast.AnnAssign)) and len(tg) == 1 and isinstance(tg[0], ast.Name) and st.value is not None:
                val[tg[0].id] = st.value
    for st in m.tree.body:
        if isinstance(st, (ast.FunctionDef, ast.AsyncFunctionDef, ast.ClassDef)):
            count[st.name] = count.get(st.name, 0) + 2
    cache[rel] = {k: v for k, v in val.items() if count.get(k) == 1}
    return cache[rel]


def _slice_parts(v):
    """(lower, upper, step) of a slice value, each a formula or None (absent)"""
    p = fn_parts(v) if v is not None and not is_unknown(v) and not isinstance(v, tuple) else None
    if p is None or p[0] != "slice" or len(p[1]) != 3 or any(isinstance(x, str) for x in p[1]):
        return None
    return tuple(None if x.equals(NONE) else x for x in p[1])


def make_slice(lo, up, step=None):
    return F.fn("slice", *[NONE if x is None else x for x in (lo, up, step)])


def sub_read(base, index):
    """a slice of the bytes of one read is the read of those bytes: rd(F, off, n)[a:b] = rd(F, off + a, b - a)"""
    q = fn_parts(base)
    sl = _slice_parts(index)
    if q is None or q[0] != "rd" or sl is None or sl[2] is not None:
        return None
    fr, off, n = q[1]
    lo, up = sl[0], sl[1]

    def pos(x, default):
        if x is None:
            return default
        if x.is_const() and x.const_value() < 0:
            return n + x
        return x
    lo, up = pos(lo, ZERO), pos(up, n)
    return F.fn("rd", fr, off + lo, up - lo)


def push_phi(name, v, f):
    """f applied below the selections of v: attr(phi(c, a, b)) = phi(c, attr(a), attr(b))"""
    p = fn_parts(v)
    if p is not None and p[0] == "phi" and len(p[1]) == 3:
        a, b = push_phi(name, p[1][1], f), push_phi(name, p[1][2], f)
        if a is None or b is None:
            return None
        return phi(p[1][0], a, b)
    return f(v)


def _plain(v):
    return v is not None and not is_unknown(v) and not isinstance(v, tuple) and not isinstance(v, DictValue)


def index_value(v, k):
    """element k (a constant) of a value: of a literal sequence, of `tuple(...)`, below the selections of a selected sequence"""
    if isinstance(v, tuple):
        return v[k] if -len(v) <= k < len(v) else Unknown("index outside a literal sequence")
    if not _plain(v):
        return None
    p = fn_parts(v)
    if p is not None and p[0] == "tuple" and not any(isinstance(a, str) for a in p[1]):
        return p[1][k] if -len(p[1]) <= k < len(p[1]) else Unknown("index outside a literal sequence")
    if p is not None and p[0] == "rec" and not any(isinstance(a, str) for a in p[1]):
        return fn_parts(p[1][k])[1][0] if -len(p[1]) <= k < len(p[1]) else Unknown("index outside a record")
    if p is not None and p[0] == "phi" and len(p[1]) == 3 and not any(isinstance(a, str) for a in p[1]):
        a, b = index_value(p[1][1], k), index_value(p[1][2], k)
        if a is None or b is None:
            return None
        return phi(p[1][0], a, b)
    return None


def make_record(fields, ordered):
    """a small value object (SimpleNamespace(a=.., b=..), a namedtuple): rec(kw:a(..), kw:b(..)) - `ordered` when it is also a sequence"""
    parts = []
    for k, v in fields:
        if isinstance(v, tuple):
            try:
                v = F.fn("tuple", *[need(x) for x in v])
            except Unsupported as e:
                return Unknown(str(e))
        if not _plain(v):
            return v if is_unknown(v) else Unknown(f"field {k} of a record")
        parts.append(F.fn("kw:" + k, v))
    return F.fn("rec" if ordered else "ns", *parts)


def field_value(v, name):
    """v.name for a record (below the selections of a selected record): -> value or None when v is not a record"""
    if not _plain(v):
        return None
    p = fn_parts(v)
    if p is None:
        return None
    if p[0] in ("rec", "ns"):
        for a in p[1]:
            q = fn_parts(a) if not isinstance(a, str) else None
            if q is not None and q[0] == "kw:" + name:
                return q[1][0]
        return Unknown(f"a record has no field {name}")
    if p[0] == "phi" and len(p[1]) == 3 and not any(isinstance(a, str) for a in p[1]):
        a, b = field_value(p[1][1], name), field_value(p[1][2], name)
        if a is None or b is None:
            return None
        return phi(p[1][0], a, b)
    return None


UNBOUND = F.sym("<unbound>")
_PARTIAL = "<partial>"


def _merge_envs(cv, envA, envB):
    """the locals after `if cv: A else: B`.  A local bound in one arm only is unknown - but what it holds where it is bound is kept beside
    it (`<partial>name`: the selection with UNBOUND in the other arm), so that a later test that rules the unbound paths out (`if x is None:
    return` for an x that is None exactly there) makes it known again"""
    out = {}
    for k in set(envA) | set(envB):
        if k.startswith(_PARTIAL):
            continue
        x, y = envA.get(k), envB.get(k)
        out[k] = x if x is y else phi(cv, x, y)
        if x is y or not _plain(cv):
            continue
        px, py = envA.get(_PARTIAL + k, x), envB.get(_PARTIAL + k, y)
        if (x is None or y is None or is_unknown(x) or is_unknown(y)) and (px is None or _plain(px)) and (py is None or _plain(py)) and not (px is None and py is None):
            out[_PARTIAL + k] = F.fn("phi", cv, UNBOUND if px is None else px, UNBOUND if py is None else py)
    return out


def none_paths(v, cur=()):
    """the paths [(condition, taken)] through the selections of v that lead to None"""
    if not _plain(v):
        return []
    if v.equals(NONE):
        return [cur]
    p = fn_parts(v)
    if p is not None and p[0] == "phi" and len(p[1]) == 3 and not any(isinstance(a, str) for a in p[1]) and len(cur) < 16:
        return none_paths(p[1][1], cur + ((p[1][0], True),)) + none_paths(p[1][2], cur + ((p[1][0], False),))
    return []


def prune_paths(v, paths, cur=()):
    """v on the paths that are none of `paths`: an arm of a selection that lies on an excluded path is dropped"""
    def excluded(path):
        return any(all(any(pc.equals(qc) and pp == qp for qc, qp in path) for pc, pp in ex) for ex in paths if ex)
    p = fn_parts(v) if _plain(v) else None
    if p is None or p[0] != "phi" or len(p[1]) != 3 or any(isinstance(a, str) for a in p[1]):
        return v
    c, a, b = p[1]
    if excluded(cur + ((c, True),)):
        return prune_paths(b, paths, cur + ((c, False),))
    if excluded(cur + ((c, False),)):
        return prune_paths(a, paths, cur + ((c, True),))
    return phi(c, prune_paths(a, paths, cur + ((c, True),)), prune_paths(b, paths, cur + ((c, False),)))


def without_none(v):
    """a value known not to be None: the selections that lead to None are resolved the other way"""
    if not _plain(v):
        return v
    p = fn_parts(v)
    if p is not None and p[0] == "phi" and len(p[1]) == 3 and not any(isinstance(a, str) for a in p[1]):
        a, b = without_none(p[1][1]), without_none(p[1][2])
        if _plain(a) and a.equals(NONE):
            return b
        if _plain(b) and b.equals(NONE):
            return a
        return phi(p[1][0], a, b)
    return v


def as_sequence(v, records=False):
    """a selection between literal sequences of one length is the sequence of the selections of their elements (`records`: a record that
    is also a sequence - a namedtuple - is taken apart too)"""
    if not _plain(v):
        return v
    p = fn_parts(v)
    if p is not None and p[0] == "tuple" and not any(isinstance(a, str) for a in p[1]):
        return tuple(p[1])
    if records and p is not None and p[0] == "rec" and not any(isinstance(a, str) for a in p[1]):
        return tuple(fn_parts(a)[1][0] for a in p[1])
    if p is not None and p[0] == "phi" and len(p[1]) == 3 and not any(isinstance(a, str) for a in p[1]):
        a, b = as_sequence(p[1][1], records), as_sequence(p[1][2], records)
        if isinstance(a, tuple) and isinstance(b, tuple) and len(a) == len(b):
            return tuple(phi(p[1][0], x, y) for x, y in zip(a, b))
    return v


def none_test(v):
    """`v is None` as a value: decided leaf by leaf below the selections of v; None when nothing is known about a leaf"""
    if isinstance(v, tuple):
        return ZERO
    if not _plain(v):
        return None
    if v.equals(NONE):
        return ONE
    if v.is_const() or _is_str(v):
        return ZERO
    p = fn_parts(v)
    if p is not None and p[0] in ("tuple", "rec", "ns", "cat", "fmt"):
        return ZERO
    if p is not None and p[0] == "phi" and len(p[1]) == 3 and not any(isinstance(a, str) for a in p[1]):
        a, b = none_test(p[1][1]), none_test(p[1][2])
        if a is None or b is None:
            return None
        return phi(p[1][0], a, b)
    return None


def _first_phi(values):
    """the condition of the first selection occurring in some values (sequences entered)"""
    for v in values:
        if isinstance(v, tuple):
            c = _first_phi(v)
            if c is not None:
                return c
        elif isinstance(v, DictValue):
            c = _first_phi(list(v.d.values()))
            if c is not None:
                return c
        elif _plain(v):
            for d in walk_atoms(v):
                if d[0] == "fn" and d[1] == "phi":
                    return _arg(d[2][0])
    return None


def choose(v, c, take):
    """a value in the case where the condition c holds / does not hold: the selections on c are resolved"""
    if isinstance(v, tuple):
        return tuple(choose(x, c, take) for x in v)
    if isinstance(v, DictValue):
        return DictValue({k: choose(x, c, take) for k, x in v.d.items()})
    if not _plain(v):
        return v

    def pre(d):
        if d[0] == "fn" and d[1] == "phi" and _arg(d[2][0]).equals(c):
            return choose(_arg(d[2][1 if take else 2]), c, take)
        return None
    return rewrite(v, pre=pre)


def _known_by_cases(v, depth=0):
    """a value that is known once the selections in it are resolved: made of numbers, texts, None, sequences and selections of those"""
    if isinstance(v, tuple):
        return all(_known_by_cases(x, depth + 1) for x in v)
    if isinstance(v, DictValue):
        return all(_known_by_cases(x, depth + 1) for x in v.d.values())
    if not _plain(v) or depth > 12:
        return False
    for a in atoms_of(v):
        d = F.atom_desc(a)
        if d[0] == "s":
            if not (d[1] in ("None", "True", "False") or d[1][:1] in ("'", '"') or d[1][:2] in ("b'", 'b"')):
                return False
        elif d[0] == "fn" and d[1] == "phi" and len(d[2]) == 3:
            if not all(_known_by_cases(_arg(k), depth + 1) for k in d[2][1:]):
                return False
        elif d[0] == "fn" and d[1] == "tuple":
            if not all(not isinstance(k, str) and _known_by_cases(_arg(k), depth + 1) for k in d[2]):
                return False
        else:
            return False
    return True


def split_fold(values, fn, depth=0):
    """fn(values) -> a value, or None when it cannot compute on them; then, when the values contain selections, computed case by case"""
    r = fn(values)
    if r is not None or depth >= 4:
        return r
    if depth == 0 and not all(_known_by_cases(v) for v in values):
        return None
    c = _first_phi(values)
    if c is None:
        return None
    a = split_fold([choose(v, c, True) for v in values], fn, depth + 1)
    if a is None:
        return None
    b = split_fold([choose(v, c, False) for v in values], fn, depth + 1)
    if b is None:
        return None
    return phi(c, a, b)


def _floor_plus_remainder(x, flag):
    """x + (1 if n % p else 0) with x containing n // p  is  ceil(n / p): x with that term replaced by (n + p - 1) // p"""
    q = fn_parts(flag)
    if q is None or q[0] != "phi" or len(q[1]) != 3 or any(isinstance(a, str) for a in q[1]) or not (q[1][1].equals(ONE) and q[1][2].is_zero()):
        return None
    c = fn_parts(canon_tests(q[1][0]))
    # the remainder is positive / not zero
    m = None
    if c is not None and c[0] == "ge0":
        m = fn_parts(c[1][0] + 1)
    elif c is not None and c[0] == "not":
        e = fn_parts(c[1][0])
        m = fn_parts(e[1][0]) if e is not None and e[0] == "eq0" else (fn_parts(c[1][0]) if False else None)
    elif c is not None and c[0] == "mod":
        m = c
    if m is None or m[0] != "mod" or len(m[1]) != 2 or any(isinstance(a, str) for a in m[1]):
        return None
    n, p_ = m[1]
    fl = F.fn("floordiv", n, p_)
    if as_atom(fl) is None or not x.d.is_const():
        return None
    key = ((F._intern(as_atom(fl)), 1),)
    coef = x.n.t.get(key)
    if coef is None or coef / x.d.const_value() != 1:
        return None
    return x - fl + floordiv(n + p_ - 1, p_)


def _numeric_piece(v):
    """a piece of a text that is a number read from the file / computed from one (it prints as its decimal digits)"""
    if not _plain(v) or v.is_const():
        return False
    if as_atom(v) is None:
        return True
    return any(d[0] == "fn" and d[1] in ("dec", "rd", "lv", "fin", "item", "floordiv", "hi16", "lo16", "arr") for d in walk_atoms(v))


def canon_format(fmt):
    """a struct format with a repeat count put in by other means than `%`: text.replace('%d', str(n)), f"{e}{n}{code}" -> fmt(text, n)"""
    p = fn_parts(fmt)
    if p is None:
        return fmt
    if p[0] == "phi" and len(p[1]) == 3 and not any(isinstance(a, str) for a in p[1]):
        return phi(p[1][0], canon_format(p[1][1]), canon_format(p[1][2]))
    if p[0].startswith("call:") and p[0].endswith(".replace") and not any(isinstance(a, str) for a in p[1]):
        args = p[1]
        recv = args[0] if p[0] == "call:.replace" else F.sym(p[0][5:-len(".replace")])
        rest = args[1:] if p[0] == "call:.replace" else args
        if len(rest) == 2 and K.conc(rest[0]) == "%d":
            q = fn_parts(rest[1])
            if q is not None and q[0] == "call:str" and len(q[1]) == 1 and not isinstance(q[1][0], str):
                return F.fn("fmt", recv, q[1][0])
    if p[0] == "cat":
        pieces = []

        def flat(v):
            q = fn_parts(v)
            if q is not None and q[0] == "cat" and len(q[1]) == 2 and not any(isinstance(a, str) for a in q[1]):
                flat(q[1][0])
                flat(q[1][1])
            else:
                pieces.append(v)
        flat(fmt)
        nums = [i for i, x in enumerate(pieces) if _numeric_piece(x)]
        if len(nums) == 1:
            n = pieces[nums[0]]
            pieces[nums[0]] = F.sym(repr("%d"))
            out = pieces[0]
            for x in pieces[1:]:
                out = F.fn("cat", out, x)
            return F.fn("fmt", out, n)
    return fmt


TRUTH_FNS = ("cmp:", "bool:")


def is_truth_value(v):
    """a value that is 0 or 1: a comparison, a negation, a parity, a conjunction / disjunction / selection of those"""
    if not _plain(v):
        return False
    if v.is_const():
        return v.const_value() in (0, 1)
    p = fn_parts(v)
    if p is None:
        return False
    if p[0].startswith("cmp:") or p[0] in ("not", "odd", "ge0", "eq0"):
        return True
    if p[0] == "lv" and len(p[1]) >= 2 and not isinstance(p[1][1], str) and not p[1][1].is_const():
        return is_truth_value(p[1][1])          # a loop-carried local that enters the loop as a truth value (checked to stay one where the loop ends)
    if p[0] in ("bool:And", "bool:Or"):
        return all(not isinstance(a, str) and is_truth_value(a) for a in p[1])
    if p[0] == "phi":
        return all(not isinstance(a, str) and is_truth_value(a) for a in p[1][1:])
    return False


def as_number(v):
    """a truth value used in arithmetic: 1 where it holds, 0 where it does not - written as a selection so that it is resolved case by case"""
    if _plain(v) and not v.is_const() and is_truth_value(v) and (fn_parts(v) or ("",))[0] != "phi":
        return F.fn("phi", v, ONE, ZERO)
    return v


def table_lookup(table, k, node=None):
    """table[k]: the key is known, or it is a tuple whose unknown components are truth values (the table is then indexed case by case)"""
    d = table.d
    key = K.conc(k)
    if key is not K.NOT:
        try:
            if key in d:
                return d[key]
        except TypeError:
            pass
        return Unknown(f"key {key!r} is not in the literal table" + (f" at line {node.lineno}" if node is not None else ""))
    if _plain(k) and d and all(kk in (0, 1, True, False) for kk in d) and len(d) == 2:
        # a table of two entries indexed by a truth value (bool(x), a comparison): the selection on it
        return phi(k, d[True] if True in d else d[1], d[False] if False in d else d[0])
    if _plain(k) and 1 <= len(d) <= 8 and (all(isinstance(kk, str) for kk in d) or all(isinstance(kk, int) and not isinstance(kk, bool) for kk in d)):
        # a table of texts / numbers indexed by a value that is not known: a key the table does not hold raises KeyError, so whatever runs after
        # the lookup sees one of the entries - the selection on `k == key`, entry by entry (the last one when none of the others matched)
        keys = list(d)
        out = d[keys[-1]]
        for kk in reversed(keys[:-1]):
            c = compare_values(ast.Eq(), k, K.lift(kk))
            if not _plain(c):
                return Unknown("key of the literal table" + (f" at line {node.lineno}" if node is not None else ""))
            out = phi(c, d[kk], out)
        return out
    if isinstance(k, tuple) and len(k) <= 4:
        for i, x in enumerate(k):
            if K.conc(x) is K.NOT:
                if not is_truth_value(x):
                    # a value used as a truth value through bool(...) is one: the table then has only 0 / 1 in that position
                    if not _plain(x) or not all(isinstance(kk, tuple) and len(kk) == len(k) and kk[i] in (0, 1, True, False) for kk in d):
                        return Unknown("key of the literal table" + (f" at line {node.lineno}" if node is not None else ""))
                yes = table_lookup(table, k[:i] + (ONE,) + k[i + 1:], node)
                no = table_lookup(table, k[:i] + (ZERO,) + k[i + 1:], node)
                return phi(x, yes, no)
    return Unknown("key of the literal table" + (f" at line {node.lineno}" if node is not None else ""))


def compare_values(op, a, b):
    """a <op> b: computed when both are known, decided leaf by leaf for `is None`, element by element for literal sequences"""
    r = K.fold_compare(op, a, b)
    if r is not None:
        return r
    if is_unknown(a) or is_unknown(b):
        return a if is_unknown(a) else b
    if isinstance(a, DictValue) or isinstance(b, DictValue):
        return Unknown("comparison of a table")
    if isinstance(op, (ast.Is, ast.IsNot, ast.Eq, ast.NotEq)):
        for x, y in ((a, b), (b, a)):
            if _plain(y) and y.equals(NONE):
                t = none_test(x)
                if t is not None and (isinstance(x, tuple) or (fn_parts(x) or ("",))[0] in ("phi", "tuple", "rec", "ns")):
                    return t if isinstance(op, (ast.Is, ast.Eq)) else (ONE - t if t.is_const() else F.fn("not", t))
        # a truth value compared with True / False is that value or its negation
        for x, y in ((a, b), (b, a)):
            if _plain(x) and _plain(y) and y.is_const() and y.const_value() in (0, 1) and is_truth_value(x) and not x.is_const():
                same_ = (y.const_value() == 1) == isinstance(op, (ast.Is, ast.Eq))
                return x if same_ else F.fn("not", x)
    pack = lambda v: F.fn("tuple", *[need(x) for x in v]) if isinstance(v, tuple) else v   # noqa
    try:
        a, b = pack(a), pack(b)
    except Unsupported as e:
        return Unknown(str(e))
    return F.fn("cmp:" + type(op).__name__, need(a), need(b))


class CEval(AutoEvaluator):
    """AutoEvaluator whose calls are handled by the walker (each argument is evaluated exactly once: reads have effects)"""

    def __init__(self, fn, walker, **kw):
        super().__init__(fn, **kw)
        self.walker = walker

    def _call(self, node):
        return self.walker.call(node, self)

    def _assign(self, target, v, st, aug=False):
        if isinstance(target, ast.Name) and target.id in self.buffers:
            self.walker.all_inits.append((target.id, v, st))
            self.walker.init_guards[id(st)] = self.walker.guard
        if isinstance(target, ast.Subscript):
            self.walker.cell_guards[id(st)] = self.walker.guard
        return super()._assign(target, v, st, aug)

    def _concrete_comp(self, node):
        """a comprehension over a literal sequence (a tuple of values) is evaluated element by element"""
        if len(node.generators) != 1 or node.generators[0].is_async:
            return None
        g = node.generators[0]
        if not isinstance(g.iter, (ast.Name, ast.Call, ast.Subscript, ast.Tuple, ast.List)):
            return None
        if any(isinstance(x, ast.Call) and isinstance(x.func, ast.Attribute) and x.func.attr in _FILE_METHODS | {"islice", "fromfile"} for x in ast.walk(g.iter)):
            return None
        itv = self._ev(g.iter)
        if not isinstance(itv, tuple):
            return None
        names = [x.id for x in ast.walk(g.target) if isinstance(x, ast.Name)]
        saved = {k: self.env.get(k) for k in names}
        out = []
        try:
            for x in itv:
                self.walker.assign(g.target, x, node)
                keep = True
                for c in g.ifs:
                    t = truth_of(self._ev(c))
                    if t is None:
                        return None
                    keep = keep and t
                if keep:
                    out.append(self._ev(node.elt))
            return tuple(out)
        finally:
            for k, v in saved.items():
                if v is None:
                    self.env.pop(k, None)
                else:
                    self.env[k] = v

    def _subscript(self, node):
        """X[i]: of a lookup table, of a literal sequence / a known text, of the bytes of a read, of anything else (the atom idx(X, i))"""
        base = self._ev(node.value)
        if is_unknown(base):
            return base
        # ---- the index
        if isinstance(node.slice, ast.Slice):
            sl = []
            for part in (node.slice.lower, node.slice.upper, node.slice.step):
                if part is None:
                    sl.append(None)
                else:
                    v = self._ev(part)
                    if is_unknown(v) or isinstance(v, tuple):
                        return v if is_unknown(v) else Unknown("slice bound that is a tuple")
                    sl.append(v)
            r = K.fold_subscript(base, ("slice",) + tuple(sl))
            if r is not None:
                return r
            if isinstance(base, tuple):
                bounds = [K.conc(x) if x is not None else None for x in sl]
                if not any(x is K.NOT for x in bounds):
                    return base[slice(*bounds)]
                return Unknown(f"slice of a literal sequence with bounds that are not known (line {node.lineno})")
            if isinstance(base, DictValue):
                return Unknown("slice of a table")
            if sl[0] is None and sl[2] is None:
                sl[0] = ZERO              # x[:b] is x[0:b]
            ix = make_slice(*sl)
        else:
            k = self._ev(node.slice)
            if is_unknown(k):
                return k
            if isinstance(base, DictValue):
                return table_lookup(base, k, node)
            r = K.fold_subscript(base, k)
            if r is not None:
                return r
            if isinstance(base, tuple) and isinstance(K.conc(k), int) and not isinstance(k, tuple):
                i = K.conc(k)
                return base[i] if -len(base) <= i < len(base) else Unknown(f"index outside a literal sequence (line {node.lineno})")
            known = K.conc(base)
            if isinstance(base, tuple) or isinstance(known, (str, bytes)):
                seq = base if isinstance(base, tuple) else K.lift(tuple(known[i:i + 1] for i in range(len(known))))
                if not isinstance(k, tuple) and len(seq) == 2 and is_truth_value(k):
                    return phi(k, seq[1], seq[0])         # a pair indexed by a truth value / a parity
                return Unknown(f"index of a literal sequence that is not known (line {node.lineno})")
            if isinstance(k, tuple):
                try:
                    ix = F.fn("tuple", *[need(x) for x in k])
                except Unsupported as e:
                    return Unknown(str(e))
            else:
                ix = need(k)
        base = need(base)
        if ix.is_const() and ix.const_value().denominator == 1:
            r = index_value(base, int(ix.const_value()))
            if r is not None:
                return r
        r = sub_read(base, ix)
        if r is not None:
            return r
        if ix.is_const():
            q = fn_parts(base)
            if q is not None and q[0] == "dec":
                self.walker.events.append(("decidx", base, int(ix.const_value()), node))
        elif is_truth_value(ix) and as_sequence(base) is not base and len(as_sequence(base)) == 2:
            seq = as_sequence(base)
            return phi(ix, seq[1], seq[0])
        return F.fn("idx", base, ix)

    def _ev(self, node):
        if isinstance(node, ast.Name) and isinstance(node.ctx, ast.Load) and node.id not in self.env and node.id not in self.buffers \
                and self.walker.never_bound(node.id):
            # a local that nothing has bound on any path that leads here (or a name nothing defines): reading it raises
            self.walker.events.append(("unbound", node.id, node))
        if isinstance(node, (ast.Tuple, ast.List)) and any(isinstance(e, ast.Starred) for e in node.elts):
            out = []
            for e in node.elts:
                if isinstance(e, ast.Starred):
                    v = self.ev(e.value)
                    if not isinstance(v, tuple):
                        return Unknown("starred element that is not a literal sequence")
                    out.extend(v)
                else:
                    out.append(self.ev(e))
            return tuple(out)
        if isinstance(node, ast.Attribute):
            d = dotted(node)
            if d in KNOWN_CONSTS and d.split(".")[0] not in self.env:
                return F.const(KNOWN_CONSTS[d])
            if d is not None and d not in self.env and isinstance(node.ctx, ast.Load):
                # a property of the class: the value its getter returns
                f2 = self.walker.table.get(d)
                if f2 is not None and _is_property(f2) and self.walker.follow is not False and d not in self.walker.no_inline:
                    call = ast.copy_location(ast.Call(func=node, args=[], keywords=[]), node)
                    return self.walker.inline(f2, call, self, d)
            if node.attr in ("start", "stop", "step") and isinstance(node.ctx, ast.Load):
                base = self._ev(node.value)
                if base is not None and not is_unknown(base) and not isinstance(base, tuple):
                    k = ("start", "stop", "step").index(node.attr)

                    def part(x):
                        sp = _slice_parts(x)
                        return None if sp is None else (NONE if sp[k] is None else sp[k])
                    r = push_phi(node.attr, base, part)
                    if r is not None:
                        return r
        if isinstance(node, ast.Attribute) and isinstance(node.ctx, ast.Load) and not isinstance(node.value, ast.Name) or \
                isinstance(node, ast.Attribute) and isinstance(node.ctx, ast.Load) and isinstance(node.value, ast.Name) and node.value.id in self.env \
                and node.value.id not in self.buffers and dotted(node) not in self.env:
            v = super()._ev(node)
            p = fn_parts(v) if _plain(v) else None
            if p is not None and p[0] == "attr:" + node.attr and len(p[1]) == 1 and not isinstance(p[1][0], str):
                r = field_value(p[1][0], node.attr)
                if r is not None:
                    return r
                q = fn_parts(p[1][0])
                if node.attr == "size" and self.walker.sizes is not None and q is not None and q[0] in ("call:struct.Struct", "call:Struct") and q[1] \
                        and not isinstance(q[1][0], str):
                    r = self.walker.sizes.struct_size(q[1][0])          # Struct(fmt).size, in the one form sizes have
                    if r is not None:
                        return r
            return v
        if isinstance(node, ast.DictComp):
            # {k: v for ...}: the comprehension of the pairs (k, v)
            pair = ast.copy_location(ast.Tuple(elts=[node.key, node.value], ctx=ast.Load()), node)
            return self._ev(ast.copy_location(ast.ListComp(elt=pair, generators=node.generators), node))
        if isinstance(node, (ast.ListComp, ast.GeneratorExp, ast.SetComp)) and (
                self.walker._effectful(node.elt) or any(self.walker._effectful(c) for g in node.generators for c in g.ifs)
                or any(self.walker._effectful(g.iter) for g in node.generators[1:])):
            return self.walker.comp_with_effects(node)
        if isinstance(node, (ast.ListComp, ast.GeneratorExp, ast.SetComp)):
            r = self._concrete_comp(node)
            if r is not None:
                return r
            parts = []
            saved = {}
            try:
                for g in node.generators:
                    v = self._ev(g.iter)
                    if isinstance(v, tuple):
                        try:
                            v = F.fn("tuple", *[need(x) for x in v])
                        except Unsupported as e:
                            v = Unknown(str(e))
                    if is_unknown(v):
                        return v
                    parts.append(need(v))
                    for i, x in enumerate(n for n in ast.walk(g.target) if isinstance(n, ast.Name)):
                        if x.id not in saved:
                            saved[x.id] = self.env.get(x.id)
                        self.env[x.id] = F.fn("each", need(v), F.const(i))
                    for c in g.ifs:
                        cv = self._ev(c)
                        if is_unknown(cv) or isinstance(cv, tuple):
                            return cv if is_unknown(cv) else Unknown("test on a tuple")
                        parts.append(F.fn("where", need(cv)))
                e = self._ev(node.elt)
                if isinstance(e, tuple):
                    try:
                        e = F.fn("tuple", *[need(x) for x in e])
                    except Unsupported as ex:
                        e = Unknown(str(ex))
                if is_unknown(e):
                    return e
                return F.fn("comp", need(e), *parts)
            finally:
                for k, v in saved.items():
                    if v is None:
                        self.env.pop(k, None)
                    else:
                        self.env[k] = v
        if isinstance(node, ast.JoinedStr):
            parts, spec_parts, plain = [], [], True
            for v in node.values:
                if isinstance(v, ast.Constant):
                    parts.append(F.sym(repr(v.value)))
                    spec_parts.append(v.value)
                elif isinstance(v, ast.FormattedValue):
                    x = self._ev(v.value)
                    spec = None
                    if v.format_spec is not None:
                        sv = self._ev(v.format_spec)
                        spec = K.conc(sv)
                        if not isinstance(spec, str):
                            spec = K.NOT
                    if is_unknown(x) or spec is K.NOT:
                        return F.sym("fstr:" + ast.unparse(node))
                    parts.append(x)
                    spec_parts.append((x, v.conversion, spec))
                    # (`{n:d}` of a number read from the file prints its decimal digits, as `{n}` / str(n) does)
                    plain = plain and v.conversion == -1 and not isinstance(x, tuple) and \
                        (v.format_spec is None or (spec in ("d", "") and _numeric_piece(x)))
                else:
                    return F.sym("fstr:" + ast.unparse(node))
            txt = K.fold_format(spec_parts)
            if txt is not None:
                return F.sym(repr(txt))          # every field is known: the text itself
            if not plain:
                return F.sym("fstr:" + ast.unparse(node))
            if not parts:
                return F.sym("''")
            out = parts[0]
            for x in parts[1:]:
                out = F.fn("cat", out, x)
            return out
        if isinstance(node, ast.Constant) and isinstance(node.value, bytes):
            return F.sym(repr(node.value))
        if isinstance(node, ast.Compare) and len(node.ops) > 1:
            # a < b < c  is  a < b and b < c  (the middle operands are names or constants here: evaluated twice without harm)
            parts, left = [], node.left
            for op, right in zip(node.ops, node.comparators):
                if any(isinstance(x, (ast.Call, ast.NamedExpr)) for x in ast.walk(right)):
                    return Unknown("chained comparison over calls")
                parts.append(ast.copy_location(ast.Compare(left=left, ops=[op], comparators=[right]), node))
                left = right
            return self._ev(ast.copy_location(ast.BoolOp(op=ast.And(), values=parts), node))
        if isinstance(node, ast.Compare) and len(node.ops) == 1:
            a, b = self._ev(node.left), self._ev(node.comparators[0])
            return compare_values(node.ops[0], a, b)
        if isinstance(node, ast.IfExp):
            c = self.decide(node.test)
            if c is True:
                return self._ev(node.body)
            if c is False:
                return self._ev(node.orelse)
            cv = self._ev(node.test)
            t = truth_of(cv)
            if t is not None:
                return self._ev(node.body if t else node.orelse)
            n0 = len(self.walker.frame.items)
            a, b = self._ev(node.body), self._ev(node.orelse)
            if len(self.walker.frame.items) != n0:
                raise Stuck(f"conditional expression with file effects at line {node.lineno}")
            if isinstance(cv, tuple):
                cv = Unknown("test on a tuple")
            return phi(cv, a, b)
        if isinstance(node, ast.Subscript):
            return self._subscript(node)
        if isinstance(node, ast.BinOp):
            a = self._ev(node.left)
            b = self._ev(node.right)
            if is_unknown(a) or is_unknown(b):
                return a if is_unknown(a) else b
            if isinstance(node.op, (ast.Add, ast.Sub, ast.Mult)):
                a, b = as_number(a), as_number(b)         # a truth value in arithmetic is 1 or 0
            if isinstance(node.op, ast.Add) and _plain(a) and _plain(b):
                r = _floor_plus_remainder(a, b) or _floor_plus_remainder(b, a)
                if r is not None:
                    return r
            r = self.walker._binop(node, a, b, self)
            if r is not NotImplemented:
                return r
            if isinstance(a, (tuple, DictValue)) or isinstance(b, (tuple, DictValue)):
                return Unknown(f"operator {type(node.op).__name__} on a literal sequence (line {node.lineno})")
            a, b = need(a), need(b)
            op = node.op
            if isinstance(op, ast.Add):
                return a + b
            if isinstance(op, ast.Sub):
                return a - b
            if isinstance(op, (ast.Mult, ast.MatMult)):
                return a * b
            if isinstance(op, ast.Pow) and b.is_const() and b.const_value().denominator == 1 and 0 <= b.const_value() <= 16:
                return a ** int(b.const_value())
            return Unknown(f"operator {type(op).__name__}")
        if isinstance(node, ast.NamedExpr):
            v = self._ev(node.value)
            self.walker.assign(node.target, v, node)
            return v
        if isinstance(node, ast.Lambda):
            # a function written in place: kept with the scope it was written in, entered when it is called
            key = "lambda:" + ast.unparse(node) + f"@{node.lineno}"
            self.walker.local_funcs[key] = _lambda_def(node)
            return F.sym(key)
        if isinstance(node, ast.Dict):
            if node.keys and all(k is not None for k in node.keys):
                keys = []
                for k in node.keys:
                    try:
                        kv = ast.literal_eval(k)
                        hash(kv)
                    except Exception:  # noqa
                        kv = K.conc(self._ev(k)) if not any(isinstance(x, ast.Call) for x in ast.walk(k)) else K.NOT
                        try:
                            hash(kv)
                        except TypeError:
                            kv = K.NOT
                    keys.append(kv)
                if not any(k is K.NOT for k in keys):
                    return DictValue({k: self.ev(v) for k, v in zip(keys, node.values)})      # a literal lookup table
            return F.sym("dict:" + ast.unparse(node))
        return super()._ev(node)


class Walker:
    def __init__(self, ctx, rel, cls, fn, env=None, cond=None, no_inline=(), extra_inline=(), files=(FILE,), small=None, follow=None,
                 indirect=None, pinned=None, force=None, top_name="T", sizes=None):
        self.ctx, self.rel, self.cls, self.fn = ctx, rel, cls, fn
        self.cond = cond
        self.force = force                   # value -> True / False / None: a rule decides tests it enumerates (one walk per case)
        self.sizes = sizes                   # c11_fmt.SizeModel: sizes that depend on the key width, in one form
        self.pinned = dict(pinned or {})
        self.files = list(files)
        self.no_inline = set(no_inline)
        self.extra_inline = set(extra_inline)
        self.indirect = indirect or {}       # {id(Call node) or local name: FunctionDef} calls through a local that holds a function
        self.follow = True if follow is None else follow
        self.small = {} if small is None else small
        self._int = M.int_binop(self.small)
        self.top = _Frame(F.sym(top_name))      # (a second name keeps two walks apart when values of one are substituted into the other)
        self.frames = [self.top]
        self.events = []          # (kind, payload..., node) in evaluation order: read / fromfile / unpack / call / return / line
        self.cutovers = []        # (if node, dtype value, bytes-per-value assumed, count, struct-arm events, fromfile-arm events)
        self.assumed = []         # text of the invariants used
        self.depth = 0
        self.stack = [fn]
        self.guard = ()
        self.returns = []         # (value, guard, node) of the walked function itself
        self._ret_stack = [self.returns]
        self._try_depth = 0       # open `try` bodies (a raise inside one may be caught: it is not the end of the function)
        self._breaks = []         # per open loop: environments at its `break` statements
        self.bound = {}           # id(followed FunctionDef) -> {parameter: value} of its (last) call
        self.spans = {}           # id(followed FunctionDef) -> (frame id, loops of that frame before the call, after the call)
        self._cells = []          # subscript stores of followed callees
        self.for_trips = []       # (frame of a `for`, its trip count) for the loops over range(n) / repeat(x, n)
        self.for_iters = []       # (frame of a `for`, value of what it iterates over, path condition, node) for the loops over a collection
        self.local_funcs = {}     # name of a function defined inside a walked function (or key of a lambda) -> FunctionDef
        self.all_inits = []       # (buffer name, creating value, statement)
        self.init_guards = {}     # id(statement) -> guard under which a buffer was (re)bound
        self.cell_guards = {}     # id(statement) -> guard under which a subscript store is made
        cache = ctx.__dict__.setdefault("_c11_tables_fx", {})
        if (rel, cls) not in cache:
            tb = _method_table(ctx, rel, cls)
            cache[(rel, cls)] = (tb, _file_effects(tb))
        self.table, self.effects = cache[(rel, cls)]
        self.foreign_base = class_lineage(ctx, rel, cls)[1] if cls else False
        env = dict(env or {})
        if sizes is not None:
            for k, v in sizes.env().items():
                env.setdefault(k, v)
        a = fn.args
        for x in a.posonlyargs + a.args + a.kwonlyargs + ([a.vararg] if a.vararg else []) + ([a.kwarg] if a.kwarg else []):
            if x.arg not in env and x.arg not in ("self", "cls"):
                env[x.arg] = F.sym(x.arg)
        self.ev = self._new_ev(fn, env)
        self.status = None

    # ------------------------------------------------------------------ plumbing
    def _new_ev(self, fn, env):
        ev = CEval(fn, self, src=self.ctx.src, cond=self.cond, binop=self._binop, env=env, pinned=self.pinned)
        ev.module_consts = module_table(self.ctx, self.rel)
        return ev

    @property
    def frame(self):
        return self.frames[-1]

    @property
    def all_cells(self):
        """(buffer, index value, stored value, statement) of every subscript store met, followed callees included"""
        return list(self._cells) + list(self.ev.cells)

    def emit(self, unit, n, node=None):
        if is_unknown(n):
            raise Stuck(f"consumption of unknown size ({n.why}) at line {getattr(node, 'lineno', '?')}")
        fr = self.frame
        fr.items.append((unit, need(n)))
        fr.off[unit] = fr.off[unit] + need(n)

    def is_file(self, v):
        return _plain(v) and any(v.equals(f) for f in self.files)

    def _binop(self, node, a, b, ev):
        op = node.op
        if is_unknown(a) or is_unknown(b):
            return NotImplemented
        r = K.fold_binop(op, a, b)          # text, bytes, literal sequences whose value is known: the operation itself
        if r is not None:
            return r
        if isinstance(a, tuple) or isinstance(b, tuple):
            if isinstance(op, ast.Add) and isinstance(a, tuple) and isinstance(b, tuple):
                return a + b
            if isinstance(op, ast.Mult) and (K.conc(a) is not K.NOT or K.conc(b) is not K.NOT):
                n, seq = (K.conc(a), b) if isinstance(b, tuple) else (K.conc(b), a)
                if isinstance(n, int) and isinstance(seq, tuple) and 0 <= n * len(seq) <= 512:
                    return seq * n
            if isinstance(op, ast.Mod) and _is_str(a) and isinstance(b, tuple):
                try:
                    return F.fn("fmt", need(a), F.fn("tuple", *[need(x) for x in b]))
                except Unsupported as e:
                    return Unknown(str(e))
            return NotImplemented
        if isinstance(a, DictValue) or isinstance(b, DictValue):
            return Unknown("operator on a table")

        if isinstance(op, ast.FloorDiv):
            try:
                a, b = need(a), need(b)
                if b.is_const() and b.const_value() == 65536:
                    # x // 65536 is x >> 16
                    r = self._int(ast.BinOp(left=node.left, op=ast.RShift(), right=node.right), self._split_words(a), F.const(16), ev)
                    if not is_unknown(r):
                        return r
                return floordiv(a, b)
            except Unsupported as e:
                return Unknown(str(e))
        if isinstance(op, ast.Div):
            # true division is not integer arithmetic: kept opaque (int(a / b) is a // b), so that it never passes for a // b
            a, b = need(a), need(b)
            if b.is_const() and not b.is_zero() and (a / b).d.is_const() and all(
                    c.denominator == 1 for c in (a / b).n.scale(1 / (a / b).d.const_value()).t.values()):
                return a / b
            return F.fn("truediv", a, b)
        if isinstance(op, ast.Mod):
            a, b = need(a), need(b)
            # (a bare name may hold a format text: `name % 2` stays an undetermined `mod`, read as a parity only when values are compared)
            numeric = not _is_str(a) and sym_name(a) is None
            if numeric and b.is_const() and b.const_value() == 2:
                return F.fn("odd", a)
            if numeric and b.is_const() and b.const_value() == 65536:
                # x % 65536 is x & 0xFFFF
                r = self._int(ast.BinOp(left=node.left, op=ast.BitAnd(), right=node.right), self._split_words(a), F.const(0xFFFF), ev)
                if not is_unknown(r):
                    return r
            return F.fn("fmt" if _is_str(a) else "mod", a, b)
        if isinstance(op, ast.Add) and (_is_str(a) or _is_str(b)):
            return F.fn("cat", need(a), need(b))
        if isinstance(op, (ast.RShift, ast.BitAnd)):
            a, b = need(a), need(b)
            if isinstance(op, ast.BitAnd) and b.is_const() and b.const_value() == 1:
                return F.fn("odd", a)
            wide = b.is_const() and b.const_value() == (16 if isinstance(op, ast.RShift) else 0xFFFF)
            r = self._int(node, self._split_words(a) if wide else a, b, ev)
            if is_unknown(r):
                # not a 16-bit split of a word: keep the operation opaque (a mask that keeps fewer bits than the field has
                # then simply differs from the expected low half)
                return F.fn("shr" if isinstance(op, ast.RShift) else "and", a, b)
            return r
        return self._int(node, a, b, ev)

    def _split_words(self, a):
        """W = hi16(W) * 65536 + lo16(W) for every opaque word W of a polynomial that is about to be shifted or masked"""
        if not a.d.is_const():
            return a
        res = F.const(0)
        for m, c in a.n.t.items():
            term = F.const(c / a.d.const_value())
            for x, e in m:
                d = F.atom_desc(x)
                at = F.Rat(F.Poly.atom(x))
                if e == 1 and len(m) == 1 and not (d[0] == "fn" and d[1] in ("hi16", "lo16")):
                    hi, lo = F.fn("hi16", at), F.fn("lo16", at)
                    self.small[repr(lo)] = 16
                    at = hi * 65536 + lo
                term = term * (at ** e)
            res = res + term
        return res

    # ------------------------------------------------------------------ statements
    def run_function(self):
        self.status = self.run(self.fn.body)
        return self

    def run(self, stmts):
        stmts = list(stmts)
        for i, st in enumerate(stmts):
            if isinstance(st, ast.If) and i + 1 < len(stmts) and self.ev.decide(st.test) is None:
                # early exit: `if c: ...; return` followed by the rest  ==  `if c: ... return  else: <the rest>` (and the mirrored form),
                # so that an arm written as an early return is compared with its sibling like any other arm
                new = None
                if not st.orelse and _always_exits(st.body):
                    new = ast.If(test=st.test, body=st.body, orelse=stmts[i + 1:])
                elif st.orelse and _always_exits(st.orelse) and not _always_exits(st.body):
                    new = ast.If(test=st.test, body=list(st.body) + stmts[i + 1:], orelse=st.orelse)
                if new is not None:
                    ast.copy_location(new, st)
                    return self.stmt(new)
            r = self.stmt(st)
            if r is not None:
                return r
        return None

    def sub_items(self, stmts):
        """run a statement list (or a callable) collecting its items separately: -> (items, result, offsets at its end)"""
        fr = self.frame
        keep_items, keep_off, keep_nopq = fr.items, dict(fr.off), fr.nopq
        fr.items = []
        try:
            status = stmts() if callable(stmts) else self.run(stmts)
            return fr.items, status, dict(fr.off)
        finally:
            fr.items, fr.off, fr.nopq = keep_items, keep_off, max(keep_nopq, fr.nopq)

    def stmt(self, st):
        ev = self.ev
        if isinstance(st, ast.Expr):
            if isinstance(st.value, ast.Constant):
                return None
            ev.ev(st.value)
            return None
        if isinstance(st, ast.Assign):
            v = ev.ev(st.value)
            for t in st.targets:
                self.assign(t, v, st)
            return None
        if isinstance(st, ast.AnnAssign):
            if st.value is not None:
                self.assign(st.target, ev.ev(st.value), st)
            return None
        if isinstance(st, ast.AugAssign):
            if isinstance(st.target, (ast.Name, ast.Attribute)) and not (isinstance(st.target, ast.Name) and st.target.id in ev.buffers):
                # x op= v  is  x = x op v
                load = ast.Name(id=st.target.id, ctx=ast.Load()) if isinstance(st.target, ast.Name) else \
                    ast.Attribute(value=st.target.value, attr=st.target.attr, ctx=ast.Load())
                expr = ast.BinOp(left=ast.copy_location(load, st.target), op=st.op, right=st.value)
                self.assign(st.target, ev.ev(ast.copy_location(expr, st)), st)
                return None
            ev.stmt(st)
            return None
        if isinstance(st, ast.If):
            return self._if(st)
        if isinstance(st, ast.While):
            return self._while_norm(st)
        if isinstance(st, ast.For):
            gen = self._for_over_generator(st)
            if gen is not None:
                return self.run(gen)
            new = self._for_as_while(st)
            if new is not None:
                r = self.run(new[0])
                return r if r is not None else self._while_norm(new[1], orig=st)
            return self._for(st)
        if hasattr(ast, "Match") and isinstance(st, ast.Match):
            return self.run(self._match_as_ifs(st))
        if isinstance(st, ast.With):
            for it in st.items:
                v = ev.ev(it.context_expr)
                if it.optional_vars is not None:
                    self.assign(it.optional_vars, v, st)
            return self.run(st.body)
        if isinstance(st, ast.Try):
            self._try_depth += 1
            try:
                r = self.run(st.body)
            finally:
                self._try_depth -= 1
            for h in st.handlers:
                if h.name:
                    ev.env[h.name] = F.sym("exception:" + h.name)
                items, _s, _o = self.sub_items(h.body)
                if tidy(items):
                    raise Stuck(f"file consumption inside an exception handler (line {st.lineno})")
            if r is None:
                r = self.run(st.orelse)
            r2 = self.run(st.finalbody)
            return r2 if r2 is not None else r
        if isinstance(st, ast.Return):
            v = ev.ev(st.value) if st.value is not None else F.sym("None")
            self._ret_stack[-1].append((v, self.guard, st))
            if self.depth == 0:
                self.events.append(("return", v, self.guard, st))
                self.frame.items.append(("exit", "return"))
            return "return"
        if isinstance(st, ast.Raise):
            self.frame.items.append(("exit", "raise"))
            if self.depth > 0 and not self._try_depth:
                # a followed callee that raises here returns nothing: the code after the call runs only on the paths that return
                self._ret_stack[-1].append((NEVER, self.guard, st))
            return "raise"
        if isinstance(st, ast.Break):
            self.frame.items.append(("exit", "break"))
            if self._breaks:
                self._breaks[-1].append(dict(self.ev.env))
            return "break"
        if isinstance(st, ast.Continue):
            self.frame.items.append(("exit", "continue"))
            return "continue"
        if isinstance(st, ast.FunctionDef):
            # a local helper: entered where it is called, seeing the locals of the function it is defined in
            key = f"local:{st.name}@{st.lineno}"
            self.local_funcs[key] = st
            ev.env[st.name] = F.sym(key)
            return None
        if isinstance(st, (ast.Import, ast.ImportFrom)):
            for al in st.names:
                nm = (al.asname or al.name).split(".")[0]
                ev.env.setdefault(nm, F.sym(nm))
            return None
        if isinstance(st, ast.ClassDef):
            ev.env.setdefault(st.name, F.sym(st.name))
            return None
        if isinstance(st, (ast.Pass, ast.Assert, ast.Global, ast.Nonlocal, ast.Delete)):
            return None
        raise Stuck(f"statement {type(st).__name__} at line {st.lineno}")

    def never_bound(self, name):
        """a name read where nothing can have bound it: a local of the function being evaluated (it is assigned somewhere in it, so Python
        treats it as local) that no path to this point has bound, or a name that neither the enclosing functions, nor the module, nor the
        builtins define"""
        if name.startswith("<") or name in ("self", "cls", "__class__"):
            return False
        cache = self.ctx.__dict__.setdefault("_c11_scopes", {})
        for f in reversed(self.stack):
            k = id(f)
            if k not in cache:
                a = f.args
                params = {x.arg for x in a.posonlyargs + a.args + a.kwonlyargs + ([a.vararg] if a.vararg else []) + ([a.kwarg] if a.kwarg else [])}
                stored, declared = set(), set()
                for st in f.body:
                    for n in _own_function_nodes(st):
                        if isinstance(n, ast.Name) and isinstance(n.ctx, (ast.Store, ast.Del)):
                            stored.add(n.id)
                        elif isinstance(n, (ast.Global, ast.Nonlocal)):
                            declared.update(n.names)
                        elif isinstance(n, (ast.FunctionDef, ast.AsyncFunctionDef, ast.ClassDef)):
                            stored.add(n.name)
                        elif isinstance(n, (ast.Import, ast.ImportFrom)):
                            stored.update((al.asname or al.name).split(".")[0] for al in n.names)
                        elif isinstance(n, ast.ExceptHandler) and n.name:
                            stored.add(n.name)
                        elif hasattr(ast, "MatchAs") and isinstance(n, (ast.MatchAs, ast.MatchStar)) and n.name:
                            stored.add(n.name)
                        elif hasattr(ast, "MatchMapping") and isinstance(n, ast.MatchMapping) and n.rest:
                            stored.add(n.rest)
                # nested functions see the locals of this one too: their own stores do not make a name local here
                cache[k] = (params, stored - declared, declared)
            params, stored, declared = cache[k]
            if name in params:
                return False
            if name in declared:
                return False
            if name in stored:
                return True
            if not (f.name == "<lambda>" or any(f is g for g in self.local_funcs.values())):
                break             # (a method does not see the locals of its caller: only a function written inside another one does)
        m = self.ctx.src.mod(self.rel)
        mk = ("module", self.rel)
        if mk not in cache:
            names, star = set(), False
            for n in ast.walk(m.tree):
                if isinstance(n, ast.ImportFrom) and any(al.name == "*" for al in n.names):
                    star = True
            for st in m.tree.body:
                for n in ast.walk(st) if not isinstance(st, (ast.FunctionDef, ast.AsyncFunctionDef, ast.ClassDef)) else [st]:
                    if isinstance(n, ast.Name) and isinstance(n.ctx, ast.Store):
                        names.add(n.id)
                    elif isinstance(n, (ast.FunctionDef, ast.AsyncFunctionDef, ast.ClassDef)):
                        names.add(n.name)
                    elif isinstance(n, (ast.Import, ast.ImportFrom)):
                        names.update((al.asname or al.name).split(".")[0] for al in n.names)
            for n in ast.walk(m.tree):
                if isinstance(n, ast.Global):
                    names.update(n.names)
            cache[mk] = (names, star)
        names, star = cache[mk]
        import builtins
        return not star and name not in names and not hasattr(builtins, name)

    def comp_with_effects(self, node):
        """a comprehension whose element (or filter) reads the file is the loop it abbreviates: [f.readline() for _ in range(n)] consumes n lines
        (its value: those n lines, like islice(f, n)); the value of any other such comprehension is not modelled"""
        body = [ast.Expr(value=node.elt)]
        for g in reversed(node.generators):
            if g.is_async:
                raise Stuck(f"asynchronous comprehension at line {node.lineno}")
            for c in reversed(g.ifs):
                body = [ast.If(test=c, body=body, orelse=[])]
            body = [ast.For(target=g.target, iter=g.iter, body=body, orelse=[], type_comment=None)]
        loop = body[0]
        for x in ast.walk(loop):
            if not hasattr(x, "lineno"):
                ast.copy_location(x, node)
        ast.fix_missing_locations(ast.copy_location(loop, node))
        value = Unknown(f"the values collected by a comprehension that reads the file (line {node.lineno})")
        g = node.generators[0]
        elt = node.elt
        if len(node.generators) == 1 and not g.ifs and isinstance(elt, ast.Call) and isinstance(elt.func, ast.Attribute) and elt.func.attr == "readline" \
                and not elt.args and not elt.keywords and not any(isinstance(n, ast.Name) and n.id in {t.id for t in ast.walk(g.target) if isinstance(t, ast.Name)}
                                                                  for n in ast.walk(elt)):
            n = self._trip_count(g.iter)
            recv = self.ev.ev(elt.func.value) if isinstance(elt.func.value, (ast.Name, ast.Attribute)) else None
            if n is not None and _plain(n) and self.is_file(recv):
                fr = self.frame
                value = F.fn("lns", fr.id, fr.off["L"], need(n))
        keep = {t.id: self.ev.env.get(t.id) for gg in node.generators for t in ast.walk(gg.target) if isinstance(t, ast.Name)}
        try:
            r = self.stmt(loop)
        finally:
            for k, v in keep.items():          # the loop variable of a comprehension is its own
                if v is None:
                    self.ev.env.pop(k, None)
                else:
                    self.ev.env[k] = v
        if r is not None:
            raise Stuck(f"comprehension at line {node.lineno} leaves its function")
        return value

    def assign(self, target, v, st):
        ev = self.ev
        if isinstance(target, (ast.Tuple, ast.List)) and _plain(v):
            v = as_sequence(v, records=True)
            known = K.conc(v) if _plain(v) else K.NOT
            if isinstance(known, (str, bytes)) and len(known) == len(target.elts) and not any(isinstance(t, ast.Starred) for t in target.elts):
                v = K.lift(tuple(known[i:i + 1] if isinstance(known, str) else known[i] for i in range(len(known))))       # a text unpacks into its characters
        if isinstance(target, (ast.Tuple, ast.List)) and not isinstance(v, tuple) and not is_unknown(v) and v is not None:
            p = fn_parts(v)
            if p is not None and p[0] == "dec" and not any(isinstance(t, ast.Starred) for t in target.elts):
                self.events.append(("decunpack", v, len(target.elts), st))
            for i, t in enumerate(target.elts):
                if isinstance(t, ast.Starred):
                    self.assign(t.value, Unknown("starred target"), st)
                else:
                    self.assign(t, F.fn("idx", need(v), F.const(i)), st)
            return
        if isinstance(target, (ast.Tuple, ast.List)) and isinstance(v, tuple) and len(v) == len(target.elts):
            for t, x in zip(target.elts, v):
                self.assign(t, x, st)
            return
        ev._assign(target, v, st)

    # ---- if
    def decide_value(self, cv):
        """truth of a test value: decided by constants, or by the rule's case oracle"""
        if cv is None or is_unknown(cv) or isinstance(cv, tuple):
            return None
        t = truth_of(cv)
        if t is None and self.force is not None:
            t = self.force(cv)
        return t

    def _if(self, st):
        ev = self.ev
        c = ev.decide(st.test)
        if c is True:
            return self.run(st.body)
        if c is False:
            return self.run(st.orelse)
        cv = ev.ev(st.test)
        if isinstance(cv, tuple):
            cv = F.const(1 if cv else 0)        # a literal sequence is true unless it is empty
        nar = _none_narrowing(st.test)

        def arm(stmts, not_none):
            def run():
                if nar is not None and nar[1] == not_none and nar[0] in self.ev.env:
                    # on this arm the tested local is not None: the selections that would make it None are not taken
                    paths = none_paths(self.ev.env[nar[0]])
                    self.ev.env[nar[0]] = as_sequence(without_none(self.ev.env[nar[0]]))
                    if paths:
                        # ... and a local that is bound on all the other paths is bound here
                        for k in [k for k in self.ev.env if k.startswith(_PARTIAL)]:
                            v = prune_paths(self.ev.env[k], paths)
                            if _plain(v) and not _mentions_atom(v, F._intern(("s", "<unbound>"))):
                                self.ev.env[k[len(_PARTIAL):]] = v
                                del self.ev.env[k]
                return self.run(stmts), None
            return run
        status, _v = self._branch(cv, arm(st.body, True), arm(st.orelse, False), st)
        return status

    def _branch(self, cv, run_a, run_b, st):
        """two-way fork on the value cv; run_x() -> (exit status, value).  Returns (exit status, value)"""
        ev = self.ev
        t = self.decide_value(cv)
        if t is not None:
            return run_a() if t else run_b()
        env0 = dict(ev.env)
        e0 = len(self.events)
        g0 = self.guard
        fr = self.frame
        self.guard = g0 + ((cv, True),)
        itA, (stA, vA), offA = self.sub_items(run_a)
        envA = self.ev.env
        e1 = len(self.events)
        self.ev.env = dict(env0)
        self.guard = g0 + ((cv, False),)
        itB, (stB, vB), offB = self.sub_items(run_b)
        envB = self.ev.env
        e2 = len(self.events)
        self.guard = g0
        # ---- consumption
        tA, tB = tidy(itA), tidy(itB)
        merged = None
        if not loops_in(tA) and not loops_in(tB) and same_items(tA, tB):
            merged = itA                       # (arms that loop stay apart: the rules look at every loop)
        else:
            merged = self._cutover(st, cv, tA, tB, self.events[e0:e1], self.events[e1:e2])
        if merged is not None:
            fr.items.extend(merged)
            for it in tidy(merged):
                if it[0] in ("B", "L"):
                    fr.off[it[0]] = fr.off[it[0]] + it[1]
                elif it[0] in ("loop", "if", "abs"):
                    fr.opaque()
        else:
            if is_unknown(cv):
                raise Stuck(f"branches that consume differently under a test that cannot be lowered ({cv.why}) at line {getattr(st, 'lineno', '?')}")
            fr.items.append(("if", need(cv), itA, itB))
            if stA is None and stB is None:
                fr.opaque()
            elif stA is None:
                self._advance(fr, tA)
            elif stB is None:
                self._advance(fr, tB)
        # ---- state
        ev = self.ev
        if stA is not None and stB is not None:
            # nothing follows in this statement list; what the locals / attributes hold where the function is left normally is still
            # asked for (attributes set by a followed set-up method, the format tables): an arm that raises does not get there
            if stA == "raise" and stB != "raise":
                ev.env = envB
            elif stB == "raise" and stA != "raise":
                ev.env = envA
            else:
                ev.env = _merge_envs(cv, envA, envB)
            return (stA if stA == stB else "mixed"), None
        if stA is not None:
            ev.env = envB
            self.guard = g0 + ((cv, False),)
            return None, vB
        if stB is not None:
            ev.env = envA
            self.guard = g0 + ((cv, True),)
            return None, vA
        ev.env = _merge_envs(cv, envA, envB)
        return None, (None if vA is None and vB is None else phi(cv, vA, vB))

    def _advance(self, fr, titems):
        for it in titems:
            if it[0] in ("B", "L"):
                fr.off[it[0]] = fr.off[it[0]] + it[1]
            elif it[0] in ("loop", "if", "abs"):
                fr.opaque()

    def _cutover(self, st, cv, tA, tB, evA, evB):
        """`if n < cutoff: struct.unpack(fmt % n, f.read(nbytes)) else: np.fromfile(f, dtype, n)`: merged under the recorded assumption
        itemsize(dtype) == nbytes / n"""
        def kind(evs):
            ff = [e for e in evs if e[0] == "fromfile"]
            un = [e for e in evs if e[0] == "unpack"]
            rd = [e for e in evs if e[0] == "read"]
            if len(ff) == 1 and not un and not rd:
                return "ff"
            if len(un) == 1 and len(rd) == 1 and not ff:
                return "un"
            return None
        kA, kB = kind(evA), kind(evB)
        if {kA, kB} != {"ff", "un"}:
            return None
        (sA, sE), (fA, fE) = ((tA, evA), (tB, evB)) if kA == "un" else ((tB, evB), (tA, evA))
        if len(sA) != 1 or len(fA) != 1 or sA[0][0] != "B" or fA[0][0] != "B":
            return None
        ff = [e for e in fE if e[0] == "fromfile"][0]
        un = [e for e in sE if e[0] == "unpack"][0]
        rd = [e for e in sE if e[0] == "read"][0]
        self.cutovers.append({"node": st, "test": cv, "frame": self.frame.id, "fr": self.frame, "dtype": ff[1], "count_ff": ff[2], "nbytes": rd[2], "fmt": un[1], "data": un[2],
                              "read": rd[1], "unpack_node": un[3], "fromfile_node": ff[3], "struct_first": kA == "un", "depth": self.depth,
                              "function": self.stack[-1].name})
        return [("B", rd[2])]

    # ---- loops
    def _placeholders(self, st, frame_id):
        ev = self.ev
        names = []
        for n in ast.walk(st):
            tg = []
            if isinstance(n, ast.Assign):
                tg = n.targets
            elif isinstance(n, (ast.AugAssign, ast.AnnAssign)):
                tg = [n.target]
            elif isinstance(n, ast.For):
                tg = [n.target]
            elif isinstance(n, ast.With):
                tg = [i.optional_vars for i in n.items if i.optional_vars is not None]
            elif isinstance(n, ast.NamedExpr):
                tg = [n.target]
            for t in tg:
                for x in ast.walk(t):
                    nm = None
                    if isinstance(x, ast.Name) and isinstance(x.ctx, ast.Store):
                        nm = x.id
                    elif isinstance(x, ast.Attribute) and isinstance(x.ctx, ast.Store):
                        nm = dotted(x)
                    if nm and nm not in names and nm not in ev.buffers:
                        names.append(nm)
        ph = {}
        seen = {}
        for nm in names:
            e = ev.env.get(nm)
            if e is None or is_unknown(e):
                ph[nm] = Unknown(f"`{nm}` is not bound when the loop at line {st.lineno} is entered") if e is None else e
                continue
            if isinstance(e, DictValue):
                ph[nm] = Unknown(f"`{nm}` is a lookup table rebound inside the loop at line {st.lineno}")
                continue
            if isinstance(e, tuple):
                try:
                    e = F.fn("tuple", *[need(x) for x in e])
                except Unsupported as ex:
                    ph[nm] = Unknown(str(ex))
                    continue
            k = akey(e)
            seen[k] = seen.get(k, 0) + 1
            ph[nm] = F.fn("lv", frame_id, e) if seen[k] == 1 else F.fn("lv", frame_id, e, F.const(seen[k]))
        return ph

    # a loop written `while True:` with one way out is the loop its exit test makes it:
    #   while True: if c: break; B            ==  while not c: B
    #   while True: A; if c: break; <silent>  ==  do A ... while not c      (tested at the end: the first iteration is unconditional)
    #   while True: A; if c: break; B         ==  A; while not c: B; A      (rotated: the test is the loop's test, A its preparation)
    def _silent(self, stmts):
        """statements that neither consume from the file nor leave the loop"""
        safe = {"len", "int", "float", "str", "abs", "min", "max", "range", "print", "bool", "list", "tuple", "dict", "set", "sorted", "repr",
                "isinstance", "divmod", "round", "sum", "any", "all", "zip", "enumerate", "slice", "bytes", "chr", "ord"}
        for st in stmts:
            for n in ast.walk(st):
                if isinstance(n, (ast.Break, ast.Continue, ast.Return, ast.Raise, ast.While, ast.For, ast.With, ast.Try, ast.Yield, ast.YieldFrom, ast.Await)):
                    return False
                if isinstance(n, ast.Call):
                    d = dotted(n.func)
                    if isinstance(n.func, ast.Attribute):
                        if n.func.attr in _FILE_METHODS or n.func.attr in ("fromfile", "islice", "unpack", "tell"):
                            return False
                        if d in self.table and (self.table[d] in self.effects or d in self.no_inline):
                            return False
                    elif isinstance(n.func, ast.Name):
                        if n.func.id in self.table:
                            if self.table[n.func.id] in self.effects:
                                return False
                        elif n.func.id not in safe:
                            return False
                    else:
                        return False
        return True

    def _plan_while(self, st):
        if st.orelse or not (isinstance(st.test, ast.Constant) and bool(st.test.value) is True):
            return None
        exits = _loop_exits(st.body)
        if len(exits) != 1:
            return None
        for i, x in enumerate(st.body):
            if not isinstance(x, ast.If):
                continue
            arms = [(x.body, x.orelse, False), (x.orelse, x.body, True)]
            for arm, other, negated in arms:
                if not arm or arm[-1] is not exits[0]:
                    continue
                if any(isinstance(n, (ast.Break, ast.Continue, ast.Return, ast.Raise)) for y in arm[:-1] for n in ast.walk(y)):
                    return None
                s1, s2 = list(st.body[:i]), list(other) + list(st.body[i + 1:])
                if _has_continue(s1) or any(isinstance(n, (ast.Break,)) for y in s1 for n in _own_level(y)):
                    return None
                cond = x.test if negated else ast.UnaryOp(op=ast.Not(), operand=x.test)       # the condition under which the loop goes on
                ast.copy_location(cond, x.test)
                after = list(arm[:-1]) + ([] if isinstance(arm[-1], ast.Break) else [arm[-1]])
                if not s1 and not s2:
                    return None
                if not s1:
                    return ("top", cond, s2, after)
                reads = {n.id for n in ast.walk(x.test) if isinstance(n, ast.Name)} | {dotted(n) for n in ast.walk(x.test) if isinstance(n, ast.Attribute)}
                writes = set()
                for y in s2:
                    for n in ast.walk(y):
                        if isinstance(n, (ast.Name, ast.Attribute)) and isinstance(n.ctx, ast.Store):
                            writes.add(n.id if isinstance(n, ast.Name) else dotted(n))
                if self._silent(s2) and not (reads & writes):
                    return ("dowhile", cond, s1, s2, after)
                if _has_continue(s2):
                    return None
                return ("rotate", cond, s1, s2, after)
        return None

    def _effectful(self, node):
        """an expression whose evaluation reads the file or binds a name (a call of a file method / of a function that touches the file,
        a walrus)"""
        for n in ast.walk(node):
            if isinstance(n, ast.NamedExpr):
                return True
            if isinstance(n, ast.Call):
                d = dotted(n.func)
                if isinstance(n.func, ast.Attribute) and (n.func.attr in _FILE_METHODS or n.func.attr in ("fromfile", "islice")):
                    return True
                if d in self.table and self.table[d] in self.effects:
                    return True
                if isinstance(n.func, ast.Name) and n.func.id in self.ev.env and self._bound_method(self.ev.env[n.func.id]) is not None:
                    return True
        return False

    def _lift_test(self, test, st):
        """the reads and bindings of a test, taken out of it: -> (statements that make them, the rest of the test)"""
        pre = []

        def lift(node, sure):
            """replace the effectful sub-expressions of a test by the names they are bound to; `sure`: evaluated on every evaluation of the test"""
            if isinstance(node, ast.NamedExpr):
                if not sure or not isinstance(node.target, ast.Name):
                    raise Stuck(f"test at line {st.lineno} binds a name conditionally")
                val = lift(node.value, sure)
                pre.append(ast.copy_location(ast.Assign(targets=[ast.Name(id=node.target.id, ctx=ast.Store())], value=val), node))
                return ast.copy_location(ast.Name(id=node.target.id, ctx=ast.Load()), node)
            if isinstance(node, ast.Call) and self._effectful(node) and not any(self._effectful(a) for a in list(node.args) + [k.value for k in node.keywords]):
                if not sure:
                    raise Stuck(f"test at line {st.lineno} reads the file conditionally")
                self._ntest = getattr(self, "_ntest", 0) + 1
                nm = f"<test {self._ntest}>"
                pre.append(ast.copy_location(ast.Assign(targets=[ast.Name(id=nm, ctx=ast.Store())], value=node), node))
                return ast.copy_location(ast.Name(id=nm, ctx=ast.Load()), node)
            if not self._effectful(node):
                return node
            if isinstance(node, ast.Compare):
                new = ast.Compare(left=lift(node.left, sure), ops=node.ops, comparators=[lift(c, sure and i == 0) for i, c in enumerate(node.comparators)])
            elif isinstance(node, ast.UnaryOp):
                new = ast.UnaryOp(op=node.op, operand=lift(node.operand, sure))
            elif isinstance(node, ast.BinOp):
                new = ast.BinOp(left=lift(node.left, sure), op=node.op, right=lift(node.right, sure))
            elif isinstance(node, ast.BoolOp):
                new = ast.BoolOp(op=node.op, values=[lift(v, sure and i == 0) for i, v in enumerate(node.values)])
            elif isinstance(node, ast.Subscript):
                new = ast.Subscript(value=lift(node.value, sure), slice=lift(node.slice, sure), ctx=node.ctx)
            elif isinstance(node, ast.Call):
                new = ast.Call(func=node.func, args=[lift(a, sure) for a in node.args], keywords=node.keywords)
            else:
                raise Stuck(f"test at line {st.lineno} reads the file in a {type(node).__name__}")
            return ast.copy_location(new, node)
        return pre, lift(test, True)

    def _hoist_test(self, st):
        """`while <test that reads / binds>: B`  ==  `while True: <the reads and bindings of the test>; if not <rest of the test>: break; B`"""
        if st.orelse or not self._effectful(st.test):
            return None
        pre, test = self._lift_test(st.test, st)
        stop = ast.If(test=ast.UnaryOp(op=ast.Not(), operand=test), body=[ast.Break()], orelse=[])
        new = ast.While(test=ast.Constant(value=True), body=pre + [stop] + list(st.body), orelse=[])
        for x in ast.walk(new):
            if not hasattr(x, "lineno"):
                ast.copy_location(x, st)
        ast.copy_location(new, st)
        return ast.fix_missing_locations(new)

    def _hoist_exit_tests(self, st):
        """`while True: ...; if <test that reads / binds>: break`: the reads and bindings of an exit test become statements of the body, so
        that the test of the loop in its normal form is a test on values"""
        if st.orelse or not (isinstance(st.test, ast.Constant) and bool(st.test.value) is True):
            return None
        body, changed = [], False
        for x in st.body:
            if isinstance(x, ast.If) and self._effectful(x.test) and any(isinstance(n, (ast.Break, ast.Return, ast.Raise)) for n in _own_level(x)):
                pre, test = self._lift_test(x.test, x)
                body.extend(pre)
                body.append(ast.copy_location(ast.If(test=test, body=x.body, orelse=x.orelse), x))
                changed = True
            else:
                body.append(x)
        if not changed:
            return None
        new = ast.While(test=st.test, body=body, orelse=[])
        for x in ast.walk(new):
            if not hasattr(x, "lineno"):
                ast.copy_location(x, st)
        ast.copy_location(new, st)
        return ast.fix_missing_locations(new)

    def _while_norm(self, st, orig=None):
        orig = orig or st
        hoisted = self._hoist_test(st)
        if hoisted is not None:
            st = hoisted
        hoisted = self._hoist_exit_tests(st)
        if hoisted is not None:
            st = hoisted
        folded = _fold_continue(list(st.body))
        if folded is not None and not st.orelse:
            st = ast.fix_missing_locations(ast.copy_location(ast.While(test=st.test, body=folded or [ast.copy_location(ast.Pass(), st)], orelse=[]), st))
        plan = self._plan_while(st)
        if plan is None:
            return self._while(st, orig=orig)

        def loop(test, body):
            new = ast.While(test=test, body=body or [ast.copy_location(ast.Pass(), st)], orelse=[])
            ast.copy_location(new, st)
            return new
        if plan[0] == "top":
            _k, cond, s2, after = plan
            self._while(loop(cond, s2), orig=orig)
        elif plan[0] == "dowhile":
            _k, cond, s1, s2, after = plan
            self._while(loop(cond, s1 + s2), orig=orig, forced=True, split=len(s1))
        else:
            _k, cond, s1, s2, after = plan
            r = self.run(s1)
            if r is not None:
                return r
            self._while(loop(cond, s2 + s1), orig=orig)
        return self.run(after)

    def _match_as_ifs(self, st):
        """`match subject: case P [if g]: B ...` over literal, `|`, capture and wildcard patterns as the if / elif chain it abbreviates"""
        self._ntmp = getattr(self, "_ntmp", 0) + 1
        subj = f"<subject {self._ntmp}>"
        load = lambda: ast.Name(id=subj, ctx=ast.Load())   # noqa

        def test_of(p):
            """(test expression or None when the pattern always matches, name captured or None)"""
            if isinstance(p, ast.MatchValue):
                return ast.Compare(left=load(), ops=[ast.Eq()], comparators=[p.value]), None
            if isinstance(p, ast.MatchSingleton):
                return ast.Compare(left=load(), ops=[ast.Is()], comparators=[ast.Constant(value=p.value)]), None
            if isinstance(p, ast.MatchOr):
                parts = [test_of(q) for q in p.patterns]
                if any(nm is not None for _t, nm in parts):
                    raise Stuck(f"`match` alternative that binds a name at line {st.lineno}")
                if any(t is None for t, _nm in parts):
                    return None, None
                return ast.BoolOp(op=ast.Or(), values=[t for t, _nm in parts]), None
            if isinstance(p, ast.MatchAs):
                if p.pattern is None:
                    return None, p.name
                t, nm = test_of(p.pattern)
                if nm is not None:
                    raise Stuck(f"nested capture in a `match` pattern at line {st.lineno}")
                return t, p.name
            raise Stuck(f"`match` pattern {type(p).__name__} at line {st.lineno}")

        def build(cases):
            if not cases:
                return []
            c = cases[0]
            t, nm = test_of(c.pattern)
            bind = [ast.Assign(targets=[ast.Name(id=nm, ctx=ast.Store())], value=load())] if nm is not None else []
            rest = build(cases[1:])
            if t is None:
                # the pattern always matches: the name is bound, then the guard decides
                if c.guard is None:
                    return bind + list(c.body)
                return bind + [ast.If(test=c.guard, body=list(c.body), orelse=rest)]
            if c.guard is None:
                return [ast.If(test=t, body=bind + list(c.body), orelse=rest)]
            if nm is not None:
                raise Stuck(f"`match` case with a refutable pattern, a capture and a guard at line {st.lineno}")
            return [ast.If(test=ast.BoolOp(op=ast.And(), values=[t, c.guard]), body=list(c.body), orelse=rest)]
        out = [ast.Assign(targets=[ast.Name(id=subj, ctx=ast.Store())], value=st.subject)] + build(list(st.cases))
        for s_ in out:
            for x in ast.walk(s_):
                if not hasattr(x, "lineno"):
                    ast.copy_location(x, st)
            ast.fix_missing_locations(s_)
        return out

    def _for_over_generator(self, st):
        """`for x in self.gen(a): B` over a generator function of the class that touches the file: the body of the generator with every
        `yield v` replaced by `x = v; B` (its locals renamed apart) -> the statements to run, or None"""
        it_ = st.iter
        if st.orelse or not isinstance(it_, ast.Call):
            return None
        name = dotted(it_.func)
        f2 = self.table.get(name) if name else None
        local = False
        if f2 is None and isinstance(it_.func, ast.Name) and it_.func.id in self.ev.env:
            fv = self.ev.env[it_.func.id]
            f2 = self.local_funcs.get(sym_name(fv)) if _plain(fv) else None      # a generator function defined inside the walked function
            local = f2 is not None
        if f2 is None or (not local and not self.followable(name, f2)) or f2 in self.stack:
            return None
        own = [n for s_ in f2.body for n in _own_function_nodes(s_)]
        yields = [n for n in own if isinstance(n, (ast.Yield, ast.YieldFrom))]
        if not yields:
            return None
        where = f"line {st.lineno}"
        if any(isinstance(n, (ast.YieldFrom, ast.Return)) for n in own):
            raise Stuck(f"{name} is a generator with `yield from` / `return`: its body runs interleaved with its caller ({where})")
        if any(isinstance(n, (ast.Break, ast.Continue, ast.Return)) for s_ in st.body for n in _own_level(s_)):
            raise Stuck(f"the loop over the generator {name} is left / cut short by its body ({where})")
        import copy
        a = f2.args
        params = [x.arg for x in a.posonlyargs + a.args]
        if params and params[0] in ("self", "cls") and not local:
            params = params[1:]
        if a.vararg or a.kwonlyargs or any(isinstance(x, ast.Starred) for x in it_.args) or any(k.arg is None for k in it_.keywords) \
                or len(it_.args) > len(params) or (a.kwarg is None and any(k.arg not in params for k in it_.keywords)):
            raise Stuck(f"call of the generator {name} with a signature that cannot be bound ({where})")
        self._ngen = getattr(self, "_ngen", 0) + 1
        tag = f"@gen{self._ngen}"
        local = set(params)
        if a.kwarg is not None:
            local.add(a.kwarg.arg)
        for n in own:
            if isinstance(n, ast.Name) and isinstance(n.ctx, ast.Store):
                local.add(n.id)

        class Rename(ast.NodeTransformer):
            def visit_Name(self, n):
                return ast.copy_location(ast.Name(id=n.id + tag, ctx=n.ctx), n) if n.id in local else n

            def visit_FunctionDef(self, n):
                return n

            def visit_Lambda(self, n):
                return n
        body = [Rename().visit(copy.deepcopy(s_)) for s_ in f2.body]
        count = [0]
        consumer = st.body
        target = st.target

        def expand(stmts):
            out = []
            for s_ in stmts:
                if isinstance(s_, ast.Expr) and isinstance(s_.value, ast.Yield):
                    v = s_.value.value if s_.value.value is not None else ast.Constant(value=None)
                    count[0] += 1
                    out.append(ast.copy_location(ast.Assign(targets=[copy.deepcopy(target) if count[0] > 1 else target], value=v), s_))
                    out.extend(copy.deepcopy(consumer) if count[0] > 1 else consumer)
                    continue
                if any(isinstance(n, ast.Yield) for n in _own_function_nodes(s_)):
                    if isinstance(s_, (ast.If, ast.While, ast.For, ast.With, ast.Try)):
                        s_ = copy.copy(s_)
                        for fld in ("body", "orelse", "finalbody"):
                            if getattr(s_, fld, None):
                                setattr(s_, fld, expand(getattr(s_, fld)))
                        if isinstance(s_, ast.Try) and any(any(isinstance(n, ast.Yield) for y in h.body for n in _own_function_nodes(y)) for h in s_.handlers):
                            raise Stuck(f"{name} yields inside an exception handler ({where})")
                        if isinstance(s_, (ast.While, ast.For)) and any(isinstance(n, ast.Yield) for n in ast.walk(s_.test if isinstance(s_, ast.While) else s_.iter)):
                            raise Stuck(f"{name} yields inside a loop header ({where})")
                        out.append(s_)
                        continue
                    raise Stuck(f"{name} uses the value of a `yield` ({where})")
                out.append(s_)
            return out
        body = expand(body)
        if count[0] == 0:
            raise Stuck(f"{name}: no `yield` statement found ({where})")
        # bind the parameters (defaults included)
        pre = []
        dflt = dict(zip(params[::-1], (a.defaults or [])[::-1]))
        given = dict(zip(params, it_.args))
        given.update({k.arg: k.value for k in it_.keywords if k.arg in params})
        for p_ in params:
            v = given.get(p_, dflt.get(p_))
            if v is None:
                raise Stuck(f"call of the generator {name}: parameter {p_} not bound ({where})")
            pre.append(ast.Assign(targets=[ast.Name(id=p_ + tag, ctx=ast.Store())], value=v))
        if a.kwarg is not None:
            # `**kwargs`: the keywords that are not parameters, as the literal table they form
            more = [k for k in it_.keywords if k.arg not in params]
            pre.append(ast.Assign(targets=[ast.Name(id=a.kwarg.arg + tag, ctx=ast.Store())],
                                  value=ast.Dict(keys=[ast.Constant(value=k.arg) for k in more], values=[k.value for k in more])))
        out = pre + body
        for s_ in out:
            for x in ast.walk(s_):
                if not hasattr(x, "lineno"):
                    ast.copy_location(x, st)
            ast.fix_missing_locations(s_)
        self.events.append(("enter", f2, self.guard, self.depth, st))
        return out

    def _for_as_while(self, st):
        """`for v in itertools.count(a, b)` and `for v in iter(f, sentinel)` as the `while True` loops they abbreviate: -> (statements before, loop)"""
        it_ = st.iter
        if st.orelse or not isinstance(it_, ast.Call) or it_.keywords:
            return None
        d = dotted(it_.func) or ""

        def at(n):
            for x in ast.walk(n):
                if not hasattr(x, "lineno"):
                    ast.copy_location(x, st)
            ast.copy_location(n, st)
            return ast.fix_missing_locations(n)
        true = ast.Constant(value=True)
        if d.split(".")[-1] == "count" and d.split(".")[0] in ("it", "itertools", "count") and len(it_.args) <= 2 and isinstance(st.target, ast.Name) \
                and not _has_continue(st.body) and not any(isinstance(a, ast.Starred) for a in it_.args):
            start = it_.args[0] if it_.args else ast.Constant(value=0)
            step = it_.args[1] if len(it_.args) > 1 else ast.Constant(value=1)
            init = at(ast.Assign(targets=[ast.Name(id=st.target.id, ctx=ast.Store())], value=start))
            inc = at(ast.AugAssign(target=ast.Name(id=st.target.id, ctx=ast.Store()), op=ast.Add(), value=step))
            return [init], at(ast.While(test=true, body=list(st.body) + [inc], orelse=[]))
        if d == "iter" and len(it_.args) == 2 and not any(isinstance(a, ast.Starred) for a in it_.args):
            tmp = "<next>"
            get = at(ast.Assign(targets=[ast.Name(id=tmp, ctx=ast.Store())], value=ast.Call(func=it_.args[0], args=[], keywords=[])))
            stop = at(ast.If(test=ast.Compare(left=ast.Name(id=tmp, ctx=ast.Load()), ops=[ast.Eq()], comparators=[it_.args[1]]),
                             body=[ast.Break()], orelse=[]))
            bind = at(ast.Assign(targets=[st.target], value=ast.Name(id=tmp, ctx=ast.Load())))
            return [], at(ast.While(test=true, body=[get, stop, bind] + list(st.body), orelse=[]))
        return None

    def _while(self, st, orig=None, forced=False, split=None):
        ev = self.ev
        parent = self.frame
        if self.force is not None and not forced and not (isinstance(st.test, ast.Constant) and bool(st.test.value) is True) \
                and not any(isinstance(n, (ast.Call, ast.NamedExpr)) for n in ast.walk(st.test)):
            # a case in which the loop is never entered
            if self.decide_value(ev.ev(st.test)) is False:
                return self.run(st.orelse) if st.orelse else None
        parent.nloops += 1
        fid = F.fn("frame", parent.id, F.const(parent.nloops))
        ph = self._placeholders(st, fid)
        if forced:
            # names first bound inside the loop: the loop's test, written at its top, reads the value the previous iteration left
            for nm, p in list(ph.items()):
                if is_unknown(p) and ev.env.get(nm) is None:
                    ph[nm] = F.fn("lv", fid, F.sym("unbound:" + nm))
        entry = {nm: ev.env.get(nm) for nm in ph}
        for nm, p in ph.items():
            ev.env[nm] = p
        always = isinstance(st.test, ast.Constant) and bool(st.test.value) is True
        test = ONE if always else ev.ev(st.test)
        if isinstance(test, tuple):
            test = Unknown("test on a tuple")
        fr = _Frame(fid)
        self.frames.append(fr)
        g0 = self.guard
        self.guard = g0 + ((test, True),) if not always else g0
        self._breaks.append([])
        snap = None
        try:
            if split is None:
                status = self.run(st.body)
            else:
                status = self.run(st.body[:split])
                snap = dict(self.ev.env)
                if status is None:
                    status = self.run(st.body[split:])
        finally:
            self.frames.pop()
            self.guard = g0
            breaks = self._breaks.pop()
        carry = [(p, ev.env.get(nm)) for nm, p in ph.items() if not is_unknown(p)]
        for p, v in carry:
            if is_truth_value(p) and _plain(v) and not is_truth_value(v):
                raise Stuck(f"a local of the loop at line {st.lineno} holds a truth value on entry and another kind of value later")
        if not always and not is_unknown(test) and status is None and fr.items and fr.items[-1][0] == "if":
            # `while t: ...; if <not t, on the values just computed>: break` - the break only anticipates the loop's own test
            it = fr.items[-1]
            a, b = tidy(it[2]), tidy(it[3])
            brk = None
            if a == [("exit", "break")] and not b:
                brk = it[1]
            elif b == [("exit", "break")] and not a:
                brk = F.fn("not", it[1])
            if brk is not None:
                nxt = renamer([(p, v) for p, v in carry if v is not None and not is_unknown(v) and not isinstance(v, tuple)])(test)
                if same(F.fn("not", brk), nxt, whole_values=False):
                    fr.items.pop()
                    breaks = [b_ for b_ in breaks[:-1]]
        entry0 = None
        if not always and not forced and _plain(test):
            t2 = self._unflag(test, ph, entry, carry, fid)
            if t2 is not None:
                test, forced, entry0 = t2
        lp = Loop("while", test, fr.items, carry, fid, orig if orig is not None else st, entry, g0, ph, forced, fr)
        lp.exits = status
        lp.entry0 = entry0
        if is_unknown(test):
            if "is not bound when the loop at line" in (test.why or "") and not forced:
                # the test of a loop tested at its top reads a local that is first bound inside the loop: it raises on entry
                nm = test.why.split("`")[1] if test.why.count("`") >= 2 else "?"
                self.events.append(("unbound", nm, st))
            raise Stuck(f"loop condition at line {st.lineno} cannot be lowered ({test.why})")
        parent.items.append(("loop", lp))
        parent.opaque()
        if snap is not None:
            # a loop tested at its end is left right after the test, with the values the locals have there
            for nm in ph:
                v = snap.get(nm)
                ev.env[nm] = v if v is not None else Unknown(f"`{nm}` is not bound where the loop at line {st.lineno} is left")
        elif always and len(breaks) == 1:
            # `while 1: ... break`: the loop is left at its only break, with the values the locals have there
            for nm in ph:
                v = breaks[0].get(nm)
                ev.env[nm] = v if v is not None else Unknown(f"`{nm}` is not bound at the break of the loop at line {st.lineno}")
        else:
            for nm, p in ph.items():
                ev.env[nm] = F.fn("fin", p) if not is_unknown(p) else F.fn("fin", fid, F.sym(nm))
        if st.orelse:
            self.run(st.orelse)
        return None

    def _unflag(self, test, ph, entry, carry, fid):
        """a loop steered by a flag - `more = E0; while more: B; more = E` - is the loop on the test the flag holds: the value the flag gets
        at the end of the body, written on the loop-carried locals as they are at the top of the loop (the values the body leaves in them
        replaced by their placeholders).  It must give the flag's entry value on the entry values (top-tested loop), or the flag is true on
        entry (a loop tested at its end).  -> (test, forced, entry test or None) or None when the loop is not of this kind"""
        pol = True
        p = test
        q = fn_parts(test)
        if q is not None and q[0] == "not" and len(q[1]) == 1 and not isinstance(q[1][0], str):
            pol, p = False, q[1][0]
        nm = [k for k, v in ph.items() if _plain(v) and v.equals(p)]
        if len(nm) != 1 or (fn_parts(p) or ("",))[0] != "lv":
            return None
        upd = [v for pp, v in carry if pp.equals(p)]
        e0 = entry.get(nm[0])
        if len(upd) != 1 or not _plain(upd[0]) or not _plain(e0) or not (is_truth_value(upd[0]) or upd[0].is_const()):
            return None
        U = canon_tests(upd[0])
        atoms_map, polys = [], []
        for pp, v in carry:
            if pp.equals(p) or not _plain(v) or v.is_const() or v.equals(pp):
                continue
            (atoms_map if as_atom(v) is not None else polys).append((canon_tests(v), pp))
        back = renamer(atoms_map)
        polys = [(back(v), pp) for v, pp in polys]

        def post(name, args):
            if name in ("ge0", "eq0") and len(args) == 1 and not isinstance(args[0], str):
                for v, pp in polys:
                    for sign in (1, -1):
                        rest = args[0] - sign * v
                        own = {akey(F.Rat(F.Poly.atom(a))) for a in atoms_of(v)}
                        if own and not (own & {akey(F.Rat(F.Poly.atom(a))) for a in atoms_of(rest)}) and own <= {akey(F.Rat(F.Poly.atom(a))) for a in atoms_of(args[0])}:
                            return F.fn(name, sign * pp + rest)
            return None
        T = rewrite(back(U), post=post)
        # the test must speak about the state at the top of the loop: nothing read in this iteration, nothing left by its body
        for d in walk_atoms(T):
            if d[0] == "fn" and d[1] in ("rd", "ln", "lns", "after", "tell") and d[2] and not isinstance(d[2][0], str) and _arg(d[2][0]).equals(fid):
                return None
        mapping = [(pp, entry.get(k)) for k, pp in ph.items() if _plain(pp) and _plain(entry.get(k))]
        T0 = renamer(mapping)(T)
        if not pol:
            T, T0, e0 = F.fn("not", T), F.fn("not", T0), F.fn("not", e0)
        if same(T0, e0, whole_values=False):
            return T, False, None
        if truth_of(e0) is True:
            return T, True, None
        return T, False, e0          # (the flag's first value is another test than the one it is given afterwards)

    def _trip_count(self, it_node):
        """number of iterations of `for _ in <it_node>` when it does not depend on the file: it.repeat(x, n) / range(n)"""
        if isinstance(it_node, ast.Call):
            d = dotted(it_node.func) or ""
            if d.split(".")[-1] == "repeat" and len(it_node.args) == 2:
                return self.ev.ev(it_node.args[1])
            if d == "range" and len(it_node.args) == 1:
                return self.ev.ev(it_node.args[0])
            if d == "range" and len(it_node.args) in (2, 3) and not it_node.keywords:
                # range(a, b) has b - a elements, range(a, b, s) one per s of them (s > 0: a count per line / per value)
                vals = [self.ev.ev(a) for a in it_node.args]
                if all(_plain(v) for v in vals):
                    span = vals[1] - vals[0]
                    if len(vals) == 2:
                        return span
                    if not (vals[2].is_const() and vals[2].const_value() <= 0):
                        return floordiv(span + vals[2] - 1, vals[2])
        return None

    def _for(self, st):
        ev = self.ev
        parent = self.frame
        n = self._trip_count(st.iter)
        itv = None
        if n is None:
            itv = ev.ev(st.iter)
            if self.is_file(itv):
                raise Stuck(f"`for` over the lines of the file at line {st.lineno}: iteration of the file itself is not modelled")
            if isinstance(itv, tuple) and len(itv) <= 64 and not st.orelse \
                    and not any(isinstance(x, (ast.Break, ast.Continue)) for y in st.body for x in _own_level(y)):
                # a loop over a literal sequence is the sequence of its iterations
                for x in itv:
                    self.assign(st.target, x, st)
                    r = self.run(st.body)
                    if r is not None:
                        return r
                return None
            if isinstance(itv, tuple):
                try:
                    itv = F.fn("tuple", *[need(x) for x in itv])
                except Unsupported as e:
                    itv = Unknown(str(e))
        parent.nloops += 1
        fid = F.fn("frame", parent.id, F.const(parent.nloops))
        ph = self._placeholders(st, fid)
        entry = {nm: ev.env.get(nm) for nm in ph}
        for nm, p in ph.items():
            ev.env[nm] = p
        tnames = [x.id for x in ast.walk(st.target) if isinstance(x, ast.Name)]
        if n is None:
            self.for_iters.append((fid, itv, self.guard, st))
        if n is not None and not is_unknown(n) and not isinstance(n, tuple):
            self.for_trips.append((fid, n))
        for i, nm in enumerate(tnames):
            ev.env[nm] = F.fn("item", fid, F.const(i)) if (n is not None or not is_unknown(itv)) else itv
        fr = _Frame(fid)
        self.frames.append(fr)
        try:
            status = self.run(st.body)
        finally:
            self.frames.pop()
        body = tidy(fr.items)
        carry = [(p, ev.env.get(nm)) for nm, p in ph.items() if not is_unknown(p) and nm not in tnames]
        plain = all(it[0] in ("B", "L") for it in body) and status is None
        indep = plain and not any(d[0] == "fn" and d[1] in ("lv", "item", "rd", "ln") and d[2] and _arg(d[2][0]).equals(fid)
                                  for it in body for d in walk_atoms(it[1]))
        if n is not None and not is_unknown(n) and indep:
            for it in body:
                parent.items.append((it[0], it[1] * need(n)))
                parent.off[it[0]] = parent.off[it[0]] + it[1] * need(n)
        elif not body and status is None:
            pass                      # a loop that does not touch the file
        else:
            test = F.fn("count", need(n)) if n is not None and not is_unknown(n) else itv
            if test is None or is_unknown(test):
                raise Stuck(f"`for` at line {st.lineno} consumes from the file over an iterable that cannot be lowered")
            lp = Loop("for", test, fr.items, carry, fid, st, entry, self.guard, ph, False, fr)
            lp.exits = status
            parent.items.append(("loop", lp))
            parent.opaque()
        for nm, p in ph.items():
            ev.env[nm] = F.fn("fin", p) if not is_unknown(p) else F.fn("fin", fid, F.sym(nm))
        if st.orelse:
            self.run(st.orelse)
        return None

    # ------------------------------------------------------------------ calls
    def _args(self, node, ev):
        pos = []
        for a in node.args:
            if isinstance(a, ast.Starred):
                v = ev.ev(a.value)
                if isinstance(v, tuple):
                    pos.extend(v)           # a literal sequence spread over the parameters
                else:
                    pos.append(Unknown("starred argument"))
            else:
                pos.append(ev.ev(a))
        kws = {}
        for k in node.keywords:
            if k.arg is not None:
                kws[k.arg] = ev.ev(k.value)
            else:
                # `**table`: a literal table of keyword arguments is spread over the parameters
                v = ev.ev(k.value)
                if isinstance(v, DictValue) and all(isinstance(x, str) for x in v.d):
                    kws.update(v.d)
        return pos, kws

    def _bound_method(self, v):
        """a value that is a bound method -> (receiver value, method name): `rl = self._fileh.readline`, `s4 = self._Str_i4.unpack`"""
        if v is None or is_unknown(v) or isinstance(v, tuple):
            return None
        n = sym_name(v)
        if n is not None and "." in n and n[:1] not in "'\"" and not n.startswith(("fstr:", "lambda:", "dict:")):
            return F.sym(n.rsplit(".", 1)[0]), n.rsplit(".", 1)[1]
        p = fn_parts(v)
        if p is not None and p[0].startswith("attr:") and len(p[1]) == 1 and not isinstance(p[1][0], str):
            return p[1][0], p[0][5:]
        return None

    def followable(self, name, f2):
        if name in self.no_inline:
            return False
        if callable(self.follow):
            return bool(self.follow(name, f2))
        if not self.follow:
            return False
        return name in self.extra_inline or f2 in self.effects or _is_getter(f2) or _is_simple(f2)

    def _function_leaves(self, v, depth=0):
        """the functions of the walked class a callee value selects between: value -> [FunctionDef or None per leaf]"""
        p = fn_parts(v) if v is not None and not is_unknown(v) and not isinstance(v, tuple) else None
        if p is not None and p[0] == "phi" and depth < 8:
            return self._function_leaves(p[1][1], depth + 1) + self._function_leaves(p[1][2], depth + 1)
        n = sym_name(v) if v is not None and not is_unknown(v) and not isinstance(v, tuple) else None
        f2 = self.table.get(n) if n is not None else None
        # (only functions that touch the file are entered this way: what a reader is *handed* to allocate / store / finish stays a call)
        return [f2 if f2 is not None and self.followable(n, f2) and (f2 in self.effects or n in self.extra_inline) else None]

    def _call_selected(self, fv, node, ev):
        """a call through a value that selects between functions of the class: the call of the selected function, selection by selection"""
        p = fn_parts(fv)
        if p is not None and p[0] == "phi":
            c, a, b = p[1]
            _st, val = self._branch(c, lambda: (None, self._call_selected(a, node, ev)), lambda: (None, self._call_selected(b, node, ev)), node)
            return val
        n = sym_name(fv)
        return self.inline(self.table[n], node, self.ev, n)

    def _tmp_call(self, fnode, values, node, kws=None):
        """a call of the function expression `fnode` on values that are already evaluated"""
        names = []
        for v in values:
            self._ntmp = getattr(self, "_ntmp", 0) + 1
            nm = f"<arg {self._ntmp}>"
            self.ev.env[nm] = v
            names.append(nm)
        call = ast.Call(func=fnode, args=[ast.Name(id=nm, ctx=ast.Load()) for nm in names], keywords=list(kws or []))
        for x in ast.walk(call):
            if not hasattr(x, "lineno"):
                ast.copy_location(x, node)
        try:
            return self.ev.ev(ast.fix_missing_locations(ast.copy_location(call, node)))
        finally:
            for nm in names:
                self.ev.env.pop(nm, None)

    def _object_call(self, node, ev):
        """attribute access and small functional idioms spelled as calls: getattr / setattr with a name that is known, vars(obj).update(...),
        functools.partial, map over literal sequences, a lambda called in place -> value, or NotImplemented"""
        func = node.func
        name = dotted(func)
        if isinstance(func, ast.Lambda):
            if any(isinstance(a, ast.Starred) for a in node.args):
                return NotImplemented
            return self.inline(_lambda_def(func), node, ev, "<lambda>", closure=True)
        if not isinstance(func, (ast.Name, ast.Attribute)):
            # the callee is itself computed (`partial(f, a)()`, `table[k](x)`): called through the value it evaluates to
            fv = ev.ev(func)
            self._ntmp = getattr(self, "_ntmp", 0) + 1
            nm = f"<fn {self._ntmp}>"
            ev.env[nm] = fv
            new = ast.copy_location(ast.Call(func=ast.copy_location(ast.Name(id=nm, ctx=ast.Load()), node), args=node.args, keywords=node.keywords), node)
            try:
                return ev.ev(new)
            finally:
                ev.env.pop(nm, None)
        if name in ("getattr", "setattr") and len(node.args) >= 2 and not node.keywords and isinstance(node.args[0], (ast.Name, ast.Attribute)):
            attr = K.conc(ev.ev(node.args[1]))
            if isinstance(attr, str) and attr.isidentifier():
                if name == "getattr" and len(node.args) in (2, 3):
                    return ev.ev(ast.copy_location(ast.Attribute(value=node.args[0], attr=attr, ctx=ast.Load()), node))
                if name == "setattr" and len(node.args) == 3:
                    v = ev.ev(node.args[2])
                    self.assign(ast.copy_location(ast.Attribute(value=node.args[0], attr=attr, ctx=ast.Store()), node), v, node)
                    return NONE
            return NotImplemented
        if isinstance(func, ast.Attribute) and func.attr == "update" and not any(k.arg is None for k in node.keywords):
            # vars(obj).update(a=..., b=...) / obj.__dict__.update(...): assignments to the attributes of obj
            obj = None
            fv = func.value
            if isinstance(fv, ast.Call) and dotted(fv.func) == "vars" and len(fv.args) == 1 and isinstance(fv.args[0], (ast.Name, ast.Attribute)):
                obj = fv.args[0]
            elif isinstance(fv, ast.Attribute) and fv.attr == "__dict__" and isinstance(fv.value, (ast.Name, ast.Attribute)):
                obj = fv.value
            if obj is not None:
                pairs = []
                for a in node.args:
                    d = ev.ev(a)
                    if not isinstance(d, DictValue) or not all(isinstance(k, str) and k.isidentifier() for k in d.d):
                        return Unknown(f"attributes set from a table that is not a literal (line {node.lineno})")
                    pairs.extend(d.d.items())
                pairs.extend((k.arg, ev.ev(k.value)) for k in node.keywords)
                for k, v in pairs:
                    self.assign(ast.copy_location(ast.Attribute(value=obj, attr=k, ctx=ast.Store()), node), v, node)
                return NONE
        if name in ("SimpleNamespace", "types.SimpleNamespace") and not node.args:
            if any(k.arg is None for k in node.keywords):
                # SimpleNamespace(**table): the fields of a literal table with text keys (anything else is not a record the rules can read)
                if not all(k.arg is not None or (isinstance(tv_ := ev.ev(k.value), DictValue) and all(isinstance(x, str) for x in tv_.d))
                           for k in node.keywords):
                    return NotImplemented
                kws = self._args(node, ev)[1]
            else:
                kws = {k.arg: ev.ev(k.value) for k in node.keywords}
            val = make_record(list(kws.items()), ordered=False)
            self.events.append(("call", name, [], kws, self.guard, node, None, self.frame.id, val))
            return val
        if name in ("namedtuple", "collections.namedtuple") and len(node.args) == 2 and not any(k.arg in ("rename", "defaults") for k in node.keywords):
            fields = K.conc(ev.ev(node.args[1]))
            if isinstance(fields, str):
                fields = tuple(fields.replace(",", " ").split())
            if isinstance(fields, tuple) and fields and all(isinstance(x, str) and x.isidentifier() for x in fields):
                return F.sym("recordtype:" + ",".join(fields))
            return NotImplemented
        if isinstance(func, ast.Name) and not any(isinstance(a, ast.Starred) for a in node.args) and not any(k.arg is None for k in node.keywords):
            tv = ev.env.get(func.id) if func.id in ev.env else (ev.ev(func) if ev.module_consts and func.id in ev.module_consts else None)
            tn = sym_name(tv) if _plain(tv) else None
            if tn is not None and tn.startswith("recordtype:"):
                fields = tn[len("recordtype:"):].split(",")
                vals = dict(zip(fields, [ev.ev(a) for a in node.args]))
                for k in node.keywords:
                    vals[k.arg] = ev.ev(k.value)
                if len(node.args) > len(fields) or set(vals) != set(fields):
                    return Unknown(f"record built with the wrong fields (line {node.lineno})")
                return make_record([(k, vals[k]) for k in fields], ordered=True)
        if name in ("functools.partial", "partial") and node.args and not any(isinstance(a, ast.Starred) for a in node.args) \
                and not any(k.arg is None for k in node.keywords):
            # partial(f, a, k=v) is `lambda: f(a, k=v)` (for the calls without further arguments made here)
            body = ast.Call(func=node.args[0], args=list(node.args[1:]), keywords=list(node.keywords))
            lam = ast.Lambda(args=ast.arguments(posonlyargs=[], args=[], vararg=None, kwonlyargs=[], kw_defaults=[], kwarg=None, defaults=[]), body=body)
            for x in ast.walk(lam):
                if not hasattr(x, "lineno"):
                    ast.copy_location(x, node)
            return ev.ev(ast.fix_missing_locations(ast.copy_location(lam, node)))
        if name == "map" and len(node.args) >= 2 and not node.keywords and not any(isinstance(a, ast.Starred) for a in node.args):
            seqs = [ev.ev(a) for a in node.args[1:]]
            if all(isinstance(q, tuple) for q in seqs):
                return tuple(self._tmp_call(node.args[0], list(xs), node) for xs in zip(*seqs))
            return self._opaque(name, None, [ev.ev(node.args[0])] + seqs, {}, node)
        return NotImplemented

    def call(self, node, ev):
        func = node.func
        name = dotted(func)
        r = self._object_call(node, ev)
        if r is not NotImplemented:
            return r
        recv = None
        meth = None
        if isinstance(func, ast.Attribute):
            # the receiver is evaluated once (it may itself be a call that reads)
            recv = ev.ev(func.value)
            meth = func.attr
            if meth in _MUTATORS and isinstance(func.value, (ast.Name, ast.Attribute)) and isinstance(recv, (tuple, DictValue)):
                # a literal list / table that is modified in place is no longer the literal it was written as
                d = dotted(func.value)
                if d in ev.env and d not in self.pinned:
                    ev.env[d] = F.sym(f"filled:{d}@{getattr(func.value, 'lineno', 0)}")
        elif isinstance(func, ast.Name) and func.id in ev.env and func.id not in ev.buffers:
            # a local that holds a bound method or a function
            fv = ev.env[func.id]
            lf = self.local_funcs.get(sym_name(fv)) if fv is not None and not is_unknown(fv) and not isinstance(fv, tuple) else None
            if lf is not None and self.follow is not False:
                return self.inline(lf, node, ev, func.id, closure=True)
            bm = self._bound_method(fv)
            if bm is not None and (self.is_file(bm[0]) or bm[1] in ("unpack", "unpack_from")):
                recv, meth = bm
                name = None
            elif id(node) not in self.indirect and func.id not in self.indirect:
                lv = self._function_leaves(fv)
                if lv and all(f is not None for f in lv):
                    self.events.append(("dispatch", fv, node))
                    return self._call_selected(fv, node, ev)
        # ---- file methods
        if recv is not None and self.is_file(recv):
            m = meth
            pos, kws = self._args(node, ev)
            if m == "read":
                if len(pos) != 1:
                    raise Stuck(f"read() of the whole file at line {node.lineno}")
                return self.do_read(pos[0], node)
            if m == "seek":
                whence = pos[1] if len(pos) > 1 else kws.get("whence", ZERO)
                if not is_unknown(whence) and not isinstance(whence, tuple) and whence.equals(ONE):
                    self.emit("B", pos[0], node)
                    self.events.append(("seek", pos[0], node))
                    return F.sym("None")
                if is_unknown(pos[0]) or isinstance(pos[0], tuple):
                    raise Stuck(f"absolute seek to an unknown position at line {node.lineno}")
                if not is_unknown(whence) and not isinstance(whence, tuple) and whence.is_zero():
                    # seek(tell() + n): the position just asked for plus n is a relative move by n
                    fr = self.frame
                    here = F.fn("tell", fr.id, fr.off["B"], fr.off["L"])
                    rel = need(pos[0]) - here
                    if not any(d[0] == "fn" and d[1] == "tell" for d in walk_atoms(rel)):
                        self.emit("B", rel, node)
                        self.events.append(("seek", rel, node))
                        return F.sym("None")
                self.frame.items.append(("abs", need(pos[0])))
                self.frame.opaque()
                self.events.append(("abs", pos[0], self.guard, node))
                return F.sym("None")
            if m == "readline":
                fr = self.frame
                at = F.fn("ln", fr.id, fr.off["L"])
                self.emit("L", ONE, node)
                self.events.append(("line", at, node))
                return at
            if m == "tell":
                fr = self.frame
                return F.fn("tell", fr.id, fr.off["B"], fr.off["L"])
            if m in ("close", "flush"):
                return F.sym("None")
            raise Stuck(f"file method {m} at line {node.lineno}")
        # ---- np.fromfile
        if name in ("np.fromfile", "numpy.fromfile"):
            pos, kws = self._args(node, ev)
            a = dict(zip(("file", "dtype", "count", "sep", "offset"), pos))
            a.update(kws)
            if not self.is_file(a.get("file")):
                raise Stuck(f"np.fromfile from something that is not the file being read (line {node.lineno})")
            dt, cnt = a.get("dtype"), a.get("count")
            if dt is None or cnt is None or is_unknown(dt) or is_unknown(cnt) or isinstance(dt, tuple) or isinstance(cnt, tuple):
                raise Stuck(f"np.fromfile without a dtype and a count that can be lowered (line {node.lineno})")
            fr = self.frame
            at = F.fn("rd", fr.id, fr.off["B"], F.fn("itemsize", dt) * cnt)
            self.emit("B", F.fn("itemsize", dt) * cnt, node)
            self.events.append(("fromfile", dt, cnt, node, at))
            return F.fn("arr", at, dt)
        # ---- islice(file, n): n lines
        if name is not None and name.split(".")[-1] == "islice" and node.args:
            pos, kws = self._args(node, ev)
            if self.is_file(pos[0]):
                if len(pos) != 2:
                    raise Stuck(f"islice over the file with start/step (line {node.lineno})")
                fr = self.frame
                at = F.fn("lns", fr.id, fr.off["L"], need(pos[1]))
                self.emit("L", pos[1], node)
                self.events.append(("lines", at, pos[1], node))
                return at
            return self._opaque(name, recv, pos, kws, node)
        # ---- struct decoding
        is_unpack = False
        structobj = None
        if meth in ("unpack", "unpack_from"):
            is_unpack = True
            structobj = recv
        if is_unpack:
            pos, kws = self._args(node, ev)
            if name in ("struct.unpack", "struct.unpack_from"):
                if len(pos) < 2:
                    raise Stuck(f"struct.unpack call at line {node.lineno}")
                fmt, data = pos[0], pos[1]
            else:
                if len(pos) < 1:
                    raise Stuck(f"unpack call at line {node.lineno}")
                fmt, data = F.fn("structof", need(structobj)) if structobj is not None and not is_unknown(structobj) else Unknown("struct object"), pos[0]
            if is_unknown(data) or isinstance(data, tuple):
                return data if is_unknown(data) else Unknown("unpack of a tuple")
            if meth == "unpack_from":
                off = kws.get("offset", pos[2] if name in ("struct.unpack_from",) and len(pos) > 2 else (pos[1] if name not in ("struct.unpack_from",) and len(pos) > 1 else ZERO))
                if not _plain(off) or not off.is_zero():
                    raise Stuck(f"unpack_from at an offset into a buffer (line {node.lineno}): decoding parts of one read is not modelled")
            if _plain(fmt):
                fmt = canon_format(fmt)
            self.events.append(("unpack", fmt, data, node))
            return F.fn("dec", need(data))
        # ---- functions of the same class / module that are followed
        target = None
        if id(node) in self.indirect:
            target = self.indirect[id(node)]
        elif isinstance(func, ast.Name) and func.id in self.indirect:
            target = self.indirect[func.id]
        elif name in self.table and self.followable(name, self.table[name]):
            target = self.table[name]
        if target is not None:
            if id(node) in self.indirect and isinstance(func, ast.Name):
                self.events.append(("dispatch", ev.env.get(func.id), node))
            return self.inline(target, node, ev, name)
        if name == "next" and node.args and not node.keywords and isinstance(node.args[0], (ast.Name, ast.Attribute)) and self.is_file(ev.ev(node.args[0])) \
                and len(node.args) == 1:
            fr = self.frame
            at = F.fn("ln", fr.id, fr.off["L"])         # next(f) on a text file is the next line, as readline() gives it
            self.emit("L", ONE, node)
            self.events.append(("line", at, node))
            return at
        if self.foreign_base and name is not None and name.startswith("self.") and name.count(".") == 1 and name not in ev.env and self.files:
            # a method the class inherits from a class defined elsewhere: it may read the file
            raise Stuck(f"{name} is not defined in this module (inherited from a class defined elsewhere): what it reads is not known (line {node.lineno})")
        pos, kws = self._args(node, ev)
        callee = ev.env.get(func.id) if isinstance(func, ast.Name) else None
        if self.files and isinstance(func, ast.Attribute) and name is not None and name.startswith("self.") and name.count(".") == 2 \
                and func.attr not in _VALUE_METHODS and name.rsplit(".", 1)[0] not in ev.env:
            # a method of an object the reader holds (self.x.m(...)) that is not a method of a plain value: it may read the file
            raise Stuck(f"{name}: a method of an object held by the reader, which the evaluator cannot follow - it may read the file (line {node.lineno})")
        if any(self.is_file(v) for v in list(pos) + list(kws.values())) and (name or "").split(".")[-1] not in _FILE_NEUTRAL:
            # the file handed to a function that is not followed: what it consumes is not known
            raise Stuck(f"the file is handed to {name or ast.unparse(func)}, which the evaluator cannot follow (line {node.lineno})")
        val = self._opaque(name, recv, pos, kws, node)
        self.events.append(("call", name if name is not None else ("." + func.attr if isinstance(func, ast.Attribute) else None), pos, kws,
                            self.guard, node, callee, self.frame.id, val))
        return val

    def _opaque(self, name, recv, pos, kws, node):
        func = node.func
        plain = lambda v: v is not None and not is_unknown(v) and not isinstance(v, tuple)   # noqa
        # ---- operations on values that are known: computed
        kn = list(kws)
        if isinstance(func, ast.Attribute) and recv is not None and not is_unknown(recv) and not any(is_unknown(v) for v in list(pos) + list(kws.values())):
            r = split_fold([recv] + list(pos) + [kws[k] for k in kn],
                           lambda vs: K.fold_method(vs[0], func.attr, vs[1:1 + len(pos)], dict(zip(kn, vs[1 + len(pos):]))))
            if r is not None:
                return r
        if name is not None and name not in self.ev.env and name.split(".")[0] not in self.ev.env and name in K.BUILTINS \
                and not any(is_unknown(v) for v in list(pos) + list(kws.values())):
            r = split_fold(list(pos) + [kws[k] for k in kn], lambda vs: K.fold_builtin(name, vs[:len(pos)], dict(zip(kn, vs[len(pos):]))))
            if r is not None:
                return r
        if name in ("struct.calcsize", "calcsize") and len(pos) == 1 and not kws and self.sizes is not None and plain(pos[0]):
            r = self.sizes.struct_size(canon_format(pos[0]) if fn_parts(pos[0]) is not None else pos[0])
            if r is not None:
                return r
        if name == "enumerate" and pos and isinstance(pos[0], tuple) and not any(is_unknown(x) for x in pos[1:]):
            start = K.conc(pos[1]) if len(pos) > 1 else K.conc(kws.get("start", ZERO))
            if isinstance(start, int):
                return tuple((F.const(start + i), x) for i, x in enumerate(pos[0]))
        if name == "range" and 1 <= len(pos) <= 3 and not kws:
            known = [K.conc(v) for v in pos]
            if all(isinstance(x, int) and not isinstance(x, bool) for x in known):
                try:
                    r = range(*known)
                except ValueError:
                    r = None
                if r is not None and len(r) <= 64:
                    return tuple(F.const(i) for i in r)          # a short range of known numbers is the sequence of them
        if name == "reversed" and len(pos) == 1 and isinstance(pos[0], tuple):
            return tuple(reversed(pos[0]))
        if name in ("iter",) and len(pos) == 1 and isinstance(pos[0], tuple):
            return pos[0]
        pos = [F.sym("dict:" + repr(sorted(v.d.items(), key=repr))) if isinstance(v, DictValue) else v for v in pos]
        if name == "slice" and 1 <= len(pos) <= 3 and not kws and all(plain(v) for v in pos):
            a = [None if v.equals(NONE) else v for v in pos]
            return make_slice(*((None, a[0]) if len(a) == 1 else a))
        if name == "divmod" and len(pos) == 2 and not kws and all(plain(v) for v in pos):
            fake = lambda op: ast.BinOp(left=node.args[0], op=op, right=node.args[1])   # noqa
            return (self._binop(fake(ast.FloorDiv()), pos[0], pos[1], self.ev), self._binop(fake(ast.Mod()), pos[0], pos[1], self.ev))
        if name == "zip" and pos and not kws and all(isinstance(v, tuple) for v in pos):
            return tuple(tuple(x) for x in zip(*pos))
        if name in ("list", "tuple") and len(pos) == 1 and not kws and isinstance(pos[0], tuple):
            return pos[0]
        if name == "len" and len(pos) == 1 and isinstance(pos[0], tuple):
            return F.const(len(pos[0]))
        if name == "bool" and len(pos) == 1 and plain(pos[0]) and (is_truth_value(pos[0]) or pos[0].is_const()):
            return pos[0] if not pos[0].is_const() else F.const(int(pos[0].const_value() != 0))
        if name in ("math.ceil", "ceil", "np.ceil") and len(pos) == 1 and not kws and plain(pos[0]):
            p = fn_parts(pos[0])
            if p is not None and p[0] == "truediv":
                return floordiv(p[1][0] + p[1][1] - 1, p[1][1])         # ceil(a / b) for counts (b > 0)
        if name in ("math.floor", "floor", "np.floor") and len(pos) == 1 and not kws and plain(pos[0]):
            p = fn_parts(pos[0])
            if p is not None and p[0] == "truediv":
                return floordiv(p[1][0], p[1][1])
        if name in ("abs", "np.abs", "np.absolute") and len(pos) == 1 and not is_unknown(pos[0]) and not isinstance(pos[0], tuple):
            return F.fn("abs", pos[0])
        if name == "int" and len(pos) == 1 and not kws and not is_unknown(pos[0]) and not isinstance(pos[0], tuple):
            p = fn_parts(pos[0])
            if p is not None and p[0] == "truediv":
                return floordiv(p[1][0], p[1][1])
            if p is not None and p[0] == "floordiv":
                return pos[0]
        args = []
        if name is None:
            if isinstance(func, ast.Attribute):
                if recv is None or is_unknown(recv) or isinstance(recv, tuple):
                    return recv if is_unknown(recv) else Unknown(f"call {ast.unparse(func)}")
                args.append(need(recv))
                name = "." + func.attr
            else:
                return Unknown(f"call {ast.unparse(func)}")
        elif isinstance(func, ast.Attribute) and recv is not None and not is_unknown(recv) and not isinstance(recv, tuple) \
                and sym_name(recv) != dotted(func.value):
            # a method of a local that holds a value: name the call by the method and the *value* of the receiver
            args.append(need(recv))
            name = "." + func.attr
        for v in pos:
            if is_unknown(v):
                return v
            if isinstance(v, tuple):
                if any(is_unknown(x) or isinstance(x, tuple) for x in v):
                    return Unknown("nested tuple argument")
                v = F.fn("tuple", *[need(x) for x in v])
            args.append(need(v))
        for k, v in kws.items():
            if is_unknown(v) or isinstance(v, tuple):
                return Unknown(f"keyword {k}")
            args.append(F.fn("kw:" + k, need(v)))
        return F.fn("call:" + name, *args)

    def do_read(self, n, node):
        if is_unknown(n) or isinstance(n, tuple):
            raise Stuck(f"read of a size that cannot be lowered at line {node.lineno}" + (f" ({n.why})" if is_unknown(n) else ""))
        fr = self.frame
        at = F.fn("rd", fr.id, fr.off["B"], need(n))
        self.emit("B", n, node)
        self.events.append(("read", at, need(n), node))
        return at

    def inline(self, fn2, node, ev, name, closure=False):
        if self.depth >= 6 or fn2 in self.stack:
            raise Stuck(f"call chain too deep / recursive at {name} (line {node.lineno})")
        if any(isinstance(n, (ast.Yield, ast.YieldFrom, ast.Await)) for n in ast.walk(fn2)):
            raise Stuck(f"{name} is a generator / coroutine: its body runs interleaved with its caller (line {node.lineno})")
        a = fn2.args
        params = [x.arg for x in a.posonlyargs + a.args]
        if params and params[0] in ("self", "cls") and not closure and not any(isinstance(d, ast.Name) and d.id == "staticmethod" for d in fn2.decorator_list):
            params = params[1:]
        pos, kws = self._args(node, ev)
        if a.vararg or a.kwarg or len(pos) > len(params):
            raise Stuck(f"call of {name} with a signature that cannot be bound (line {node.lineno})")
        env = dict(zip(params, pos))
        env.update({k: v for k, v in kws.items() if k in params})
        dflt = dict(zip(params[::-1], (a.defaults or [])[::-1]))
        for p_ in params:
            if p_ not in env:
                if p_ not in dflt:
                    raise Stuck(f"call of {name}: parameter {p_} not bound (line {node.lineno})")
                env[p_] = ev.ev(dflt[p_])
        # attributes of self assigned by the caller so far stay visible to the callee; a local function sees the locals around it
        for k, v in ev.env.items():
            if (closure or k.startswith("self.")) and k not in env:
                env[k] = v
        self.bound[id(fn2)] = dict(env)
        self.events.append(("enter", fn2, self.guard, self.depth, node))
        span_frame, span_n0 = self.frame, self.frame.nloops
        sub = self._new_ev(fn2, env)
        keep = self.ev
        rets = []
        self._ret_stack.append(rets)
        self.ev = sub
        self.depth += 1
        self.stack.append(fn2)
        g0 = self.guard
        try:
            self.run(fn2.body)
        finally:
            self.ev = keep
            self.depth -= 1
            self.stack.pop()
            self._ret_stack.pop()
            self.guard = g0
        for k, v in sub.env.items():
            if k.startswith("self."):
                keep.env[k] = v
        self._cells.extend(sub.cells)
        self.spans[id(fn2)] = (span_frame.id, span_n0, span_frame.nloops)
        if not rets:
            return F.sym("None")
        # several returns: the value is selected by the guards under which they are reached
        out = _return_value([(list(g[len(g0):]), v) for v, g, _st in rets], name)
        return F.sym("None") if out is NEVER else out


NEVER = Unknown("the function raises on this path (no value)")


def _return_value(lst, name, depth=0):
    """value of a function from its returns [(guard relative to the call, value)] in source order: a tree of selections on the tests"""
    if not lst:
        return F.sym("None")
    g, v = lst[0]
    if not g:
        return v
    c = g[0][0]
    if is_unknown(c) or depth > 24:
        return Unknown(f"returns of {name} under a test that cannot be lowered")
    yes, no = [], []
    for gg, vv in lst:
        if gg and gg[0][0] is c:
            (yes if gg[0][1] else no).append((gg[1:], vv))
        else:
            yes.append((gg, vv))
            no.append((gg, vv))
    a, b = _return_value(yes, name, depth + 1), _return_value(no, name, depth + 1)
    # an arm that raises yields no value: whatever runs after the call sees the value of the arm that returns
    if a is NEVER or b is NEVER:
        return b if a is NEVER else a
    return phi(c, a, b)


def class_lineage(ctx, rel, cls):
    """the class and the classes of the same module it inherits from, in method resolution order (depth first, left to right; enough for
    single inheritance and mixins), and whether some base class is defined elsewhere -> ([names], foreign)"""
    m = ctx.src.mod(rel)
    out, foreign = [], [False]

    def visit(name, depth=0):
        c = m.classes.get(name)
        if c is None or name in out or depth > 8:
            return
        out.append(name)
        for b in c.bases:
            d = dotted(b)
            if d in m.classes:
                visit(d, depth + 1)
            elif d not in ("object",):
                foreign[0] = True
    if cls:
        visit(cls)
    return out, foreign[0]


def resolve_method(ctx, rel, qual):
    """the qualified name under which a method of a class is defined: in the class itself or in a base class of the same module"""
    m = ctx.src.mod(rel)
    if qual in m.funcs or "." not in qual:
        return qual
    cls, nm = qual.rsplit(".", 1)
    for c in class_lineage(ctx, rel, cls)[0]:
        if f"{c}.{nm}" in m.funcs:
            return f"{c}.{nm}"
    return qual


def _method_table(ctx, rel, cls):
    m = ctx.src.mod(rel)
    out = {}
    lineage = class_lineage(ctx, rel, cls)[0] if cls else []
    for q, f in m.funcs.items():
        if "#" in q:
            continue
        if "." not in q:
            out[q] = f
    for c in reversed(lineage):          # (a method of the class overrides the one it inherits)
        for q, f in m.funcs.items():
            if "#" not in q and q.startswith(c + ".") and q.count(".") == c.count(".") + 1:
                nm = q.rsplit(".", 1)[1]
                out["self." + nm] = f
                out[cls + "." + nm] = f
                out[c + "." + nm] = f
                out["super()." + nm] = f if c != cls else out.get("super()." + nm, f)
    return out


_FILE_METHODS = {"read", "seek", "readline", "readlines"}
_FILE_NEUTRAL = frozenset({"isinstance", "id", "print", "repr", "str", "type", "hasattr", "getattr", "bool", "callable", "fstat", "fileno", "isatty"})
_VALUE_METHODS = frozenset(K.STR_METHODS | K.INT_METHODS | {
    "append", "extend", "insert", "pop", "remove", "sort", "reverse", "clear", "add", "update", "setdefault", "popitem", "discard", "copy", "get",
    "items", "keys", "values", "index", "count", "unpack", "unpack_from", "iter_unpack", "pack", "pack_into", "view", "astype", "reshape", "tolist",
    "byteswap", "ravel", "flatten", "transpose", "item", "any", "all", "sum", "min", "max", "nonzero", "searchsorted", "fill", "tobytes", "newbyteorder",
    "close", "flush", "fileno", "isatty", "seekable", "readable", "warn"})
_MUTATORS = frozenset({"append", "extend", "insert", "pop", "remove", "sort", "reverse", "clear", "add", "update", "setdefault", "popitem", "discard"})


def _file_effects(table):
    """functions of the table that touch a file, directly or through other functions of the table"""
    direct = set()
    callees = {}
    for nm, f in table.items():
        cs = set()
        for n in ast.walk(f):
            if isinstance(n, ast.Call):
                d = dotted(n.func)
                if isinstance(n.func, ast.Attribute) and n.func.attr in _FILE_METHODS:
                    direct.add(f)
                elif d in ("np.fromfile", "numpy.fromfile") or (d or "").split(".")[-1] == "islice":
                    direct.add(f)
                elif d in table:
                    cs.add(table[d])
        callees[f] = cs
    eff = set(direct)
    n = -1
    while n != len(eff):
        n = len(eff)
        for f, cs in callees.items():
            if f not in eff and cs & eff:
                eff.add(f)
    return eff


def _own_level(st):
    """nodes of a statement that belong to the enclosing loop: nested loops and function definitions are not entered"""
    if isinstance(st, (ast.While, ast.For, ast.AsyncFor)):
        # a loop that is itself a statement of the enclosing loop's body: its `break` / `continue` are its own
        yield st
        for x in ast.walk(st):
            if isinstance(x, (ast.Return, ast.Raise)):
                yield x
        for y in st.orelse:             # (the `else` of a loop is not part of its body)
            for x in _own_level(y):
                if not isinstance(x, (ast.Return, ast.Raise)):
                    yield x
        return
    if isinstance(st, (ast.FunctionDef, ast.AsyncFunctionDef, ast.ClassDef)):
        return
    stack = [st]
    while stack:
        n = stack.pop()
        yield n
        for ch in ast.iter_child_nodes(n):
            if isinstance(ch, (ast.While, ast.For, ast.AsyncFor, ast.FunctionDef, ast.AsyncFunctionDef, ast.Lambda, ast.ClassDef)):
                if isinstance(ch, (ast.While, ast.For, ast.AsyncFor)):
                    # a `return` / `raise` inside a nested loop still leaves this one
                    for x in ast.walk(ch):
                        if isinstance(x, (ast.Return, ast.Raise)):
                            yield x
                continue
            stack.append(ch)


def _own_function_nodes(st):
    """the nodes of a statement that belong to the function it is written in (nested functions, lambdas and classes are not entered)"""
    stack = [st]
    while stack:
        n = stack.pop()
        yield n
        for ch in ast.iter_child_nodes(n):
            if not isinstance(ch, (ast.FunctionDef, ast.AsyncFunctionDef, ast.Lambda, ast.ClassDef)):
                stack.append(ch)


def _none_narrowing(test):
    """a test that tells whether a local is None: -> (name, True when the local is not None on the true arm) else None"""
    neg = False
    while isinstance(test, ast.UnaryOp) and isinstance(test.op, ast.Not):
        test, neg = test.operand, not neg
    if isinstance(test, ast.Compare) and len(test.ops) == 1 and isinstance(test.comparators[0], ast.Constant) and test.comparators[0].value is None \
            and isinstance(test.ops[0], (ast.Is, ast.IsNot, ast.Eq, ast.NotEq)) and isinstance(test.left, (ast.Name, ast.Attribute)):
        nm = dotted(test.left)
        return (nm, isinstance(test.ops[0], (ast.IsNot, ast.NotEq)) != neg) if nm else None
    if isinstance(test, (ast.Name, ast.Attribute)):
        nm = dotted(test)
        return (nm, not neg) if nm else None
    return None


def _fold_continue(body):
    """`if c: A; continue` followed by R  ==  `if c: A  else: R` (and the mirrored form); a `continue` that ends the body is dropped.
    -> the new body, or None when nothing changed"""
    changed = False
    body = list(body)
    if body and isinstance(body[-1], ast.Continue):
        body, changed = body[:-1], True
    for i, x in enumerate(body):
        if not isinstance(x, ast.If):
            continue
        rest = body[i + 1:]
        new = None
        if x.body and isinstance(x.body[-1], ast.Continue) and not _always_exits(x.orelse):
            new = ast.If(test=x.test, body=list(x.body[:-1]) or [ast.copy_location(ast.Pass(), x)], orelse=list(x.orelse) + rest)
        elif x.orelse and isinstance(x.orelse[-1], ast.Continue) and not _always_exits(x.body):
            new = ast.If(test=x.test, body=list(x.body) + rest, orelse=list(x.orelse[:-1]))
        if new is not None:
            ast.copy_location(new, x)
            for arm in ("body", "orelse"):
                sub = _fold_continue(getattr(new, arm))
                if sub is not None:
                    setattr(new, arm, sub or ([ast.copy_location(ast.Pass(), x)] if arm == "body" else []))
            return body[:i] + [new]
    return body if changed else None


def _loop_exits(body):
    """the statements that leave a loop: its own `break`s, and every `return` / `raise` inside it"""
    out = []
    for st in body:
        for n in _own_level(st):
            if isinstance(n, (ast.Break, ast.Return, ast.Raise)) and not any(n is x for x in out):
                out.append(n)
    return out


def _has_continue(stmts):
    return any(isinstance(n, ast.Continue) for st in stmts for n in _own_level(st))


def _always_exits(stmts):
    if not stmts:
        return False
    last = stmts[-1]
    if isinstance(last, (ast.Return, ast.Raise, ast.Break, ast.Continue)):
        return True
    if isinstance(last, ast.If):
        return bool(last.orelse) and _always_exits(last.body) and _always_exits(last.orelse)
    return False


def _is_simple(f):
    """a helper that only computes values from its arguments: assignments to its own locals, tests, returns - no loops, no stores into
    objects, no statements evaluated for their effect"""
    def ok_target(t):
        if isinstance(t, ast.Name):
            return True
        if isinstance(t, (ast.Tuple, ast.List)):
            return all(ok_target(e) for e in t.elts)
        return False

    def ok(stmts):
        for st in stmts:
            if isinstance(st, ast.Expr) and isinstance(st.value, ast.Constant):
                continue
            if isinstance(st, ast.Assign):
                if not all(ok_target(t) for t in st.targets):
                    return False
            elif isinstance(st, (ast.AnnAssign, ast.AugAssign)):
                if not ok_target(st.target):
                    return False
            elif isinstance(st, ast.If):
                if not ok(st.body) or not ok(st.orelse):
                    return False
            elif isinstance(st, (ast.Return, ast.Pass, ast.Raise, ast.Assert)):
                continue            # (a path that rejects its arguments returns nothing)
            else:
                return False
        return True
    if any(isinstance(n, (ast.Yield, ast.YieldFrom, ast.Await, ast.Lambda)) for n in ast.walk(f)):
        return False
    return ok(f.body) and any(isinstance(n, ast.Return) and n.value is not None for n in ast.walk(f))


def _is_property(f):
    return any(isinstance(d, ast.Name) and d.id in ("property", "cached_property") or isinstance(d, ast.Attribute) and d.attr == "cached_property"
               for d in f.decorator_list)


def _lambda_def(node):
    """`lambda a: e` as `def <lambda>(a): return e`"""
    ret = ast.copy_location(ast.Return(value=node.body), node)
    fd = ast.FunctionDef(name="<lambda>", args=node.args, body=[ret], decorator_list=[], returns=None, type_comment=None, type_params=[])
    return ast.fix_missing_locations(ast.copy_location(fd, node))


def _is_getter(f):
    body = [s for s in f.body if not (isinstance(s, ast.Expr) and isinstance(s.value, ast.Constant))]
    return len(body) == 1 and isinstance(body[0], ast.Return)


# ------------------------------------------------------------------------------------------------------------------ boolean guards
def bool_form(v):
    """truth value of a formula as a boolean structure over atoms: ('and'|'or', [..]) | ('not', x) | ('atom', key, value) | ('const', b)"""
    v = canon_tests(v)
    return _bool(v)


def _bool(v):
    if v.is_const():
        return ("const", v.const_value() != 0)
    p = fn_parts(v)
    if p is not None:
        nm, args = p
        if nm == "bool:And":
            return ("and", [_bool(a) for a in args])
        if nm == "bool:Or":
            return ("or", [_bool(a) for a in args])
        if nm == "not":
            return ("not", _bool(args[0]))
        if nm == "phi":
            c, a, b = args
            ta, tb = _truth(a), _truth(b)
            if ta is True and tb is False:
                return _bool(c)
            if ta is False and tb is True:
                return ("not", _bool(c))
            return ("or", [("and", [_bool(c), _bool(a)]), ("and", [("not", _bool(c)), _bool(b)])])
        if nm == "call:bool" and len(args) == 1 and not isinstance(args[0], str):
            return _bool(args[0])
        if nm == "ge0" and len(args) == 1 and not isinstance(args[0], str) and not args[0].is_const() and _negative_lead(args[0]):
            # x < 0 is the negation of x >= 0: one atom for both
            pos = F.fn("ge0", -args[0] - 1)
            return ("not", atom(pos))
    if sym_name(v) in ("True", "False"):
        return ("const", sym_name(v) == "True")
    return atom(v)


def akey(v):
    """a key for a formula used as a boolean atom: its text, made unique when the text is abbreviated"""
    t = repr(v)
    if len(t) < 300:
        return t
    import hashlib
    return t[:120] + "...#" + hashlib.sha1(repr((v.n.key(), v.d.key())).encode()).hexdigest()[:16]


def atom(v):
    return ("atom", akey(v), v)


def _negative_lead(r):
    """sign of the first non-constant term (x and -x - 1 always differ in it)"""
    ks = [k for k in r.n.t if k != ()]
    if not ks or not r.d.is_const():
        return False
    return (r.n.t[min(ks)] / r.d.const_value()) < 0


def _truth(v):
    if v.is_const():
        return v.const_value() != 0
    if sym_name(v) in ("True", "False"):
        return sym_name(v) == "True"
    return None


def guard_form(guard):
    parts = []
    for c, pol in guard:
        if is_unknown(c):
            raise Unsupported(f"guard that cannot be lowered: {c.why}")
        b = bool_form(c)
        parts.append(b if pol else ("not", b))
    return ("and", parts)


def bool_atoms(f, out=None):
    out = {} if out is None else out
    if f[0] == "atom":
        out[f[1]] = f[2]
    elif f[0] in ("and", "or"):
        for x in f[1]:
            bool_atoms(x, out)
    elif f[0] == "not":
        bool_atoms(f[1], out)
    return out


def bool_eval(f, asg):
    if f[0] == "const":
        return f[1]
    if f[0] == "atom":
        return asg[f[1]]
    if f[0] == "not":
        return not bool_eval(f[1], asg)
    if f[0] == "and":
        return all(bool_eval(x, asg) for x in f[1])
    return any(bool_eval(x, asg) for x in f[1])


def assignments(keys):
    keys = sorted(keys)
    if len(keys) > 14:
        raise Unsupported("too many atoms in a guard")
    for bits in itertools.product((False, True), repeat=len(keys)):
        yield dict(zip(keys, bits))


def bool_equiv(f, g):
    keys = set(bool_atoms(f)) | set(bool_atoms(g))
    return all(bool_eval(f, a) == bool_eval(g, a) for a in assignments(keys))
