"""E3m -- sub-space typing of mask / index partitioned vector code.

Code such as `get_su_coef` partitions one index space (the modes) by boolean masks and index vectors, computes on the selected sub-vectors and
stores the results back through the same selectors.  Every 1-D array lives in a *space*; `X[I]` needs `space(X) == dom(I)` and yields the
sub-space `cod(I)`; `X[I] = e` needs `space(e) == cod(I)` (or a scalar); elementwise operations need equal spaces; an index vector indexed by
another (`pvvelo[pvdisp]`) composes.  Sub-spaces are named after the selector (`K/pvvelo`, `K/pvvelo/pvdisp`), so two selections by the same
selector are the same space whatever temporaries hold them.  Only *proved* mismatches (both spaces known and different) are reported; anything the
engine cannot type is unknown and silent, but the number of resolved operations is returned so that a rule can keep a floor.
"""
from __future__ import annotations

import ast

from .e1_srcmodel import dotted

ELEMENTWISE = {"abs", "np.abs", "np.absolute", "np.sqrt", "np.exp", "np.cos", "np.sin", "np.cosh", "np.sinh", "np.log", "np.real", "np.imag",
               "np.conj", "np.sign", "np.isnan", "np.isfinite", "np.logical_not", "np.asarray", "np.atleast_1d", "np.copy", "np.negative",
               "np.square", "np.arctan", "np.tan", "np.expm1", "np.log1p", "math.sqrt", "math.exp", "np.diag"}
REDUCE = {"np.any", "np.all", "np.sum", "np.max", "np.min", "np.amax", "np.amin", "len", "np.count_nonzero", "np.mean", "np.prod", "np.size",
          "any", "all", "max", "min", "sum"}
CTORS = {"np.zeros", "np.ones", "np.empty", "np.full"}
SAME_METHODS = {"astype", "copy", "conj", "ravel", "squeeze", "flatten", "view"}
REDUCE_METHODS = {"any", "all", "sum", "max", "min", "mean", "prod"}


class A:          # array / mask in a space; kind: "mask" (boolean provenance), "val" (numbers), None (unknown)
    __slots__ = ("s", "kind")

    def __init__(self, s, kind=None):
        self.s = s
        self.kind = kind

    def __repr__(self):
        return f"A({self.s}{',' + self.kind if self.kind else ''})"


class I:          # integer index vector: positions in `dom`, selecting `cod`
    __slots__ = ("dom", "cod")

    def __init__(self, dom, cod):
        self.dom, self.cod = dom, cod

    def __repr__(self):
        return f"I({self.dom}->{self.cod})"


class NZ:         # result of .nonzero() / np.nonzero(): a tuple whose element 0 is an index vector over s
    __slots__ = ("s",)

    def __init__(self, s):
        self.s = s


S = "scalar"


class MaskTyper:
    def __init__(self, params, sizes=None, report=None, passthrough=(), cond=None):
        self.cond = dict(cond or {})             # normalised test text -> bool: only that arm is typed
        self.passthrough = set(passthrough)      # calls that return their first argument as an index vector / array of the same space
        """params: name -> A(space) | I(dom, cod) | S ; sizes: name (of an integer) -> space whose length it is (np.zeros(n) lives there)"""
        self.env = dict(params)
        self.sizes = dict(sizes or {})
        self.report = report or (lambda kind, node, detail: None)
        self.resolved = 0
        self.ver = {}
        self.attr_types = {}      # dotted attribute -> type at the end (for rules that chain methods of one class)

    # ------------------------------------------------------------------ helpers
    def _sel_name(self, node):
        """stable name of a selector expression"""
        if isinstance(node, ast.Name):
            return f"{node.id}" + (f"#{self.ver[node.id]}" if self.ver.get(node.id, 0) > 0 else "")
        return "<" + ast.unparse(node).replace(" ", "") + ">"

    def _join(self, node, types, what):
        sp = [t.s for t in types if isinstance(t, A) and t.s is not None]
        out = None
        for s in sp:
            if out is None:
                out = s
            elif s != out:
                self.resolved += 1
                self.report("elementwise-space", node, f"`{ast.unparse(node)[:140]}`: operands live in spaces {out} and {s} ({what})")
                return None
        if len(sp) >= 2:
            self.resolved += 1
        kind = {"comparison": "mask", "boolean operation": "mask"}.get(what)
        if kind is None and what == "mask operation":
            kind = "mask" if all(t.kind == "mask" for t in types if isinstance(t, A)) else "val"
        if kind is None:
            kind = "val"
        if out is not None:
            return A(out, kind)
        if any(isinstance(t, A) for t in types):
            return A(None, kind)
        if types and all(t == S for t in types):
            return S
        return None

    # ------------------------------------------------------------------ expressions
    def ty(self, node):
        if isinstance(node, ast.Constant):
            return S if isinstance(node.value, (int, float, complex, bool)) else None
        if isinstance(node, ast.Name):
            return self.env.get(node.id)
        if isinstance(node, ast.Attribute):
            d = dotted(node)
            if d in self.env:
                return self.env[d]
            base = self.ty(node.value)
            if isinstance(base, A) and node.attr in ("T", "real", "imag"):
                return base
            if isinstance(base, (A, I)) and node.attr in ("size", "shape", "ndim", "dtype"):
                return S
            return None
        if isinstance(node, ast.UnaryOp):
            t = self.ty(node.operand)
            if isinstance(t, A) and isinstance(node.op, ast.Not):
                return A(t.s, "mask")
            if isinstance(t, A) and not isinstance(node.op, ast.Invert):
                return A(t.s, "val")
            return t
        if isinstance(node, ast.BinOp):
            what = "mask operation" if isinstance(node.op, (ast.BitAnd, ast.BitOr, ast.BitXor)) else "elementwise operation"
            return self._join(node, [self.ty(node.left), self.ty(node.right)], what)
        if isinstance(node, ast.Compare):
            return self._join(node, [self.ty(node.left)] + [self.ty(c) for c in node.comparators], "comparison")
        if isinstance(node, ast.BoolOp):
            return self._join(node, [self.ty(v) for v in node.values], "boolean operation")
        if isinstance(node, ast.IfExp):
            a, b = self.ty(node.body), self.ty(node.orelse)
            if isinstance(a, A) and isinstance(b, A):
                return self._join(node, [a, b], "conditional expression arms")
            return a if a is not None else b
        if isinstance(node, ast.Subscript):
            return self.subscript(node)
        if isinstance(node, ast.Call):
            return self.call(node)
        return None

    def selector(self, node, base_space):
        """type check `X[node]` where X lives in base_space; returns the selected sub-space or None"""
        if isinstance(node, ast.Slice):
            return None
        t = self.ty(node)
        if isinstance(t, I):
            if base_space is not None and t.dom is not None:
                self.resolved += 1
                if base_space != t.dom:
                    self.report("index-space", node, f"index `{ast.unparse(node)}` holds positions relative to space {t.dom} but indexes an array in space {base_space}")
                    return None
            return t.cod
        if isinstance(t, A):
            if t.kind != "mask":
                return None          # an integer-valued array used as an index: its positions are not known to refer to its own space
            # boolean mask
            if base_space is not None and t.s is not None:
                self.resolved += 1
                if base_space != t.s:
                    self.report("index-space", node, f"mask `{ast.unparse(node)}` lives in space {t.s} but indexes an array in space {base_space}")
                    return None
            sp = t.s if t.s is not None else base_space
            return f"{sp}/{self._sel_name(node)}" if sp is not None else None
        return None

    def subscript(self, node):
        base = self.ty(node.value)
        sl = node.slice
        if isinstance(base, NZ):
            if isinstance(sl, ast.Constant) and sl.value == 0:
                return I(base.s, None)       # cod named at the assignment
            return None
        if isinstance(base, I):
            # an index vector indexed by another selector: positions compose
            sub = self.selector(sl, base.cod)
            if sub is not None:
                return I(base.dom, sub)
            return None
        if isinstance(base, A):
            t = self.ty(sl) if isinstance(sl, (ast.Call, ast.Name)) else None
            if isinstance(t, tuple) and t and t[0] == "ix":
                # a square array of space s x s indexed by np.ix_(I, J): both selectors must index s; the result is square in cod(I) when I == J
                cods = []
                for ix in t[1:]:
                    if isinstance(ix, I):
                        if base.s is not None and ix.dom is not None:
                            self.resolved += 1
                            if base.s != ix.dom:
                                self.report("index-space", node, f"`{ast.unparse(node)[:100]}`: np.ix_ selector holds positions relative to {ix.dom} but the array lives in {base.s}")
                        cods.append(ix.cod)
                    else:
                        cods.append(None)
                return A(cods[0] if len(set(cods)) == 1 else None)
            if isinstance(sl, ast.Tuple):
                return A(None)
            if isinstance(sl, ast.Constant) and isinstance(sl.value, int):
                return S
            sub = self.selector(sl, base.s)
            return A(sub)
        return None

    def call(self, node):
        d = dotted(node.func)
        args = node.args
        if d in self.passthrough and args:
            t = self.ty(args[0])
            if isinstance(t, A) and t.s is not None:
                return I(t.s, None)            # a boolean mask turned into positions
            return t
        if d == "np.ix_" and len(args) == 2:
            i, j = self.ty(args[0]), self.ty(args[1])
            return ("ix", i, j)
        if d in ELEMENTWISE and args:
            return self.ty(args[0])
        if d in REDUCE:
            for a in args:
                self.ty(a)
            return S
        if d in ("np.nonzero",) and args:
            t = self.ty(args[0])
            return NZ(t.s) if isinstance(t, A) else None
        if d in ("np.where", "np.flatnonzero") and len(args) == 1:
            t = self.ty(args[0])
            if isinstance(t, A):
                return NZ(t.s) if d == "np.where" else I(t.s, None)
            return None
        if d in ("np.array", "np.asarray") and args and isinstance(args[0], (ast.List, ast.Tuple)) and not args[0].elts:
            return EMPTY
        if d in CTORS and args:
            a0 = args[0]
            d0 = dotted(a0)
            dt = [ast.unparse(x) for x in list(args[1:]) + [k.value for k in node.keywords if k.arg == "dtype"]]
            kind = "mask" if any(x in ("bool", "np.bool_", "'bool'") for x in dt) else "val"
            if d0 in self.sizes:
                return A(self.sizes[d0], kind)
            return A(None, kind)
        if d in ("np.zeros_like", "np.ones_like", "np.empty_like") and args:
            return self.ty(args[0])
        if d in ("float", "int", "complex"):
            return S
        if isinstance(node.func, ast.Attribute):
            base = self.ty(node.func.value)
            at = node.func.attr
            if isinstance(base, A):
                if at == "astype" and args:
                    return A(base.s, "mask" if ast.unparse(args[0]) in ("bool", "np.bool_", "'bool'") else "val")
                if at in SAME_METHODS:
                    return base
                if at in REDUCE_METHODS:
                    # a reduction along one axis of a square array keeps the space of the other axis
                    if any(k.arg == "axis" for k in node.keywords) or args:
                        return A(base.s)
                    return S
                if at == "nonzero":
                    return NZ(base.s)
            if isinstance(base, I) and at in SAME_METHODS:
                return base
        for a in args:
            self.ty(a)
        return None

    # ------------------------------------------------------------------ statements
    def run(self, stmts):
        for st in stmts:
            self.stmt(st)

    def stmt(self, st):
        if isinstance(st, ast.Assign):
            v = self.ty(st.value)
            for t in st.targets:
                self.assign(t, v, st)
        elif isinstance(st, ast.AnnAssign) and st.value is not None:
            self.assign(st.target, self.ty(st.value), st)
        elif isinstance(st, ast.AugAssign):
            v = self.ty(st.value)
            if isinstance(st.target, ast.Subscript):
                self.store(st.target, v, st)
            else:
                cur = self.ty(st.target)
                self._join(st, [cur, v], "augmented assignment")
        elif isinstance(st, ast.If) and ast.unparse(st.test).replace(" ", "") in self.cond:
            self.run(st.body if self.cond[ast.unparse(st.test).replace(" ", "")] else st.orelse)
        elif isinstance(st, ast.If):
            self.ty(st.test)
            env0 = dict(self.env)
            self.run(st.body)
            env1 = self.env
            self.env = dict(env0)
            self.run(st.orelse)
            env2 = self.env
            merged = {}
            for k in set(env1) | set(env2):
                a, b = env1.get(k, env0.get(k)), env2.get(k, env0.get(k))
                merged[k] = _join(a, b, k in env1, k in env2)
            self.env = merged
        elif isinstance(st, (ast.For, ast.While)):
            self.run(st.body)
            self.run(st.orelse)
        elif isinstance(st, ast.With):
            self.run(st.body)
        elif isinstance(st, ast.Try):
            self.run(st.body)
            for h in st.handlers:
                self.run(h.body)
            self.run(st.orelse)
            self.run(st.finalbody)
        elif isinstance(st, ast.Expr):
            self.ty(st.value)
        elif isinstance(st, ast.Return) and st.value is not None:
            self.ty(st.value)

    def assign(self, target, v, st):
        if isinstance(target, ast.Name):
            self.ver[target.id] = self.ver.get(target.id, -1) + 1
            if isinstance(v, I) and v.cod is None and v.dom is not None:
                v = I(v.dom, f"{v.dom}/{self._sel_name(target)}")
            self.env[target.id] = v
        elif isinstance(target, (ast.Tuple, ast.List)):
            vals = None
            if isinstance(st.value, (ast.Tuple, ast.List)) and len(st.value.elts) == len(target.elts):
                vals = [self.ty(e) for e in st.value.elts]
            for i, t in enumerate(target.elts):
                self.assign(t, vals[i] if vals else None, st)
        elif isinstance(target, ast.Subscript):
            self.store(target, v, st)
        elif isinstance(target, ast.Attribute):
            d = dotted(target)
            if d:
                if isinstance(v, I) and v.cod is None and v.dom is not None:
                    v = I(v.dom, f"{v.dom}/{d}")
                self.env[d] = v
                self.attr_types[d] = v

    def store(self, target, v, st):
        base = self.ty(target.value)
        if not isinstance(base, A):
            return
        if isinstance(target.slice, (ast.Tuple, ast.Slice)):
            return
        sub = self.selector(target.slice, base.s)
        if sub is not None and isinstance(v, A) and v.s is not None:
            self.resolved += 1
            if sub != v.s:
                self.report("store-space", st, f"`{ast.unparse(st)[:140]}`: the selector picks sub-space {sub} but the stored value lives in space {v.s}")


EMPTY = "empty"        # a literal empty array: an empty selector / vector fits every space


def _join(a, b, in1, in2):
    if _same(a, b):
        return a
    if a == EMPTY:
        return b
    if b == EMPTY:
        return a
    if isinstance(a, I) and isinstance(b, I) and a.dom == b.dom:
        return I(a.dom, a.cod if a.cod == b.cod else f"{a.dom}/?")
    if isinstance(a, A) and isinstance(b, A):
        return A(a.s if a.s == b.s else None, a.kind if a.kind == b.kind else None)
    if b is None and not in2:
        return a
    if a is None and not in1:
        return b
    return None


def _same(a, b):
    if a is None or b is None:
        return a is b
    if type(a) is not type(b):
        return False
    if isinstance(a, A):
        return a.s == b.s and a.kind == b.kind
    if isinstance(a, I):
        return a.dom == b.dom and a.cod == b.cod
    return a == b
