"""C13 -- bulk-data writers <-> readers (partial claim).

Every rule is decided on *values* computed by the small symbolic interpreter of `c13_sem.py` (string templates, linear integer forms,
path facts), not on the spelling of the source: a format assembled through variables, `+`, `*`, `.format`, f-strings or module constants
is the same template; a guard is recognised by what the tests passed on the way imply at the point of use (early `raise` / `return`,
inverted conditions, `not in`, `elif` chains are all the same guard); locals may be renamed, temporaries introduced or removed, private
helpers of the module extracted or inlined.

Anchors are the public entry points the property names (wttabled1, wtgrids, wtdmig, rddmig, rdtabled1, rdgrids, wtnasints, wtset, wtspoints,
writer.vecwrite, and every other public `wt*` writer for the format-width and THRU rules).  No rule looks a private function up by name: calls
are followed (nested functions, private module-level helpers, generators used as the iterable of a `for`, functools.partial / lambda callbacks),
and where a piece of code has to be singled out it is found by the values that flow into it (`_card_consumer`: the function rddmig hands the
result of rdcards to; R2: the function that contains a vecwrite call, then its users up to the public entry points).
A violation is reported only for a contradiction that is proved (a witness under the tests the code performs, two literal texts that differ);
whatever is merely not understood - an unknown call that returns the data, a use of the file this module does not model - is an analysis
error (exit 2).
"""
from __future__ import annotations

import ast

from .core import AnchorError, Unsupported
from .e1_srcmodel import dotted, walk_no_nested, parent, ancestors
from . import c13_sem as M
from . import c13_len
from . import c13_ncol
from .c13_sem import Lin, S, lin, show

BULK = "pyyeti/nastran/bulk.py"
WRITER = "pyyeti/writer.py"
YTOOLS = "pyyeti/ytools.py"


# ====================================================================================================================== helpers
def helpers_of(m):
    """private module-level functions: followed (evaluated on the argument values) when a writer calls them"""
    h = m.__dict__.get("_c13_helpers")
    if h is None:
        h = m.__dict__["_c13_helpers"] = {q: f for q, f in m.funcs.items() if "." not in q and "#" not in q and q.startswith("_") and not q.startswith("__")}
    return h


def publics(m, prefix=""):
    """the public module-level functions (the entry points the property names are among them): rules bind to these, never to a private helper"""
    return {q: f for q, f in sorted(m.funcs.items()) if "." not in q and "#" not in q and not q.startswith("_") and q.startswith(prefix)}


def reach(m, fn):
    """the functions whose code belongs to `fn`: its nested functions and the private module-level helpers it refers to (called, passed as a
    value, wrapped in functools.partial), transitively.  Extracting or inlining a helper does not change the union of these bodies."""
    cache = m.__dict__.setdefault("_c13_reach", {})
    if id(fn) in cache:
        return cache[id(fn)]
    hs = helpers_of(m)
    out, stack, seen = [], [fn], {id(fn)}
    while stack:
        f = stack.pop()
        for n in ast.walk(f):
            g = None
            if isinstance(n, (ast.FunctionDef, ast.AsyncFunctionDef)) and n is not f:
                g = n
            elif isinstance(n, ast.Name) and isinstance(n.ctx, ast.Load) and n.id in hs:
                g = hs[n.id]
            elif isinstance(n, ast.Name) and isinstance(n.ctx, ast.Load) and n.id in getattr(m, "classes", {}):
                # a class of the module: its methods work for whoever uses it
                for meth in m.classes[n.id].body:
                    if isinstance(meth, (ast.FunctionDef, ast.AsyncFunctionDef)) and id(meth) not in seen:
                        seen.add(id(meth))
                        out.append(meth)
                        stack.append(meth)
            if g is not None and id(g) not in seen:
                seen.add(id(g))
                out.append(g)
                stack.append(g)
    cache[id(fn)] = out
    return out


def engine(ctx, rel, qual, **kw):
    """the function evaluated on symbols (once per function and case split)"""
    cache = ctx.__dict__.setdefault("_c13_engines", {})
    key = (rel, qual, tuple(sorted((repr(k), v) for k, v in (kw.get("pins") or {}).items())), tuple(sorted(k for k in kw if k != "pins")))
    if key in cache and set(kw) <= {"pins"}:
        return cache[key]
    m = ctx.src.mod(rel)
    fn = ctx.src.func(rel, qual)
    follow = helpers_of(m)
    if "." in qual:
        # a nested function evaluated on its own: the other functions nested in the same parent are followed like module-level helpers
        pre = qual.rsplit(".", 1)[0] + "."
        follow = dict(follow)
        follow.update({q[len(pre):]: f for q, f in m.funcs.items() if q.startswith(pre) and "." not in q[len(pre):] and "#" not in q and f is not fn})
    E = M.Engine(m, fn, follow=follow, **kw)
    E.run()
    cache[key] = E
    return E


def is_write(e):
    return e.kind == "call" and e.d["attr"] == "write" and len(e.d["args"]) == 1


def is_vecwrite(e):
    return e.kind == "call" and (e.d["attr"] == "vecwrite" or (e.d["name"] or "").split(".")[-1] == "vecwrite")


def vecwrite_parts(e):
    """(file, template, data arguments) of a vecwrite call, positional or by keyword"""
    a = list(e.d["args"])
    kw = e.d["kws"]
    tmpl = a[1] if len(a) > 1 else kw.get("string")
    return (a[0] if a else kw.get("f")), tmpl, a[2:]


def the_atom(v):
    """the single atom of a linear form `1 * atom`, else None"""
    if isinstance(v, Lin) and len(v.t) == 1 and v.c == 0:
        (at, c), = v.t.items()
        if c == 1:
            return at
    return None


def flen_atoms(facts, name):
    """the atoms len(<name>.format(k args)) the facts speak about"""
    out = []

    def walk(v):
        if isinstance(v, Lin):
            for at in v.t:
                if isinstance(at, tuple) and at and at[0] == "flen" and at[1] == ("sym", name) and at not in out:
                    out.append(at)
                walk(at)
        elif isinstance(v, tuple):
            for x in v:
                if isinstance(x, (Lin, tuple)):
                    walk(x)
    for t, _ in facts:
        walk(t)
    return out


def line_layout(parts, subw):
    """one physical line (list of S parts, no newline) -> dict(head, fields, widths, stray) ; `subw`: width of an opaque template fragment"""
    items = M.template_items(S(parts))
    head = None
    widths = []
    stray = ""
    ok = True
    for it in items:
        if it[0] == "text":
            if head is None and not widths:
                head = it[1][:8]
                stray += it[1][8:]
            else:
                stray += it[1]
        elif it[0] == "field":
            if it[1] is None or it[1].width is None:
                ok = False
                widths.append(None)
            else:
                widths.append(it[1].width)
        elif it[0] == "sub":
            widths.append(subw)
        elif it[0] == "done":
            x = it[1]
            if x[0] == "fv":
                sp = M.parse_spec(x[1]) if x[1] is not None else None
                widths.append(sp.width if sp else None)
                ok = ok and sp is not None and sp.width is not None
            else:
                widths.append(subw)
        else:
            ok = False
    return {"head": head, "fields": len(widths), "widths": widths, "stray": stray, "ok": ok}


# ====================================================================================================================== R1
class _Once:
    """one obligation per distinct key"""

    def __init__(self, ctx):
        self.ctx = ctx
        self.seen = set()

    def check(self, ok, inst, where, detail=None, key=None, nontrivial=True):
        k = key or inst
        if k in self.seen:
            return ok
        self.seen.add(k)
        return self.ctx.check(ok, inst, where, detail, key=key, nontrivial=nontrivial)


def _lazy_state(E, fn):
    """flow-insensitive environment: a local bound exactly once (plain assignment, not in a loop header) stands for its defining expression"""
    defs = {}
    for n in walk_no_nested(fn):
        if isinstance(n, ast.Assign) and len(n.targets) == 1 and isinstance(n.targets[0], ast.Name):
            defs.setdefault(n.targets[0].id, []).append(n.value)
        elif isinstance(n, ast.Assign) and len(n.targets) == 1 and isinstance(n.targets[0], ast.Tuple) and isinstance(n.value, ast.Tuple) \
                and len(n.targets[0].elts) == len(n.value.elts) and all(isinstance(t, ast.Name) for t in n.targets[0].elts):
            for t, v in zip(n.targets[0].elts, n.value.elts):       # a, b = x, y
                defs.setdefault(t.id, []).append(v)
        elif isinstance(n, ast.Name) and isinstance(n.ctx, ast.Store):
            p_ = parent(n)
            pp = parent(p_) if p_ is not None else None
            if isinstance(p_, ast.Assign) and len(p_.targets) == 1 and p_.targets[0] is n:
                continue
            if isinstance(p_, ast.Tuple) and isinstance(pp, ast.Assign) and len(pp.targets) == 1 and pp.targets[0] is p_ and isinstance(pp.value, ast.Tuple) \
                    and len(p_.elts) == len(pp.value.elts) and all(isinstance(t, ast.Name) for t in p_.elts):
                continue
            defs.setdefault(n.id, []).extend([None, None])
    st = M.State(E.env0)
    busy = set()
    alt = {"alternatives": {k: d for k, d in defs.items() if 2 <= len(d) <= 4 and all(x is not None for x in d)}, "choice": {}}     # locals bound in several arms

    class Env(dict):
        def _resolve(self, k):
            if dict.__contains__(self, k):
                return dict.__getitem__(self, k)
            d = defs.get(k)
            if k in alt["choice"] and d is not None and k not in busy:
                busy.add(k)
                try:
                    return E.ev(d[alt["choice"][k]], st)
                except Unsupported:
                    return ("sym", k)
                finally:
                    busy.discard(k)
            if d and len(d) == 1 and d[0] is not None and k not in busy:
                busy.add(k)
                try:
                    v = E.ev(d[0], st)
                except Unsupported:
                    v = ("sym", k)
                finally:
                    busy.discard(k)
                return v
            return None

        def __contains__(self, k):
            return self._resolve(k) is not None

        def __getitem__(self, k):
            v = self._resolve(k)
            if v is None:
                raise KeyError(k)
            return v

        def get(self, k, default=None):
            v = self._resolve(k)
            return default if v is None else v

    env = Env()
    env.update(E.env0)
    env.alt = alt
    st.env = env
    return st


def _string_roots(fn):
    """maximal string-building expressions of a function (docstrings excluded)"""
    roots = {}
    bound_formats = {t.id for n in walk_no_nested(fn) if isinstance(n, ast.Assign) and isinstance(n.value, ast.Attribute) and n.value.attr == "format"
                     for t in n.targets if isinstance(t, ast.Name)}
    for n in walk_no_nested(fn):
        cand = None
        if isinstance(n, ast.JoinedStr):
            cand = n
        elif isinstance(n, ast.Constant) and isinstance(n.value, str) and ("{" in n.value or "%" in n.value):
            p_ = parent(n)
            if isinstance(p_, ast.Expr) or isinstance(p_, ast.arguments):
                continue
            cand = n
        elif isinstance(n, ast.Call) and isinstance(n.func, ast.Name) and n.func.id == "format" and len(n.args) == 2:
            cand = n
        elif isinstance(n, ast.Call) and isinstance(n.func, ast.Name) and n.func.id in bound_formats:
            cand = n                    # fmt = "{:16.9E}".format ... fmt(x)
        elif isinstance(n, ast.Name) and isinstance(n.ctx, ast.Load):
            cand = n if getattr(n, "_c13_modconst", False) and not isinstance(parent(n), ast.arguments) else None
        if cand is None:
            continue
        top = cand
        while True:
            p_ = parent(top)
            if isinstance(p_, ast.BinOp) and isinstance(p_.op, (ast.Add, ast.Mult, ast.Mod)):
                top = p_
            elif isinstance(p_, (ast.JoinedStr, ast.FormattedValue)):
                top = p_
            elif isinstance(p_, ast.Attribute) and p_.attr == "format" and isinstance(parent(p_), ast.Call) and parent(p_).func is p_:
                top = parent(p_)
            elif isinstance(p_, (ast.GeneratorExp, ast.ListComp)) and p_.elt is top and isinstance(parent(p_), ast.Call) \
                    and isinstance(parent(p_).func, ast.Attribute) and parent(p_).func.attr == "join" and p_ in parent(p_).args:
                top = parent(p_)            # sep.join(<text> for x in xs): the text is rendered for the items of xs
            else:
                break
        roots[id(top)] = top
    return list(roots.values())


def _has_text(v):
    """a string, or a literal table (tuple / dict) with strings in it"""
    if isinstance(v, S):
        return True
    if isinstance(v, tuple) and v[:1] == ("tuple",):
        return any(_has_text(x) for x in v[1])
    if isinstance(v, tuple) and v[:1] == ("dict",):
        return any(_has_text(x) for _, x in v[1])
    return False


def _float_specs(v, out, node):
    """(Spec, role or None, kind) of every floating-point field in a string value (or in the strings of a literal table)"""
    if isinstance(v, tuple) and v[:1] == ("tuple",):
        for x in v[1]:
            _float_specs(x, out, node)
        return
    if isinstance(v, tuple) and v[:1] == ("dict",):
        for _, x in v[1]:
            _float_specs(x, out, node)
        return
    if not isinstance(v, S):
        return
    for x in v.p:
        if x[0] == "fv":
            sp = M.parse_spec(x[1]) if x[1] is not None else None
            if sp is not None and sp.type in ("e", "E", "f", "F", "g", "G") and sp.width is not None:
                out.append((sp, x[3] if len(x) > 3 else None, x[2], node))
            if isinstance(x[2], S):
                _float_specs(x[2], out, node)
        elif x[0] == "lit":
            for it in M.template_items(S((x,))):
                if it[0] == "field" and it[1] is not None and it[1].type in ("e", "E", "f", "F", "g", "G") and it[1].width is not None:
                    val = None
                    for a_ in [a_ for a_ in (it[2] or "").split(".")[1:] if a_ in ("real", "imag")]:
                        val = ("attr", val if val is not None else ("sym", "term"), a_)         # "{0.real:16.9E}": the real part of the argument
                    out.append((it[1], None, val, node))
        elif x[0] == "rep":
            _float_specs(x[1], out, node)
        elif x[0] == "join" and isinstance(x[2], tuple) and x[2][:1] == ("comp",) and isinstance(x[2][1], S):
            # sep.join(<text> for item in items): the text once per known item, else once for the generic item
            elt, it, tv = x[2][1], x[2][2], x[2][3]
            if isinstance(it, tuple) and it[:1] == ("tuple",) and not any(isinstance(y, tuple) and y[:1] == ("star",) for y in it[1]) and isinstance(tv, tuple):
                for item in it[1]:
                    _float_specs(M.subst(elt, tv, item), out, node)
            else:
                _float_specs(elt, out, node)


def _value_role(v):
    """`x.real` / `x.imag` of whatever x is -> term.real / term.imag (so a temporary holding the part keeps the role)"""
    parts = []
    while isinstance(v, tuple) and v[:1] == ("attr",):
        parts.append(v[2])
        v = v[1]
    return "term." + ".".join(reversed(parts)) if parts else None


def _effective_default(E, fn, pname):
    """value a parameter has when the caller does not pass it: the signature default, or `if p is None: p = ...` at the top of the body"""
    a = fn.args
    pos = a.posonlyargs + a.args
    dv = None
    for x, d in zip(pos[len(pos) - len(a.defaults):], a.defaults):
        if x.arg == pname:
            dv = d
    for x, d in zip(a.kwonlyargs, a.kw_defaults):
        if x.arg == pname and d is not None:
            dv = d
    if dv is None:
        return None, None
    if isinstance(dv, ast.Constant) and dv.value is None:
        for st in fn.body:
            if isinstance(st, ast.If) and isinstance(st.test, ast.Compare) and len(st.test.ops) == 1 and isinstance(st.test.ops[0], ast.Is) \
                    and isinstance(st.test.left, ast.Name) and st.test.left.id == pname and isinstance(st.test.comparators[0], ast.Constant) \
                    and st.test.comparators[0].value is None:
                for s2 in st.body:
                    if isinstance(s2, ast.Assign) and len(s2.targets) == 1 and isinstance(s2.targets[0], ast.Name) and s2.targets[0].id == pname:
                        return E.ev(s2.value, M.State()), s2
        return None, None
    return E.ev(dv, M.State()), dv


def _part(val):
    """which part of a written number a formatted value is: '' (the value), '.real', '.imag' - whatever the value is called or computed from"""
    parts = []
    while isinstance(val, tuple) and val[:1] == ("attr",) and val[2] in ("real", "imag"):
        parts.append(val[2])
        val = val[1]
    if isinstance(val, tuple) and val[:1] == ("sym",) and isinstance(val[1], str):
        names = val[1].split("@")[0].split(".")          # an attribute of a plain name is kept as the dotted symbol `x.real`
        while len(names) > 1 and names[-1] in ("real", "imag"):
            parts.append(names.pop())
    return "".join("." + x for x in reversed(parts))


def _width_obligations(ctx, once):
    """every floating-point format spec a public writer (or a helper that works for it) puts into a card must hold every finite double in its
    field.  One obligation per (writer, spec, part of the number): where the spec is spelled - f-string, template, `%`, format(), module
    constant, a helper of its own - does not matter."""
    m = ctx.src.mod(BULK)
    n = 0
    modconsts = {st.targets[0].id for st in m.tree.body if isinstance(st, ast.Assign) and len(st.targets) == 1 and isinstance(st.targets[0], ast.Name)}
    hs = helpers_of(m)
    for q, fn in publics(m, "wt").items():
        E0 = M.Engine(m, fn)
        # default `form`
        for pname in [x.arg for x in fn.args.posonlyargs + fn.args.args + fn.args.kwonlyargs]:
            if pname != "form":
                continue
            try:
                dv, where = _effective_default(E0, fn, pname)
            except Unsupported:
                dv, where = None, None
            specs = []
            _float_specs(dv, specs, where)
            for sp, role, val, node in specs:
                n += 1
                W = sp.width or 0
                mw = M.float_max_width(sp)
                txt = "{:" + sp.canon() + "}"
                if mw is None:
                    P = 6 if sp.prec is None else sp.prec
                    hi, lo = W - P - 1, W - P - 2
                    once.check(False, f"{q}: default form `{txt}` fits its {W}-character field for every finite value", fn,
                               f"fixed notation grows with magnitude: {W + 1} characters for any value >= 1e{hi} or <= -1e{lo}; the reader then "
                               "loses the following field (silent corruption)", key=f"C13-R1|{q}|default form {txt}")
                else:
                    ok = mw <= W
                    once.check(ok, f"{q}: default form `{txt}` fits its {W}-character field for every finite value", fn,
                               None if ok else f"a negative value with a three-digit exponent renders {mw} characters (e.g. -1e-100)",
                               key=f"C13-R1|{q}|default form {txt}")
        # the bodies that write for q: q itself, its nested functions, the helpers it refers to; a helper is also evaluated on the values each call
        # site passes (a spec handed down as an argument)
        work = [(fn, None)] + [(g, None) for g in reach(m, fn)]
        done = set()
        while work:
            body, params = work.pop(0)
            key_ = (id(body), repr(sorted((params or {}).items(), key=lambda kv: kv[0])))
            if key_ in done or len(done) > 200:
                continue
            done.add(key_)
            E = E0 if (body is fn and params is None) else M.Engine(m, body, params=params)
            locs = E.locals
            for nm in walk_no_nested(body):
                if isinstance(nm, ast.Name) and isinstance(nm.ctx, ast.Load) and nm.id in modconsts and nm.id not in locs:
                    nm._c13_modconst = _has_text(E.module_const(nm.id))
            st = _lazy_state(E, body)
            if params is None:
                for c in walk_no_nested(body):
                    if isinstance(c, ast.Call) and isinstance(c.func, ast.Name) and c.func.id in hs and c.func.id not in locs:
                        h = hs[c.func.id]
                        hp = [a.arg for a in h.args.posonlyargs + h.args.args]
                        bound = {}
                        try:
                            for pn, a in zip(hp, c.args):
                                if not isinstance(a, ast.Starred):
                                    v = E.ev(a, st)
                                    if isinstance(v, S) and v.text() is not None:
                                        bound[pn] = v
                            for k in c.keywords:
                                if k.arg:
                                    v = E.ev(k.value, st)
                                    if isinstance(v, S) and v.text() is not None:
                                        bound[k.arg] = v
                        except Unsupported:
                            bound = {}
                        if bound:
                            work.append((h, bound))
            for root in _string_roots(body):
                # a local the text is built from that is bound in several arms (`parts = (num,)` / `parts = (num.real, num.imag)`): the text is
                # evaluated once per binding
                alts = [nm for nm in sorted({x.id for x in ast.walk(root) if isinstance(x, ast.Name) and isinstance(x.ctx, ast.Load)}) if nm in st.env.alt["alternatives"]][:2]
                combos = [{}]
                for nm in alts:
                    combos = [dict(c, **{nm: i}) for c in combos for i in range(len(st.env.alt["alternatives"][nm]))]
                specs = []
                for choice in combos:
                    st.env.alt["choice"] = choice
                    try:
                        v = E.ev(root, st)
                    except Unsupported:
                        continue
                    finally:
                        st.env.alt["choice"] = {}
                    _float_specs(v, specs, root)
                for sp, role, val, node in specs:
                    n += 1
                    W = sp.width or 0
                    mw = M.float_max_width(sp)
                    ok = mw is not None and mw <= W
                    what = sp.canon() + " of term" + _part(val)
                    shown = ("{" + (show(val) if val is not None else "") + ":" + sp.text + "}")
                    once.check(ok, f"{q}: spec `{shown}` fits its {W}-character field for every finite value", node,
                               None if ok else (f"a negative value with a three-digit exponent renders {mw} characters" if mw else "fixed notation is unbounded"),
                               key=f"C13-R1|{q}|spec {what}")
    if n >= 8:
        ctx.ok(f"format-width rule bound to {n} floating-point specs in writer functions", BULK + ":1", nontrivial=False)
    else:
        ctx.error(f"format-width rule bound to {n} floating-point specs in writer functions (at least 8 expected)", BULK + ":1")


def _split_evaluable(E, X, values):
    """the case split on the quantity X (the rendered width of a user format) is reliable: every test on the way that mentions X can be evaluated
    for each of the values (a comparison with something unknown - a constant of another module, the result of a call - cannot: the run with X
    replaced by a value then follows arms that may be impossible for that value, and what is found there proves nothing)"""
    seen = set()
    for src in list(E.finals) + E.events():
        for t, _ in src.facts:
            if id(t) in seen:
                continue
            seen.add(id(t))
            if M.mentions(t, X) and any(M.truth(t, {X: v}) is None for v in values):
                return False
    return True


def _arm_value(atom, facts, allowed):
    """the values of `atom` the facts leave possible, and whether all of them are allowed (None: a test on the way speaks about the quantity in a
    way that cannot be evaluated - e.g. membership in something unknown - so nothing can be said)"""
    ok, cand = M.possible_values(atom, facts, extra=allowed, lo=0)
    fine = all(v in allowed for v in ok)
    if not fine and any(M.truth(t, {atom: c}) is None for t, _ in facts if M.mentions(t, atom) for c in list(allowed)[:1]):
        return ok, None
    return ok, fine


class V:
    """verdict of one obligation over several paths: a contradiction (False) wins over `not understood` (None) wins over True"""

    def __init__(self, demote=False):
        self.v, self.detail, self.node = True, None, None
        self.demote = demote          # a contradiction found here is not a proof (the case split it was found under is not reliable): not understood

    def bad(self, detail=None, node=None):
        if self.demote:
            return self.unknown(detail, node)
        if self.v is not False:
            self.v, self.detail = False, detail
            self.node = node or self.node

    def unknown(self, detail=None, node=None):
        if self.v is True:
            self.v, self.detail = None, detail
            self.node = node or self.node

    def at(self, node):
        if self.node is None:
            self.node = node
        return self

    def report(self, ctx, inst, default_node, key=None, chk=None):
        node = self.node or default_node
        if self.v is None:
            ctx.error(inst, node, self.detail)
        else:
            (chk or ctx.check)(self.v, inst, node, self.detail, key=key)


class _Head:
    """descriptor of a comprehension, shaped like a `for` event"""
    kind = "comp"

    def __init__(self, comp):
        self.d = {"iter": comp[2], "target": comp[3], "loop": comp[4]}
        self.node = None
        self.facts = ()


def s_tokens(v, e):
    """tokens of a written string value"""
    if not isinstance(v, S):
        return [("opaque", v, e)]
    out = []
    for x in v.p:
        if x[0] == "lit":
            out.append(("lit", x[1], e))
        elif x[0] == "fv":
            out.append(("fv", x[1], x[2], e))
        elif x[0] == "fmt":
            out.append(("fmt", x[1], x[2], e))
        elif x[0] == "str":
            out.append(("str", x[1], e))
        elif x[0] == "rep":
            out.append(("rep", s_tokens(x[1], e), x[2], e))
        elif x[0] == "join":
            body = s_tokens(x[2][1], e) if isinstance(x[2][1], S) else [("opaque", x[2][1], e)]
            if x[1]:
                body = body + [("lit", x[1], e)]
            out.append(("each", _Head(x[2]), [body], e))
        else:
            out.append(("opaque", x, e))
    return out


def stream(events, cur=()):
    """the output of one path as tokens; loops (and comprehensions) become ("each", head, [alternative bodies])"""
    toks = []
    evs = [e for e in events if e.loops[:len(cur)] == cur]
    i = 0
    while i < len(evs):
        e = evs[i]
        if e.loops == cur:
            if e.kind == "call" and is_vecwrite(e):
                toks.append(("vec", e))
            elif e.kind == "call" and is_write(e):
                toks.extend(s_tokens(e.d["args"][0], e))
            elif e.kind == "call" and _uses_file(e):
                toks.append(("opaque", ("op", "output through " + str(e.d["name"] or e.d["attr"]), ()), e))
            i += 1
            continue
        L = e.loops[len(cur)]
        grp = [x for x in evs[i:] if x.loops[:len(cur) + 1] == cur + (L,)]
        head = next((x for x in grp if x.kind in ("for", "while") and x.d["loop"] == L), None)
        ends = [x for x in grp if x.kind == "loopend" and x.d["loop"] == L]
        if len(ends) <= 1:
            alts = [stream(grp, cur + (L,))]
        else:
            alts = [stream([x for x in grp if set(x.facts) <= set(le.facts)], cur + (L,)) for le in ends]
        if any(alts):
            toks.append(("each", head, alts, e))
        i += len(grp)
    return toks


FILE = ("sym", "f")          # the file parameter of the public writers


def _uses_file(e):
    """a call that may write to the file in a way this module does not model: a method of the file other than write (whose other spellings
    the engine turns into write events), or the file handed to a function that is not followed"""
    if e.d["attr"] in ("write",) or is_vecwrite(e):
        return False
    if e.d["name"] == "print" or e.d["attr"] == "writelines":
        # understood spellings are accompanied by synthetic write events; if none was produced the text is unknown
        return not e.d.get("modelled")
    if e.d["recv"] == FILE and e.d["attr"] not in ("flush", "tell", "seek", "close", "fileno", "isatty", "writable"):
        return True
    vals = list(e.d["args"]) + list(e.d["kws"].values())
    if e.d["name"] in ("functools.partial", "partial"):
        return False                # binding the file to a function writes nothing: the calls made through the partial object are events of their own
    return any(a == FILE or (isinstance(a, tuple) and a[:1] == ("partial",) and M.mentions(a, FILE)) for a in vals)


def to_lines(toks):
    """split a token stream at the newlines of its literals -> (lines, last line terminated?); a vectorised write is a line of its own"""
    lines = [[]]
    for t in toks:
        if t[0] == "lit":
            segs = t[1].split("\n")
            for k, sg in enumerate(segs):
                if k:
                    lines.append([])
                if sg:
                    lines[-1].append(("lit", sg, t[2]))
        elif t[0] == "vec" or (t[0] == "each" and _line_block(t)):
            if lines[-1]:
                lines.append([])
            lines[-1].append(t if t[0] == "vec" else ("looplines", t))
            lines.append([])
        else:
            lines[-1].append(t)
    term = not lines[-1]
    if term:
        lines.pop()
    return lines, term


def _line_block(t):
    """a loop each pass of which writes exactly one complete line (text ... newline)"""
    alts = t[2]
    if len(alts) != 1 or not alts[0]:
        return False
    toks = alts[0]
    nl = sum(x[1].count("\n") for x in toks if x[0] == "lit")
    return toks[-1][0] == "lit" and toks[-1][1].endswith("\n") and nl == 1 and all(x[0] in ("lit", "fmt") for x in toks)


def _pair_source(args, head, N):
    """which elements a `form.format(a, b)` inside a loop / comprehension renders: ((base of a, base of b), first index, end index) or None"""
    if head is None or len(args) != 2:
        return None
    it = head.d["iter"]
    tgt = head.d["target"]
    if isinstance(it, tuple) and it[:1] == ("comp",) and len(it) == 5 and head.d.get("index") is not None:
        # a loop over generated items (`for text in map(form.format, a, b)`): the items are produced from what the generator iterates
        tgt = M.subst(it[3], ("sym", f"<k>@L{it[4]}"), lin(head.d["index"]))
        it = it[2]
    bases, los, his = [], [], []
    for a in args:
        if not (isinstance(a, tuple) and a[:1] == ("elem",)):
            return None
        base, idx = a[1], a[2]
        if isinstance(idx, tuple) and idx[:1] == ("sym",):
            idx = lin(idx)
        if isinstance(it, tuple) and it[:2] == ("op", "zip") and isinstance(tgt, tuple) and tgt[:1] == ("tuple",) and a in tgt[1]:
            # zip(t[u:], d[u:]): the argument is the element the loop takes from one of the zipped slices
            src = it[2][tgt[1].index(a)]
            if not (isinstance(src, tuple) and src[:1] == ("slice",) and src[4] == Lin(c=1)):
                return None
            bases.append(M.origin(src[1]))
            los.append(lin(src[2]))
            his.append(N if src[3] == ("k", None) else lin(src[3]))
            continue
        if isinstance(it, tuple) and it[:1] == ("range",) and isinstance(tgt, Lin) and it[3] == Lin(c=1) and isinstance(idx, Lin):
            c = idx - tgt
            if any(M.mentions(at, M.lin(tgt).atoms()[0]) for at in c.t):
                return None
            bases.append(M.origin(base))
            los.append(it[1] + c)
            his.append(it[2] + c)
            continue
        return None
    facts = getattr(head, "facts", ())
    if any(not M.proves_zero(x - los[0], facts) for x in los[1:]) or any(not M.proves_zero(x - his[0], facts) for x in his[1:]):
        return None          # the two vectors are not read at the same positions (as far as the tests on the way show, e.g. len(d) == len(t))
    return tuple(bases), los[0], his[0]


def _tabled1_analysis(ctx):
    """per path of wttabled1: the card as lines of tokens, grouped by the rendered width of a pair"""
    cached = getattr(ctx, "_c13_tabled1", None)
    if cached is not None:
        return cached
    fn = ctx.src.func(BULK, "wttabled1")
    E = engine(ctx, BULK, "wttabled1")
    form = ("sym", "form")
    paths = [s for s in E.finals if s.status in ("run", "return")]
    if not paths:
        raise AnchorError("wttabled1: no path reaches the end of the function")
    atoms = []
    for s in paths:
        for at in flen_atoms(s.facts, "form"):
            if at not in atoms:
                atoms.append(at)
    X = atoms[0] if len(atoms) == 1 else ("flen", form, 2)
    res = {"fn": fn, "E": E, "X": X, "atoms": atoms, "paths": paths, "arms": {}, "split_ok": _split_evaluable(E, X, (16, 32))}
    for pairw in (32, 16):
        # case split on the rendered width of a pair: the function is evaluated again with len(form.format(a, b)) = pairw, so it does not
        # matter how (or whether) the code branches on it
        Ep = engine(ctx, BULK, "wttabled1", pins={X: pairw})
        arm = [s for s in Ep.finals if s.status in ("run", "return")]
        res["arms"][pairw] = [(s, to_lines(stream(s.events))) for s in arm]
    ctx._c13_tabled1 = res
    return res


def _is_comment(line):
    return bool(line) and line[0][0] == "lit" and line[0][1].startswith("$")


def _tabled1(ctx):
    A = _tabled1_analysis(ctx)
    fn, E, X = A["fn"], A["E"], A["X"]
    form = ("sym", "form")
    # ---- the guard
    g = V()
    data_events = [e for e in E.events("call") if is_vecwrite(e) or (is_write(e) and isinstance(e.d["args"][0], S) and _renders(e.d["args"][0], form))]
    if not data_events:
        if any(isinstance(c, ast.Call) and (dotted(c.func) or "").split(".")[-1] == "vecwrite" for c in walk_no_nested(fn)):
            ctx.fail("wttabled1: a user `form` must render a pair in 16 or 32 characters", fn,
                     "no write of table data can be reached: the tests on the way contradict each other for every form")
            return
        raise AnchorError("wttabled1: writes of `form`-rendered data")
    if len(A["atoms"]) > 1 or X[2] != 2:
        g.unknown({"tested quantities": [show(a) for a in A["atoms"]]})
    reach = set()
    for e in data_events:
        vals, fine = _arm_value(X, e.facts, (16, 32))
        reach |= vals
        if not fine and _escapes(E, form, e):
            fine = None
        if fine is None:
            g.unknown({"a test on the rendered length that cannot be evaluated": [show(t) for t, _ in e.facts if M.mentions(t, X)][:3]}, e.node)
        elif not fine:
            g.bad({"lengths of form.format(<pair>) not excluded before data is written": sorted(vals)[:8]}, e.node)
    if g.v is True and not {16, 32} <= reach:
        g.bad({"no data is written for a form that renders a pair in": sorted({16, 32} - reach)})
    g.report(ctx, "wttabled1: a user `form` must render a pair in 16 or 32 characters", fn)
    N = lin(("len", ("sym", "t")))
    endt_all = V(demote=not A["split_ok"])
    for label, pairw, per in (("large field", 32, 2), ("small field", 16, 4)):
        arm = A["arms"][pairw]
        if not arm:
            ctx.error(f"wttabled1 [{label}]: no path on which a pair renders in {pairw} characters", fn)
            continue
        line, head, inter, left, loop, lasthead = (V(demote=not A["split_ok"]) for _ in range(6))
        headtext = ""
        # where the vectorised write stops (the same extent on every path of the arm)
        ups = set()
        nvec = 0
        def extent_ok(u, facts):
            """the full lines stop at a multiple of the pairs per line"""
            lo_, hi_ = M.bounds(M.mod(u, per), facts)
            if not (lo_ == 0 and hi_ == 0):
                w = _witness([("len", ("sym", "t"))], facts, lambda a_, u=u: M.lin_eval(M.mod(u, per), a_) not in (None, 0), ranges={("len", ("sym", "t")): (1, 48)})
                if w is not None:
                    inter.bad({"upper bound": show(u), "not a multiple of the stride for": {show(k): v for k, v in w.items()}})
                else:
                    inter.unknown(f"upper bound {show(u)} is not shown to be a multiple of {per}")
        for s, (lines, term) in arm:
            for ln in lines:
                if ln and ln[0][0] == "looplines":
                    # the full lines written one by one in a loop: head + the pairs of the line + newline
                    each = ln[0][1]
                    hd, toks = each[1], each[2][0]
                    nvec += 1
                    node_ = getattr(hd, "node", None)
                    line.at(node_), head.at(node_), inter.at(node_)
                    tail = toks[-1][1][:-1]
                    toks = list(toks[:-1]) + ([("lit", tail, toks[-1][2])] if tail else [])
                    cl = _counted_loop_step(hd)
                    if not toks or toks[0][0] != "lit" or not all(x[0] == "fmt" and x[1] == form and len(x[2]) == 2 for x in toks[1:]) or cl is None:
                        line.unknown(_show_line(list(each[2][0])))
                        continue
                    h, pairs = toks[0][1], toks[1:]
                    headtext = headtext or h[:8]
                    if len(h) != 8 or len(pairs) != per:
                        line.bad({"line": _show_line(list(each[2][0])), "pairs on the line": len(pairs)})
                    if not (h[:1] in ("*", " ", "+") and (h[:1] == "*") == (pairw == 32)):
                        head.bad(repr(h))
                    var, lo_v, hi_v, step_v = cl
                    good = True
                    for i_, x in enumerate(pairs):
                        for a_, want_base in zip(x[2], ("t", "d")):
                            if not (isinstance(a_, tuple) and a_[:1] == ("elem",) and M.origin(a_[1])[:1] == ("sym",) and M.origin(a_[1])[1] in ("t", "d")
                                    and (isinstance(a_[2], Lin) or (isinstance(a_[2], tuple) and a_[2][:1] == ("sym",)))):
                                inter.unknown(show(a_))
                                good = None
                            elif M.origin(a_[1])[1] != want_base or lin(a_[2]) - var != Lin(c=i_):
                                good = False if good is not None else None
                    if good is False or (good and (step_v != Lin(c=len(pairs)) or lo_v != Lin())):
                        inter.bad({"pairs of a line": [show(a_) for x in pairs for a_ in x[2]], "loop": show(hd.d.get("iter"))})
                    elif good:
                        ups.add(hi_v)
                        extent_ok(hi_v, hd.facts)
                    continue
                if ln and ln[0][0] == "vec":
                    nvec += 1
                    e = ln[0][1]
                    line.at(e.node), head.at(e.node), inter.at(e.node)
                    _, tmpl, data = vecwrite_parts(e)
                    if not isinstance(tmpl, S):
                        line.unknown(show(tmpl))
                        continue
                    tl, tterm = M.split_lines(tmpl.p)
                    lay = [line_layout(x, pairw) for x in tl]
                    plain = all(it[0] in ("text", "sub") and (it[0] == "text" or it[1] == form) for it in M.template_items(tmpl))
                    if not plain or not all(l_["ok"] for l_ in lay):
                        line.unknown(repr(tmpl))
                    elif not (tterm and len(lay) == 1 and lay[0]["head"] is not None and len(lay[0]["head"]) == 8 and not lay[0]["stray"]
                              and lay[0]["fields"] == per and all(w == pairw for w in lay[0]["widths"])):
                        line.bad(repr(tmpl))
                    h = lay[0]["head"] if lay and lay[0]["head"] else ""
                    headtext = headtext or h
                    if plain and not (h[:1] in ("*", " ", "+") and (h[:1] == "*") == (pairw == 32)):
                        head.bad(repr(h))
                    want = []
                    for i in range(per):
                        want += [("t", i), ("d", i)]
                    got, u_here, understood = [], set(), True
                    for a in data:
                        if isinstance(a, tuple) and a[:1] == ("slice",) and M.is_int_const(lin(a[2])) and M.is_int_const(lin(a[4])) and M.origin(a[1])[:1] == ("sym",):
                            got.append((M.origin(a[1])[1], M.ival(lin(a[2])), M.ival(lin(a[4]))))
                            u_here.add(a[3])
                        else:
                            understood = False
                            got.append(show(a))
                    if not understood or any(b_ not in ("t", "d") for b_, _, _ in got):
                        inter.unknown([str(x) for x in got])
                    elif [(b_, lo_) for b_, lo_, _ in got] != want or any(st_ != per for _, _, st_ in got) or len(u_here) != 1:
                        inter.bad([str(x) for x in got])
                    else:
                        u = next(iter(u_here))
                        if not isinstance(u, Lin):
                            inter.unknown("upper bound of the slices: " + show(u))
                        else:
                            ups.add(u)
                            lo_, hi_ = M.bounds(M.mod(u, per), e.facts)
                            if not (lo_ == 0 and hi_ == 0):
                                w = _witness([("len", ("sym", "t"))], e.facts, lambda a_, u=u: M.lin_eval(M.mod(u, per), a_) not in (None, 0),
                                                   ranges={("len", ("sym", "t")): (1, 48)})
                                if w is not None:
                                    inter.bad({"upper bound": show(u), "not a multiple of the stride for": {show(k): v for k, v in w.items()}})
                                else:
                                    inter.unknown(f"upper bound {show(u)} is not shown to be a multiple of {per}")
        if nvec == 0:
            ctx.error(f"wttabled1 [{label}]: vecwrite call", fn)
            continue
        u = next(iter(ups)) if len(ups) == 1 else None
        for s, (lines, term) in arm:
            body = [ln for ln in lines if not _is_comment(ln)]
            if not body or not term:
                endt_all.unknown("output does not end with a newline")
                continue
            last = body[-1]
            # ENDT closes the table
            if last and last[-1][0] == "lit" and last[-1][1].endswith("ENDT"):
                endt_all.at(last[-1][2].node)
                tail = last[-1][1][:-4]
                rest = last[:-1] + ([("lit", tail, last[-1][2])] if tail else [])
            elif any(t_[0] in ("opaque", "str") for t_ in last) or (last and last[-1][0] != "lit"):
                endt_all.unknown("last line: " + _show_line(last))
                rest = None
            else:
                endt_all.bad("last line: " + _show_line(last), last[-1][2].node if last and len(last[-1]) > 2 and hasattr(last[-1][2], "node") else None)
                rest = last
            if rest is None:
                continue
            # a loop that provably runs zero times on this path writes nothing: the line starts with what follows it.  Only on a path that some
            # table length takes (witness), so that a missing head is a fact about a real table and not about dead code
            while rest and rest[0][0] == "each" and getattr(rest[0][1], "d", None) is not None:
                it_ = rest[0][1].d.get("iter")
                if not (isinstance(it_, tuple) and it_[:1] == ("range",) and len(it_) >= 4 and isinstance(it_[1], Lin) and isinstance(it_[2], Lin)):
                    break
                _, hi0 = M.bounds(it_[2] - it_[1], s.facts)
                if hi0 is None or hi0 > 0:
                    break
                if _witness([("len", ("sym", "t"))], tuple(s.facts), lambda a_: True, ranges={("len", ("sym", "t")): (1, 48)}) is None:
                    break
                lasthead.at(rest[0][1].node) if getattr(rest[0][1], "node", None) is not None else None
                rest = rest[1:]
            # head of the last line
            if rest and rest[0][0] == "lit":
                h = rest[0][1]
                lasthead.at(rest[0][2].node)
                if not (len(h) == 8 and h[:1] in ("*", " ", "+") and (h[:1] == "*") == (pairw == 32)):
                    lasthead.bad(repr(h))
                rest = rest[1:]
            elif rest and rest[0][0] in ("opaque", "str"):
                lasthead.unknown(_show_line(rest))
                continue
            elif not rest:
                lasthead.bad("the last line has no head: only ENDT")
            else:
                lasthead.unknown("the last line does not start with literal text: " + _show_line(rest))
                continue
            # the leftover pairs
            if len(rest) > 1 or (rest and rest[0][0] != "each"):
                loop.unknown(_show_line(rest))
                continue
            if not rest:
                # nothing but the head and ENDT on this path: there must be nothing left
                if u is None:
                    loop.unknown("no leftover loop")
                else:
                    lo_, hi_ = M.bounds(N - u, s.facts)
                    if not (lo_ == 0 and hi_ == 0):
                        loop.bad({"no leftover pairs are written but": f"{show(N - u)} can be left"})
                continue
            each = rest[0]
            hd, alts = each[1], each[2]
            if hd is not None and getattr(hd, "node", None) is not None:
                loop.at(hd.node), left.at(hd.node)
            if len(alts) != 1 or len(alts[0]) != 1 or alts[0][0][0] != "fmt" or alts[0][0][1] != form:
                loop.unknown(_show_line(rest))
                continue
            ps = _pair_source(alts[0][0][2], hd, N)
            if ps is None:
                loop.unknown(_show_line(rest))
                continue
            bases, lo_, hi_ = ps
            if bases != (("sym", "t"), ("sym", "d")):
                (loop.bad if set(bases) <= {("sym", "t"), ("sym", "d")} else loop.unknown)({"rendered": [show(b_) for b_ in bases]})
            r_, w_ = _differs(hi_ - N, s.facts)
            if r_ is not False:
                (loop.bad if r_ else loop.unknown)({"the loop ends at": show(hi_), "number of points": show(N), "differ for": w_})
            if u is not None:
                r_, w_ = _differs(lo_ - u, s.facts)
                if r_ is not False:
                    (loop.bad if r_ else loop.unknown)({"the loop starts at": show(lo_), "the vectorised write stops at": show(u), "differ for": w_})
            # leftover count: npts - (start of the loop) in 0..per-1
            lft = N - lo_
            facts = tuple(f for f in s.facts)
            blo, bhi = M.bounds(lft, facts)
            if not (blo is not None and bhi is not None and blo >= 0 and bhi <= per - 1):
                w = _witness([("len", ("sym", "t"))], facts, lambda a_, lft=lft: not (0 <= M.lin_eval(lft, a_) <= per - 1), ranges={("len", ("sym", "t")): (1, 48)})
                if w is not None:
                    left.bad({"leftover pairs range": [str(blo), str(bhi)], "start of the leftover loop": show(lo_), "witness": {show(k): v for k, v in w.items()}})
                else:
                    left.unknown({"leftover pairs": show(lft), "range proved": [str(blo), str(bhi)]})
        line.report(ctx, f"wttabled1 [{label}]: each full line is an 8-column head + {per} pairs of {pairw} = 72 columns", fn)
        head.report(ctx, f"wttabled1 [{label}]: continuation head `{headtext}` is the one the reader expects for this field width", fn)
        inter.report(ctx, f"wttabled1 [{label}]: the vectorised write interleaves t and d with stride {per}", fn)
        left.report(ctx, f"wttabled1 [{label}]: after the full lines 0..{per - 1} pairs remain, so the pairs and ENDT fit in the {per * 2} fields of the last line", fn)
        loop.report(ctx, f"wttabled1 [{label}]: the leftover pairs r..npts-1 are written one by one on the last line", fn)
        lasthead.report(ctx, f"wttabled1 [{label}]: the last line starts with an 8-column head legal for this field width", fn)
    endt_all.report(ctx, "wttabled1: ENDT closes the table", fn)


def _renders(v, form):
    for x in v.p:
        if x[0] == "fmt" and x[1] == form:
            return True
        if x[0] == "join" and isinstance(x[2][1], S) and _renders(x[2][1], form):
            return True
    return False


def _show_line(toks):
    out = []
    for t in toks:
        if t[0] == "lit":
            out.append(repr(t[1]))
        elif t[0] == "fv":
            out.append("{" + show(t[2]) + ":" + (t[1] or "") + "}")
        elif t[0] == "fmt":
            out.append(show(t[1]) + ".format(" + ", ".join(show(a) for a in t[2]) + ")")
        elif t[0] == "each":
            out.append("each(" + (show(t[1].d["iter"]) if t[1] is not None else "?") + ": " + " | ".join(_show_line(a) for a in t[2]) + ")")
        elif t[0] == "vec":
            out.append("<vecwrite>")
        else:
            out.append(show(t[1]))
    return " ".join(out)


def r1_templates(ctx):
    once = _Once(ctx)
    _width_obligations(ctx, once)
    # ---- wttabled1: line templates are 8 + 64 columns and the user `form` is validated
    _tabled1(ctx)
    # ---- wtgrids templates: 8 + n*W with W validated
    _grids(ctx, once)


def _escapes(E, value, before):
    """the value is handed to a call that is not followed (a method of a class, a function of another module) before `before`: whatever it is
    checked for there is not visible"""
    for e in E.events("call"):
        if e.seq < before.seq and not is_vecwrite(e) and e.d["attr"] != "format":
            if any(a == value for a in list(e.d["args"]) + list(e.d["kws"].values())):
                return True
    return False


def _grids(ctx, once):
    fn = ctx.src.func(BULK, "wtgrids")
    E = engine(ctx, BULK, "wtgrids")
    Ep0 = E
    form = ("sym", "form")
    vec = [e for e in E.events("call") if is_vecwrite(e)]
    if not vec:
        if any(isinstance(c, ast.Call) and (dotted(c.func) or "").split(".")[-1] == "vecwrite" for c in walk_no_nested(fn)):
            ctx.fail("wtgrids: a user `form` must render in 8 or 16 characters", fn,
                     "no vectorised write can be reached: the tests on the way contradict each other for every form")
            return
        raise AnchorError("wtgrids: vecwrite call")
    atoms = []
    for e in vec:
        for at in flen_atoms(e.facts, "form"):
            if at not in atoms:
                atoms.append(at)
    X = atoms[0] if len(atoms) == 1 else ("flen", form, 1)
    g = V()
    if len(atoms) > 1 or X[2] != 1:
        g.unknown({"tested quantities": [show(a_) for a_ in atoms]})

    split_ok = _split_evaluable(E, X, (8, 16))

    def chk(ok, inst, where, detail=None, key=None):
        if not ok and not split_ok:
            if (key or inst) not in once.seen:
                once.seen.add(key or inst)
                ctx.error(inst, where, {"found under a case split that is not reliable (a test on the rendered width cannot be evaluated)": detail})
            return ok
        return once.check(ok, inst, where, detail, key=key)
    reach = set()
    for e in vec:
        vals, fine = _arm_value(X, e.facts, (8, 16))
        reach |= vals
        if not fine and _escapes(Ep0, form, e):
            fine = None
        if fine is None:
            g.unknown({"a test on the rendered length that cannot be evaluated": [show(t) for t, _ in e.facts if M.mentions(t, X)][:3]}, e.node)
        elif not fine:
            g.bad({"lengths of form.format(x) not excluded before data is written": sorted(vals)[:8]}, e.node)
    if g.v is True and not {8, 16} <= reach:
        g.bad({"no data is written for a form that renders in": sorted({8, 16} - reach)})
    # case split on the rendered width of a coordinate: the function is evaluated again with len(form.format(x)) = 8 and = 16
    for Wf in (16, 8):
        Ep = engine(ctx, BULK, "wtgrids", pins={X: Wf})
        for e in [x for x in Ep.events("call") if is_vecwrite(x)]:
            _, tmpl, data = vecwrite_parts(e)
            if not isinstance(tmpl, S) or not all(it[0] in ("text", "field") or (it[0] == "sub" and it[1] == form) for it in M.template_items(tmpl)):
                ctx.error("wtgrids: template shape", e.node, show(tmpl) if not isinstance(tmpl, S) else repr(tmpl))
                continue
            lines, term = M.split_lines(tmpl.p)
            if not term or not lines:
                chk(False, f"wtgrids: template {tmpl!r} ends its last line", e.node, key=f"wtgrids-nl|{tmpl!r}")
                continue
            for i, ln in enumerate(lines):
                lay = line_layout(ln, Wf)
                head = lay["head"] or ""
                W = 16 if "*" in head else 8
                per = 4 if W == 16 else 8
                inst = f"wtgrids: line `{head}` has an 8-column head and {lay['fields']} <= {per} fields of width {W}"
                key = f"wtgrids-line|{tmpl!r}|{i}|{Wf}"
                if not lay["ok"]:
                    if key not in once.seen:
                        once.seen.add(key)
                        ctx.error(inst, e.node, repr(tmpl))
                    continue
                ok = len(head) == 8 and not lay["stray"] and lay["fields"] <= per and all(w == W for w in lay["widths"])
                chk(ok, inst, e.node, None if ok else dict({k: (v if k != "widths" else [str(w) for w in v]) for k, v in lay.items()}, **{"when form renders in": Wf}),
                    key=key)
            if any(isinstance(a, tuple) and a[:1] == ("star",) for a in data):
                if f"wtgrids-args|{tmpl!r}|{Wf}" not in once.seen:
                    once.seen.add(f"wtgrids-args|{tmpl!r}|{Wf}")
                    ctx.error("wtgrids: the vectors passed to the vectorised write", e.node, "a starred list whose items are not known: " + show(data[0]))
                continue
            nf = M.count_fields(M.template_items(tmpl), {form: 1})
            ok = nf is not None and nf == Lin(c=len(data))
            chk(ok, f"wtgrids: the template starting `{(line_layout(lines[0], Wf)['head'] or '')}` ({len(lines)} line(s)) consumes exactly the {len(data)} vectors passed",
                e.node, None if ok else {"fields": show(nf) if nf is not None else None, "vectors": len(data)}, key=f"wtgrids-args|{tmpl!r}|{Wf}")
            # the k-th field of a GRID card is the k-th quantity of the card: id, cp, x, y, z, cd, ps, seid (rdgrids returns the fields as they come)
            want = ["grids", "cp", ("xyz", 0), ("xyz", 1), ("xyz", 2), "cd", "ps", "seid"][:len(data)]
            got = [_grid_role(a) for a in data]
            key = f"wtgrids-order|{tmpl!r}|{Wf}"
            if None in got or len(data) > 8:
                if key not in once.seen:
                    once.seen.add(key)
                    ctx.error("wtgrids: the vectors are passed in the order of the card fields (id, cp, x, y, z, cd, ps, seid)", e.node,
                              {"not understood": [show(a) for a, r_ in zip(data, got) if r_ is None][:3]})
            else:
                chk(got == want, "wtgrids: the vectors are passed in the order of the card fields (id, cp, x, y, z, cd, ps, seid)", e.node,
                    None if got == want else {"passed": [str(x) for x in got], "card order": [str(x) for x in want]}, key=key)
    g.report(ctx, "wtgrids: a user `form` must render in 8 or 16 characters", fn)


def _grid_role(a):
    """which quantity of the GRID card a vector handed to vecwrite is: the name of the public parameter it comes from, or ("xyz", j) for
    column j of the coordinate array (xyz[:, j], xyz.T[j], xyz[..., j]); None when not understood"""
    o = M.origin(a)
    if isinstance(o, tuple) and o[:1] == ("sym",) and o[1] in ("grids", "cp", "cd", "ps", "seid"):
        return o[1]
    if isinstance(o, tuple) and o[:1] == ("elem",):
        base, idx = M.origin(o[1]), o[2]
        full = ("sl", Lin(), ("k", None), Lin(c=1))
        if base == ("sym", "xyz") and isinstance(idx, tuple) and idx[:1] == ("tuple",) and len(idx[1]) == 2 and idx[1][0] in (full, ("k", Ellipsis), ("sym", "Ellipsis")) \
                and M.is_int_const(idx[1][1]):
            return ("xyz", M.ival(idx[1][1]))
        if base == ("sym", "xyz") and isinstance(idx, tuple) and idx[:1] == ("tuple",) and len(idx[1]) == 2 and idx[1][1] == full and M.is_int_const(idx[1][0]):
            return ("row of xyz", M.ival(idx[1][0]))
        if isinstance(base, tuple) and base[:2] == ("op", "T") and M.origin(base[2][0]) == ("sym", "xyz") and M.is_int_const(idx):
            return ("xyz", M.ival(idx))
        if base == ("sym", "xyz") and M.is_int_const(idx):
            return ("row of xyz", M.ival(idx))
    return None


# ====================================================================================================================== R2
def r2_nonempty_vector(ctx):
    """writer.vecwrite treats a zero-length vector as length 1 and then indexes element 0"""
    fn = ctx.src.func(WRITER, "vecwrite")
    E = engine(ctx, WRITER, "vecwrite")
    why = []
    # the row count: what bounds the loop in which the rows are written (`for i in range(count)[so]: write(...)`), wherever that loop lives
    # (vecwrite itself or a helper it calls) and whatever the local is called
    cname = None
    fors = {e.d["loop"]: e for e in E.events("for")}
    counts = []
    for e in E.events("call"):
        if is_write(e) and e.loops:
            for lid in e.loops:
                h = fors.get(lid)
                if h is not None:
                    for hi in _range_ends(h.d["iter"]):
                        at = the_atom(hi)
                        if isinstance(at, tuple) and at[:1] == ("sym",) and at not in counts:
                            counts.append(at)
    if len(counts) == 1:
        cname = counts[0][1].split("@")[0]
    else:
        why.append("the loop that writes the rows is not bounded by one count: " + ", ".join(show(c) for c in counts))
    asg = [e for e in E.events("assign") if e.d["name"] == cname]
    init = [e for e in asg if not e.loops]
    ups = [e for e in asg if e.loops]
    if not (init and all(e.d["value"] == Lin(c=1) for e in init)):
        why.append("the count does not start at 1")
    if not ups:
        why.append("the count is never raised")
    for e in ups:
        lo, _ = M.bounds(lin(e.d["value"]) - 2, e.facts)
        if not (lo is not None and lo >= 0):
            why.append(f"the count is set to {show(e.d['value'])} without a test that it exceeds 1")
    # the accessor chosen for a vector whose length is not 1 (and which is not 2-D) indexes element i; a zero-length vector reaches it
    acc = None
    mw = ctx.src.mod(WRITER)
    for e in E.events("call"):
        if e.d["attr"] in ("append", "extend", "insert") and e.loops and e.d["args"] and isinstance(e.d["args"][-1], tuple) \
                and e.d["args"][-1][:1] in (("func",), ("sym",), ("lambda",), ("obj",), ("closure",)):
            ref = e.d["args"][-1]
            got = _accessor_returns(E, mw, fn, ref)
            if got is None:
                continue
            name, a, i, rets = got
            idx = ("elem", ("sym", a), ("sym", i))
            if rets and all(r == ("tuple", (idx,)) for r in rets):
                # 1-D accessor: can the vector be empty here?
                lens = [at for t, _ in e.facts for at in M.free_symbols(t) if isinstance(at, tuple) and at[0] == "len"]
                for at in lens:
                    vals, _ = M.possible_values(at, e.facts, lo=0)
                    if 0 in vals:
                        acc = (e, name)
                if not lens:
                    acc = (e, name)
    ctx.src.funcs_consulted.add(f"{WRITER}:vecwrite._get_itemi") if ctx.src.has_func(WRITER, "vecwrite._get_itemi") else None
    if acc is None:
        why.append("no accessor `[a[i]]` is reached by a zero-length vector")
    # the common length of the arguments, decided on a finite world: lengths drawn from {scalar, 1, n} (and a second length m != n for the
    # error) in every order, 2-3 arguments; the loop is evaluated concretely (lengths are only compared with 0 / 1 and with each other), the rows
    # are counted where they are written
    inst = ("vecwrite writes n rows when some argument has length n > 1 and the others are scalars or have length 1 or n, one row when there is "
            "no such argument, and raises ValueError for two different lengths > 1 (argument lengths from {scalar, 1, n, m} in every order)")
    try:
        fw, fdetail = c13_len.evaluate(mw.tree)
    except Exception as ex:      # the finite-world interpreter must never take the rule down
        fw, fdetail = None, f"{type(ex).__name__}: {ex}"
    if fw is False:
        ctx.fail(inst, fn, fdetail + " (wtgrids with several grids and a one-element cd / seid list writes fewer GRID cards than rdgrids is to return)",
                 key="C13-R2|vecwrite|rows written")
    elif fw is True:
        ctx.ok(inst, fn, fdetail)
    elif not why:
        ctx.note("C13-R2: the row count of vecwrite could not be evaluated on the finite world of argument lengths (" + str(fdetail) + "); the "
                 "symbolic summary (count starts at 1, raised only by a longer vector) is what stands")
    if why:
        if fw is False:
            return
        ctx.error("vecwrite summary: `length` starts at 1 and is raised only by a vector longer than 1, and vector arguments are indexed with a[i]", fn,
                  {"not derived": why, "note": "if vecwrite now accepts empty vectors the call-site guards are no longer required: re-derive this rule",
                   "finite world of argument lengths": fdetail})
        return
    ctx.ok("vecwrite summary: `length` starts at 1 and is raised only by a vector longer than 1, and vector arguments are indexed "
           "with a[i] => a zero-length vector argument raises IndexError", fn)
    _line_buffer(ctx, E, fn)
    # call sites whose vector arguments are slices of symbolic extent.  A site is first looked at in the function that contains the call; when
    # what it passes cannot be understood there (a starred list a caller determines, a stride that is a parameter) the functions that use that
    # function are evaluated instead, with the calls followed - up to the public entry points.
    m = ctx.src.mod(BULK)
    is_vw = lambda c: isinstance(c, ast.Call) and (dotted(c.func) or "").split(".")[-1] == "vecwrite"
    holders = [q for q, f2 in sorted(m.funcs.items()) if "#" not in q and any(is_vw(c) for c in walk_no_nested(f2))]
    pubs = publics(m)
    owners = {}

    def owner(q):
        """the public entry point a function works for (for messages and keys)"""
        if q not in owners:
            top = q.split(".")[0]
            if top in pubs:
                owners[q] = top
            else:
                f2 = m.funcs[top]
                owners[q] = next((pq for pq, pf in pubs.items() if any(g is f2 for g in reach(m, pf))), q)
        return owners[q]

    def users(q):
        """the functions that refer to q (its enclosing function for a nested one)"""
        if "." in q:
            return [q.rsplit(".", 1)[0]]
        return [q2 for q2, f2 in sorted(m.funcs.items()) if "#" not in q2 and q2 != q and not q2.startswith(q + ".")
                and any(isinstance(n, ast.Name) and isinstance(n.ctx, ast.Load) and n.id == q for n in walk_no_nested(f2))]

    cache = {}

    def sites(q):
        """{id(call node): [(label, verdict True / False / None = not understood, instance, detail, node, key)]}; a node is absent when the call passes no slice of
        symbolic extent"""
        if q in cache:
            return cache[q]
        out = cache[q] = {}
        f2 = m.funcs[q]
        try:
            E0 = M.Engine(m, f2, follow=helpers_of(m), max_states=256)
            E0.run()
        except Unsupported as ex:
            out[None] = str(ex)
            return out
        ctx.src.funcs_consulted.add(f"{BULK}:{q}")
        # case split on the rendered width of a user format, when the function validates it against a few values
        runs = [("", E0)]
        atoms = []
        unreliable = set()
        for e in E0.events("call"):
            if is_vecwrite(e):
                for at in flen_atoms(e.facts, "form"):
                    if at not in atoms:
                        atoms.append(at)
        if len(atoms) == 1:
            vals = set()
            for e in E0.events("call"):
                if is_vecwrite(e):
                    ok_, cand = M.possible_values(atoms[0], e.facts, lo=0)
                    vals |= ok_ if len(ok_) < len(cand) - 2 else set()
            if vals and len(vals) <= 4:
                names = {(2, 32): " [large field]", (2, 16): " [small field]"}
                runs = [(names.get((atoms[0][2], v_), f" [form width {v_}]"), engine(ctx, BULK, q, pins={atoms[0]: v_})) for v_ in sorted(vals, reverse=True)]
                if not _split_evaluable(E0, atoms[0], sorted(vals)):
                    unreliable.add(q)
        oq = owner(q)
        for label, E2 in runs:
            by_node = {}
            for e in E2.events("call"):
                if is_vecwrite(e):
                    by_node.setdefault(id(e.node), []).append(e)
            for nid, evs in by_node.items():
                data = [a for e in evs for a in vecwrite_parts(e)[2]]
                if any(isinstance(a, tuple) and a[:1] == ("star",) for a in data):
                    out.setdefault(nid, []).append((label, None, f"{oq}{label}: vectorised write of a starred list", "the list is not known here: " + show(data[0]), evs[0].node, None))
                    continue
                # reached and understood: from here on an empty list of rows means that the call passes nothing whose extent has to be guarded
                out.setdefault(nid, [])
                sl = [a for a in vecwrite_parts(evs[0])[2] if isinstance(a, tuple) and a and a[0] == "slice"]
                if not sl:
                    continue
                if all(isinstance(a[3], Lin) and M.is_int_const(a[3]) for e in evs for a in vecwrite_parts(e)[2] if isinstance(a, tuple) and a[:1] == ("slice",)):
                    continue
                verdict, detail = True, None
                for e in evs:
                    # domain of the property: tables and lists of at least one entry
                    dom = tuple((("cmp", "GtE", lin(at), Lin(c=1)), True) for a in vecwrite_parts(e)[2] if isinstance(a, tuple) and a[:1] == ("slice",)
                                for at in M.free_symbols(E2.slice_len(a, e.facts) or Lin()) if isinstance(at, tuple) and at[0] == "len")
                    e = M.Event(e.kind, e.node, e.d, e.facts + tuple(f for f in dict.fromkeys(dom)), e.loops, e.seq)
                    for a in [x for x in vecwrite_parts(e)[2] if isinstance(x, tuple) and x and x[0] == "slice"]:
                        ln = E2.slice_len(a, e.facts)
                        if ln is None:
                            verdict, detail = None, f"length of {show(a)}"
                            break
                        lo, _ = M.bounds(ln - 1, e.facts)
                        if lo is not None and lo >= 0:
                            continue
                        syms = [s_ for s_ in M.free_symbols(ln) if isinstance(s_, tuple) and s_[0] == "len"]
                        w = _witness(syms, e.facts, lambda asg_, ln=ln: (M.lin_eval(ln, asg_) is not None and M.lin_eval(ln, asg_) <= 0),
                                           ranges={s_: (1, 48) for s_ in syms}) if syms else None
                        if w is not None:
                            verdict = False
                            detail = (f"`{show(a)}` is empty for {', '.join(show(k) + ' = ' + str(v) for k, v in w.items())}; vecwrite then indexes an empty array "
                                      "(IndexError): a table with < 4 points (small field) or 1 point (large field) cannot be written")
                        else:
                            verdict, detail = None, f"cannot bound the length {show(ln)} of {show(a)}"
                        break
                    if verdict is not True:
                        break
                if verdict is False and q in unreliable:
                    verdict, detail = None, {"found under a case split that is not reliable (a test on the rendered width cannot be evaluated)": detail}
                inst = (f"{oq}{label}: the vectorised write of `{show(sl[0])}` ... is executed only when there is at least one full line")
                out.setdefault(nid, []).append((label, verdict, inst, detail, evs[0].node, f"C13-R2|{oq}|{label.strip(' []')}|unguarded vecwrite"))
        return out

    nsites = 0
    labelled = set()
    for q in holders:
        own = [id(c) for c in walk_no_nested(m.funcs[q]) if is_vw(c)]
        res, last = {}, {}      # call node -> rows: settled (every row has a verdict) / seen last (possibly not understood)
        level, seen = [q], {q}
        for depth in range(4):
            for q2 in level:
                r = sites(q2)
                if None in r and depth == 0:
                    ctx.error(f"{owner(q2)}: vecwrite call sites", m.funcs[q2], r[None])
                for nid in own:
                    if nid in r:
                        last[nid] = r[nid]
                        if nid not in res and all(x[1] is not None for x in r[nid]):
                            res[nid] = r[nid]
            if not [nid for nid in own if nid in last and nid not in res]:
                break
            nxt = []
            for q2 in level:
                for u in users(q2):
                    if u not in seen:
                        seen.add(u)
                        nxt.append(u)
            level = nxt
            if not level:
                break
        for nid in own:
            for label, verdict, inst, detail, node, key in res.get(nid) or last.get(nid) or []:
                nsites += 1
                labelled.add((owner(q), label.strip(" []")))
                if verdict is None:
                    ctx.error(inst, node, detail)
                else:
                    ctx.check(verdict, inst, node, detail, key=key)
    # a table writer that does not reach a vectorised write at all (its full lines are written one by one) has nothing that could be handed an
    # empty vector: the contract holds vacuously for both of its field widths
    if "wttabled1" in pubs:
        q = "wttabled1"
        try:
            A = _tabled1_analysis(ctx)
        except (AnchorError, Unsupported):
            A = None
        for label, pairw in (("large field", 32), ("small field", 16)):
            if (q, label) in labelled or A is None:
                continue
            arm = A["arms"].get(pairw) or []
            if arm and not any(ln and ln[0][0] == "vec" for _, (lines, _) in arm for ln in lines):
                nsites += 1
                ctx.ok(f"{q} [{label}]: no vectorised write is reached for this field width (nothing can be handed an empty vector)", pubs[q], nontrivial=False)
    ctx.assume("C13-R2: the sequences handed to the writers have at least one entry (the property quantifies over lengths 1..n)")
    if nsites >= 2:
        ctx.ok(f"non-empty vector contract bound to {nsites} call sites", BULK + ":1", nontrivial=False)
    else:
        ctx.error(f"non-empty vector contract bound to {nsites} call sites (at least 2 expected)", BULK + ":1")


def _accessor_returns(E, mw, fn, ref):
    """(name, first parameter, second parameter, values returned) of the two-argument accessor `ref(a, i)` - a nested or module-level function, a
    lambda, a callable object of a class of the module (its __call__, own or inherited) - evaluated on symbols; None when it is none of these"""
    while ref[:1] == ("closure",):
        ref = ref[1]
    if ref[0] == "lambda":
        lam = getattr(E, "lambdas", {}).get(ref[1])
        if lam is None or len(lam.args.args) != 2:
            return None
        a, i = (x.arg for x in lam.args.args)
        Es = M.Engine(mw, fn)
        return "<lambda>", a, i, [Es.ev(lam.body, M.State({a: ("sym", a), i: ("sym", i)}))]
    if ref[0] == "obj":
        Eo = M.Engine(mw, fn, follow={})
        m_ = Eo._method(ref[1], "__call__") if ref[1] in Eo.classes else None
        if m_ is None or m_[1] != "method" or len(m_[0].args.args) != 3:
            return None
        sub = m_[0]
        self_, a, i = (x.arg for x in sub.args.args)
        Es = M.Engine(mw, sub, params={self_: ref}, follow={})
        Es.run()
        return f"{ref[1]}.__call__", a, i, [r.d["value"] for r in Es.events("return")]
    name = str(ref[1])
    sub = getattr(E, "funcnodes", {}).get(ref[2]) if ref[0] == "func" and len(ref) > 2 else None
    if sub is None:
        sub = mw.funcs.get("vecwrite." + name) if ref[0] == "func" else mw.funcs.get(name)
    if sub is None or len(sub.args.args) != 2:
        return None
    a, i = (x.arg for x in sub.args.args)
    Es = M.Engine(mw, sub)
    Es.run()
    return name, a, i, [r.d["value"] for r in Es.events("return")]


def _line_buffer(ctx, E, fn):
    """vecwrite may collect the formatted lines in a buffer of fixed size (`buf[n] = line; n += 1`) and write the buffer when it is full.  The buffer
    may be written whole only where the tests on the way say that the counter equals its size - otherwise only the filled part `buf[:n]` may be
    written: the slots beyond the counter still hold the lines of the block written before (unless the buffer is made anew or cleared in the
    loop), and they would be written a second time.  No obligation when no such buffer exists."""
    fills = [e for e in E.events("store") if e.loops and isinstance(e.d["index"], tuple) and e.d["index"][:1] == ("sym",) and "@L" in e.d["index"][1]]
    bufs = []
    for e in fills:
        if e.d["base"] not in bufs:
            bufs.append(e.d["base"])
    for B in bufs:
        size = None
        if isinstance(B, Lin) and B.c == 0 and len(B.t) == 1:
            (at, k), = B.t.items()
            if isinstance(at, tuple) and at[:1] == ("tuple",) and len(at[1]) == 1 and k.denominator == 1 and k > 0:
                size = int(k)                     # [x] * K
        if size is None:
            continue
        counters = {e.d["index"][1].split("@")[0] for e in fills if e.d["base"] == B}
        name = next((e.d["name"] for e in fills if e.d["base"] == B and e.d.get("name")), None)
        # the buffer made anew / cleared inside the loop: its slots beyond the counter are empty again
        if any(e.loops and e.d["name"] == name for e in E.events("assign")) or \
                any(e.loops and e.d.get("recv") == B and e.d["attr"] in ("clear",) for e in E.events("call")):
            continue
        v = V()
        nwhole = 0
        for e in E.events("call"):
            if not (e.kind == "call" and is_write(e)):
                continue
            a = e.d["args"][0]
            whole = a == B or (isinstance(a, tuple) and a[:2] == ("op", ".join") and len(a[2]) == 2 and a[2][1] == B)
            if not whole:
                continue
            nwhole += 1
            v.at(e.node)
            # the counter at this point: inside the loop that fills the buffer, what was last assigned to the variable the slots are indexed with;
            # after that loop, the value the loop leaves in it
            fill_loops = {e_.loops[-1] for e_ in fills if e_.d["base"] == B}
            cvals = []
            for nm in sorted(counters):
                if fill_loops & set(e.loops):
                    last = [e_.d["value"] for e_ in E.events("assign") if e_.d["name"] == nm and e_.seq < e.seq and set(e_.facts) <= set(e.facts)
                            and fill_loops & set(e_.loops)][-1:]
                    cvals += [lin(x) for x in last if isinstance(x, Lin) or (isinstance(x, tuple) and x[:1] == ("sym",))]
                else:
                    cvals += [lin(("sym", f"{nm}@L{lid_}'")) for lid_ in sorted(fill_loops)]
            if not cvals:
                v.unknown("the counter of filled slots at the write of the whole buffer", e.node)
                continue
            full = any((lambda b_: b_[0] == 0 == b_[1])(M.bounds(c_ - size, e.facts)) for c_ in cvals)
            if full:
                continue
            w = None
            for c_ in cvals:
                syms_ = M.free_symbols(c_)
                w = M.find_witness(syms_, e.facts, lambda a_, c_=c_: M.lin_eval(c_, a_) not in (None, size), ranges={s_: (0, size + 2) for s_ in syms_}) if 0 < len(syms_) <= 2 else None
                if w is not None:
                    break
            if w is not None:
                v.bad({"the whole buffer of": f"{size} slots is written", "when the counter can be": {show(k): x for k, x in w.items()},
                       "consequence": "the slots beyond the counter hold lines of the block written before: for more lines than the buffer holds they are written twice"}, e.node)
            else:
                v.unknown({"the whole buffer is written; counter": [show(x) for x in cvals][:2]}, e.node)
        if nwhole:
            v.report(ctx, "vecwrite: a line buffer is written whole only when the counter of filled slots equals its size (else only the filled part)", fn)


def _range_ends(v):
    """the end values of the ranges a loop iterates (range(n), range(n)[so], ...)"""
    out = []
    if isinstance(v, tuple):
        if v[:1] == ("range",):
            out.append(v[2])
        for x in v[1:]:
            if isinstance(x, tuple):
                out.extend(_range_ends(x))
    return out


# ====================================================================================================================== R3
def _columns(v):
    """the columns of a 2-D array built from 1-D vectors: vstack([a, b]).T, column_stack((a, b)), array([a, b]).T, c_[a, b]"""
    if isinstance(v, tuple) and v and v[0] == "op":
        if v[1] == "T" and isinstance(v[2][0], tuple) and v[2][0][:1] == ("op",) and v[2][0][1] in ("np.vstack", "np.array", "np.asarray", "np.stack", "np.row_stack") \
                and isinstance(v[2][0][2][0], tuple) and v[2][0][2][0][:1] == ("tuple",):
            return list(v[2][0][2][0][1])
        if v[1] == "T" and isinstance(v[2][0], tuple) and v[2][0][:2] == ("op", "np.concatenate") and len(v[2][0][2]) == 1 and len(v[2][0]) == 3 \
                and isinstance(v[2][0][2][0], tuple) and v[2][0][2][0][:1] == ("tuple",) \
                and all(isinstance(x, tuple) and x[:1] == ("tuple",) and len(x[1]) == 1 for x in v[2][0][2][0][1]):
            return [x[1][0] for x in v[2][0][2][0][1]]           # np.concatenate(([a], [b])).T : the one-row blocks stacked, transposed
        if v[1] in ("np.column_stack",) and isinstance(v[2][0], tuple) and v[2][0][:1] == ("tuple",):
            return list(v[2][0][1])
        kws = dict(v[3]) if len(v) > 3 else {}
        if v[1] == "np.stack" and len(v[2]) >= 1 and isinstance(v[2][0], tuple) and v[2][0][:1] == ("tuple",) \
                and (kws.get("axis") in (Lin(c=1), Lin(c=-1)) or (len(v[2]) > 1 and v[2][1] in (Lin(c=1), Lin(c=-1)))):
            return list(v[2][0][1])                     # np.stack((a, b), axis=1)
        if v[1] in ("np.array", "np.asarray") and len(v[2]) >= 1 and isinstance(v[2][0], tuple) and v[2][0][:2] == ("op", "list") \
                and isinstance(v[2][0][2][0], tuple) and v[2][0][2][0][:2] == ("op", "zip"):
            return list(v[2][0][2][0][2])               # np.array(list(zip(a, b)))
    if isinstance(v, tuple) and v and v[0] == "elem" and v[1] == ("sym", "np.c_") and isinstance(v[2], tuple) and v[2][:1] == ("tuple",):
        return list(v[2][1])
    if isinstance(v, tuple) and v[:2] == ("op", ".reshape") and len(v[2]) in (2, 3):
        shape = v[2][1:] if len(v[2]) == 3 else (v[2][1][1] if isinstance(v[2][1], tuple) and v[2][1][:1] == ("tuple",) else ())
        ns = _norm_slice(M.origin(v[2][0]))
        if len(shape) == 2 and shape[1] == Lin(c=2) and ns is not None and ns[3] == Lin(c=1):
            # consecutive pairs: column 0 is every second element from the first one on, column 1 from the next one on
            base, lo, end, _ = ns
            hi = ("k", None) if end == Lin() else (end if end.is_const() else end + lin(("len", M.origin(base))))
            return [("slice", base, lo, hi, Lin(c=2)), ("slice", base, lo + 1, hi, Lin(c=2))]
    return None


def _shape2(v):
    """(leading block, rows, columns, kinds of the blocks appended on the right) of a 2-D array built by horizontal stacking / padding"""
    if isinstance(v, tuple) and v[:1] == ("op",):
        name, args = v[1], v[2]
        kws = dict(v[3]) if len(v) > 3 else {}
        blocks = None
        if name in ("np.hstack", "np.column_stack") and len(args) == 1 and isinstance(args[0], tuple) and args[0][:1] == ("tuple",):
            blocks = list(args[0][1])
        elif name == "np.concatenate" and args and isinstance(args[0], tuple) and args[0][:1] == ("tuple",) \
                and (kws.get("axis") == Lin(c=1) or (len(args) > 1 and args[1] == Lin(c=1))):
            blocks = list(args[0][1])
        elif name == "np.append" and len(args) >= 2 and (kws.get("axis") == Lin(c=1) or (len(args) > 2 and args[2] == Lin(c=1))):
            blocks = [args[0], args[1]]
        elif name == "np.pad" and len(args) >= 2 and isinstance(args[1], tuple) and args[1][:1] == ("tuple",) and len(args[1][1]) == 2 \
                and (kws.get("mode") in (None, S((("lit", "constant"),)))) and kws.get("constant_values") in (None, Lin()) and len(args) == 2:
            (r0, c0) = args[1][1]
            if r0 == ("tuple", (Lin(), Lin())) and isinstance(c0, tuple) and c0[:1] == ("tuple",) and len(c0[1]) == 2 and c0[1][0] == Lin():
                inner = _shape2(args[0])
                if inner is None:
                    return None
                return inner[0], inner[1], inner[2] + lin(c0[1][1]), inner[3] + ["zeros"]
            return None
        if blocks is not None and blocks:
            first = _shape2(blocks[0])
            if first is None:
                return None
            lead, nrows, ncols, pads = first
            for b_ in blocks[1:]:
                if isinstance(b_, tuple) and b_[:1] == ("op",) and b_[1] in ("np.zeros", "np.ones", "np.empty", "np.full") and b_[2] \
                        and isinstance(b_[2][0], tuple) and b_[2][0][:1] == ("tuple",) and len(b_[2][0][1]) == 2:
                    r, c = b_[2][0][1]
                    if lin(r) != nrows:
                        return None
                    kind = "zeros" if b_[1] == "np.zeros" or (b_[1] == "np.full" and len(b_[2]) > 1 and b_[2][1] in (Lin(), ("k", 0.0))) else b_[1]
                    ncols = ncols + lin(c)
                    pads = pads + [kind]
                else:
                    return None
            return lead, nrows, ncols, pads
        if name in ("np.hstack", "np.column_stack", "np.concatenate", "np.append", "np.pad", "np.vstack", "np.stack"):
            return None
    if isinstance(v, (Lin, S)):
        return None
    return v, lin(("len", M.origin(v))), lin(("dim", M.origin(v), 1)), []


def _is_zeros2(v):
    return isinstance(v, tuple) and v[:2] == ("op", "np.zeros") and v[2] and isinstance(v[2][0], tuple) and v[2][0][:1] == ("tuple",) and len(v[2][0][1]) == 2


def _filled(E, ret, z):
    """`out = np.zeros((rows, C)); out[:, :c] = block; return out` -> the block followed by zero columns (same shape tuple as _shape2)"""
    r, C = z[2][0][1]
    full = ("sl", Lin(), ("k", None), Lin(c=1))
    blocks = [e for e in E.events("store") if e.d["base"] == z and e.seq < ret.seq and set(e.facts) <= set(ret.facts)]
    if len(blocks) != 1:
        return None
    e = blocks[0]
    idx = e.d["index"]
    if not (isinstance(idx, tuple) and idx[:1] == ("tuple",) and len(idx[1]) == 2 and idx[1][0] == full):
        return None
    cs = idx[1][1]
    blk = e.d["value"]
    if not (isinstance(cs, tuple) and cs[:1] == ("sl",) and cs[1] == Lin() and cs[3] == Lin(c=1) and isinstance(cs[2], Lin)):
        return None
    if isinstance(blk, (Lin, S)) or lin(r) != lin(("len", M.origin(blk))) or cs[2] != lin(("dim", M.origin(blk), 1)):
        return None
    return blk, lin(r), lin(C), ["zeros"]


def _norm_slice(sl):
    """(base, first, end relative to the length (0 = to the end, -1 = all but the last), step) of a 1-D slice with constant bounds"""
    if not (isinstance(sl, tuple) and sl[:1] == ("slice",)):
        return None
    base, lo, hi, step = sl[1], sl[2], sl[3], sl[4]
    n = lin(("len", M.origin(base)))
    if hi == ("k", None):
        end = Lin()
    elif isinstance(hi, Lin) and hi.is_const() and hi.c < 0:
        end = hi
    elif isinstance(hi, Lin):
        end = hi - n
    else:
        return None
    if not (isinstance(lo, Lin) and isinstance(step, Lin)):
        return None
    return base, lo, end, step


def _transpose_form(v):
    """(base, transposed?, conjugated?) of a matrix expression built from .T / .transpose() / .conj()"""
    tr = cj = False
    if isinstance(v, Lin) and the_atom(v) is not None:
        v = the_atom(v)                 # a matrix compared as a number is wrapped in a linear form
    while isinstance(v, tuple) and v and v[0] == "op":
        if v[1] == "T" and len(v[2]) == 1:
            tr = not tr
            v = v[2][0]
        elif v[1] in (".conj", ".conjugate", "np.conj", "np.conjugate") and len(v[2]) == 1:
            cj = not cj
            v = v[2][0]
        else:
            break
    return v, tr, cj


def r3_reader_strides(ctx):
    # ---- rdtabled1: columns of the returned table
    fn = ctx.src.func(BULK, "rdtabled1")
    E = engine(ctx, BULK, "rdtabled1")
    stores = [e for e in E.events("store") if e.loops]
    v = V()
    if not stores:
        v.unknown("no table is stored inside the loop over the cards")
    for e in stores:
        v.at(e.node)
        cols = _columns(e.d["value"])
        if cols is None or len(cols) != 2 or not all(isinstance(c, tuple) and c[:1] == ("slice",) for c in cols):
            v.unknown(show(e.d["value"]))
            continue
        na, nb = _norm_slice(cols[0]), _norm_slice(cols[1])
        if na is None or nb is None:
            v.unknown([show(c) for c in cols])
            continue
        good = na[0] == nb[0] and na[1] == Lin(c=8) and nb[1] == Lin(c=9) and na[2] == Lin(c=-1) == nb[2] and na[3] == Lin(c=2) == nb[3]
        if not good:
            if na[0] != nb[0]:
                v.unknown([show(c) for c in cols])
                continue
            # a component that differs from the expected stride for some card length is a contradiction
            diffs = [na[1] - 8, nb[1] - 9, na[2] + 1, nb[2] + 1, na[3] - 2, nb[3] - 2]
            verdicts = [_differs(d_, ()) [0] for d_ in diffs if not (d_.is_const() and d_.c == 0)]
            (v.bad if any(x is True for x in verdicts) else v.unknown)([show(c) for c in cols])
            continue
        # the vector sliced is the card of the table the result is stored under
        src = na[0]
        if not (isinstance(src, tuple) and src[:1] == ("elem",) and src[2] == e.d["index"]):
            v.unknown({"sliced": show(src), "stored under": show(e.d["index"])})
    v.report(ctx, "rdtabled1: abscissae are fields 8,10,... and ordinates fields 9,11,... up to (not including) the final ENDT field", fn)
    # ---- writer side: the header occupies card fields 0..7, so the first pair is field 8
    A = _tabled1_analysis(ctx)
    for pairw in (32, 16):
        W = pairw // 2
        h = V(demote=not A["split_ok"])
        if not A["arms"][pairw]:
            h.unknown("no path for this field width")
        for s, (lines, term) in A["arms"][pairw]:
            body = [ln for ln in lines if not _is_comment(ln)]
            # the card starts with the line that holds the table id
            if not body or not any(t_[0] == "fv" and t_[2] == ("sym", "tid") for t_ in body[0]):
                h.unknown("first line: " + (_show_line(body[0]) if body else ""))
                continue
            first = body[0]
            h.at(first[0][-1].node if hasattr(first[0][-1], "node") else None)
            widths = []
            for t_ in first:
                sp = M.parse_spec(t_[1]) if t_[0] == "fv" and t_[1] is not None else None
                widths.append(sp.width if sp is not None else None)
            if None in widths:
                h.unknown(_show_line(first))
                continue
            if widths != [8, W]:
                h.bad({"first line": _show_line(first), "field widths": widths})
                continue
            # blank continuation lines until the card has 8 fields, then data
            per_line = 64 // W
            k = 1
            while k < len(body) and len(body[k]) == 1 and body[k][0][0] == "lit" and body[k][0][1].rstrip() in ("*", "+") and k * per_line < 8:
                k += 1
            if k * per_line != 8:
                h.bad({"header lines": [_show_line(x) for x in body[:k]], "fields before the first pair": k * per_line})
        h.report(ctx, "wttabled1: the header card line holds only name + id, so the first pair starts field 8 (second line)", A["fn"])
    # ---- rdgrids pads to 8 columns; wtgrids writes at most 8 fields after the name
    fn = ctx.src.func(BULK, "rdgrids")
    E = engine(ctx, BULK, "rdgrids")
    rets = [e for e in E.events("return")]
    g = V()
    padded = 0
    for e in rets:
        v_ = e.d["value"]
        if v_ == ("k", None) or any(pol and isinstance(t, tuple) and t[:2] == ("cmp", "Is") and set(t[2:]) == {("k", None), v_} for t, pol in e.facts):
            continue            # None: no GRID card in the file
        g.at(e.node)
        shape = _shape2(v_) if not _is_zeros2(v_) else _filled(E, e, v_)
        if shape is None:
            g.unknown(show(v_))
            continue
        first, nrows, ncols, pads = shape
        if not pads:
            # returned unchanged: only when it already has at least 8 columns
            lo, hi = M.bounds(ncols, e.facts)
            if not (lo is not None and lo >= 8):
                at = the_atom(ncols)
                vals, _ = M.possible_values(at, e.facts, extra=(8,), lo=0) if at is not None else (set(), None)
                short = sorted(x for x in vals if x < 8)
                if short and at is not None and any(M.mentions(t, at) for t, _ in e.facts):
                    g.bad({"returned without padding": show(v_), "possible number of columns": short[:4]})
                else:
                    g.unknown({"returned without padding": show(v_), "columns proved": [str(lo), str(hi)]})
            continue
        if any(p_ != "zeros" for p_ in pads):
            g.unknown({"padding": pads})
            continue
        if ncols != Lin(c=8):
            r_, w_ = _differs(ncols - 8, e.facts, limit=12)
            if r_ is not False:
                (g.bad if r_ is True else g.unknown)({"columns after padding": show(ncols), "not 8 for": w_})
                continue
        # the block of zeros must have a width that exists (>= 0): the card has at most as many columns as the result
        nc = lin(("dim", M.origin(first), 1))
        lo, hi = M.bounds(ncols - nc, e.facts)
        if not (lo is not None and lo >= 0):
            g.unknown({"width of the padding": show(ncols - nc), "proved": f"{lo}..{hi}"})
            continue
        padded += 1
    if g.v is True and padded < 1:
        g.unknown("no padded return value")
    g.report(ctx, "rdgrids pads short GRID cards to 8 columns", fn)
    # ---- DMIG: the writer's symmetry test must match the reader's mirror (plain transpose, no conjugation)
    _dmig(ctx)


def _card_consumer(ctx, pub, reader="rdcards"):
    """qualified name of the function that works on the cards the public reader `pub` gets from `reader(...)`: the function the result of that
    call is handed to (directly, through a local, or through a wrapper without loops), or `pub` itself when it works on them in its own body"""
    m = ctx.src.mod(BULK)
    fn = ctx.src.func(BULK, pub)
    nested = {q.split(".")[-1]: q for q in m.funcs if q.startswith(pub + ".") and q.count(".") == 1}
    loops = lambda f: any(isinstance(n, (ast.For, ast.While, ast.comprehension)) for n in ast.walk(f))
    follow = dict(helpers_of(m))
    E = M.Engine(m, fn, follow=follow, follow_if=lambda f: not loops(f), max_states=256)
    E.run()

    def from_reader(v, depth=0):
        if depth > 6 or not isinstance(v, tuple):
            return False
        if v[:1] == ("op",) and isinstance(v[1], str) and v[1].split(".")[-1] == reader:
            return True
        return False
    found = []
    for e in E.events("call"):
        nm = (e.d["name"] or "")
        q = nested.get(nm) or (nm if nm in helpers_of(m) else None)
        if q is None:
            continue
        if any(from_reader(a) for a in list(e.d["args"]) + list(e.d["kws"].values())) and q not in found:
            found.append(q)
    if found:
        return found
    # the cards are worked on where they are read
    if any(isinstance(e.d.get("value"), tuple) and from_reader(e.d["value"]) for e in E.events("assign")) or \
            any(from_reader(e.d["value"]) for e in E.events("call") if isinstance(e.d.get("value"), tuple)):
        return [pub]
    return []


def _dmig(ctx):
    wd = ctx.src.func(BULK, "wtdmig")
    E = engine(ctx, BULK, "wtdmig")
    # reader: every store of an entry under form == 6 has a mirrored store of the same value.  The code looked at is the function rddmig hands the
    # cards read by rdcards to (found by following that value), not a function of a given name.
    units = _card_consumer(ctx, "rddmig")
    if len(units) != 1:
        raise AnchorError(f"rddmig: the function that turns the cards read by rdcards into matrices ({', '.join(units) or 'none found'})")
    rd = ctx.src.func(BULK, units[0])
    Er = engine(ctx, BULK, units[0])
    stores = [e for e in Er.events("store") if isinstance(e.d["index"], tuple) and e.d["index"][:1] == ("tuple",) and len(e.d["index"][1]) == 2 and len(e.loops) >= 2]

    def form6(facts):
        """some integer quantity the facts speak about can only be 6"""
        for t, pol in facts:
            for at in M.free_symbols(t):
                ok_, cand = M.possible_values(at, facts, extra=(6,), lo=0)
                if ok_ == {6}:
                    return True
        return False
    swapped = lambda e, p_: p_.d["index"][1] == e.d["index"][1][::-1] and p_.loops == e.loops and p_.d["base"] == e.d["base"]
    same = lambda e, p_: p_.d["value"] == e.d["value"] or e.d["value"] == ("elem", p_.d["base"], p_.d["index"])
    mir = [e for e in stores if any(swapped(e, p_) and p_.seq < e.seq and set(p_.facts) <= set(e.facts) for p_ in stores)]
    prim = [e for e in stores if e not in mir]
    v = V()
    if not prim or not mir:
        v.unknown({"stores": [(show(e.d["index"]), show(e.d["value"])) for e in stores][:6]})
    forms = {lin(at) for e in mir for t, pol in e.facts for at in M.free_symbols(t) if M.possible_values(at, e.facts, extra=(6,), lo=0)[0] == {6}}
    for e in mir:
        v.at(e.node)
        ps = [p_ for p_ in prim if swapped(e, p_) and p_.seq < e.seq and set(p_.facts) <= set(e.facts)]
        if ps and not any(same(e, p_) for p_ in ps):
            v.bad({"entry": show(ps[-1].d["value"]), "mirrored as": show(e.d["value"])}, e.node)
        if not form6(e.facts):
            extra = [(show(t), pol) for t, pol in e.facts if (t, pol) not in (ps[-1].facts if ps else ())]
            v.bad({"the entry is mirrored under": extra[:3], "expected": "form == 6 (symmetric half storage) and only then"}, e.node)
    for p_ in prim:
        if forms and any(_excludes(p_.facts, x, 6) for x in forms):
            continue
        if not any(swapped(e, p_) for e in mir):
            v.unknown({"entry without a mirror store": show(p_.d["index"])}, p_.node)
    v.report(ctx, "rddmig: a form-6 entry (i, j) is mirrored to (j, i) unchanged (plain symmetry)", rd)
    # orientation: the first index of an entry is looked up in what becomes the row index of the DataFrame, the second in its column index
    o = V()
    frames = []
    for e in Er.events("call"):
        if (e.d["name"] or "").split(".")[-1] == "DataFrame":
            a_ = dict(zip(("data", "index", "columns"), e.d["args"]))
            a_.update({k: x for k, x in e.d["kws"].items() if k in ("data", "index", "columns")})
            if {"data", "index", "columns"} <= set(a_):
                frames.append((e, a_))
    if not frames:
        o.unknown("DataFrame(mat, index=..., columns=...)")
    for fr, a_ in frames:
        R, C = a_["index"], a_["columns"]
        for p_ in prim:
            if p_.d["base"] != a_["data"] or not set(p_.facts) <= set(fr.facts) and p_.loops[:1] != fr.loops[:1]:
                continue
            i0, i1 = p_.d["index"][1]
            o.at(p_.node)
            if R == C:
                continue                # one index for rows and columns (square, symmetric): both positions are looked up in it
            rr, rc, cr, cc = M.mentions(i0, R), M.mentions(i0, C), M.mentions(i1, R), M.mentions(i1, C)
            if rr and cc and not rc and not cr:
                continue
            if rc and cr and not rr and not cc:
                o.bad({"stored at": show(p_.d["index"])[:200], "row index of the frame": show(R)[:120], "column index": show(C)[:120]}, p_.node)
            else:
                o.unknown({"stored at": show(p_.d["index"])[:200]}, p_.node)
    o.report(ctx, "rddmig: an entry is stored at (position in the row index, position in the column index) of the frame that is returned", rd)
    # the locals that hold the matrix form (6 and at least one of 1, 2, 9) and the matrix type (1..4), whatever they are called
    consts = {}
    for e in E.events("assign"):
        if M.is_int_const(e.d["value"]) and e.d["name"]:
            consts.setdefault(e.d["name"], set()).add(M.ival(e.d["value"]))
    fname = next((nm for nm, cs in sorted(consts.items()) if 6 in cs and cs & {1, 2, 9} and cs <= {1, 2, 6, 8, 9}), None)
    tname = next((nm for nm, cs in sorted(consts.items()) if cs == {1, 2, 3, 4} and nm != fname), None)
    # writer: form 6 only under a test that the matrix equals its plain transpose
    asg = [e for e in E.events("assign") if e.d["name"] == fname and e.d["value"] == Lin(c=6)]
    inst = ("wtdmig: a matrix is written as form 6 (half storage) only if it equals its plain transpose - the reader mirrors "
            "without conjugation")
    if not asg:
        ctx.error("wtdmig: symmetric (form 6) test", wd)
    else:
        v = V()
        for e in asg:
            v.at(e.node)
            res = [r for r in (_symmetry_test(ctx, t, pol, E) for t, pol in e.facts) if r is not None]
            if any(r[0] is True for r in res):
                continue
            bad = [r for r in res if r[0] is False]
            if bad:
                v.bad(bad[0][1], bad[0][2] if len(bad[0]) > 2 and bad[0][2] is not None else e.node)
            elif res:
                v.unknown(res[0][1])
            else:
                v.unknown("no test of the matrix against its transpose dominates `form = 6`")
        v.report(ctx, inst, wd)
    # wtdmig: rows written per column: col..n-1 for form 6 (one of each (i,j)/(j,i) pair), 0..n-1 otherwise - decided on what the tests passed on
    # the way to the write of a term say about the row, so a start index, a `continue` or a condition are the same thing
    fors = [e for e in E.events(("for", "while"))]
    terms = [e for e in E.events("call") if is_write(e) and len(e.loops) >= 3 and isinstance(e.d["args"][0], S)]
    v = V()
    seen6 = seen_other = False
    for e in terms:
        v.at(e.node)
        inner = [f for f in fors if f.d["loop"] == e.loops[-1]]
        outer = [f for f in fors if f.d["loop"] == e.loops[-2]]
        ci, co = (_counted_loop(E, inner[0]) if inner else None), (_counted_loop(E, outer[0]) if outer else None)
        if ci is None or co is None:
            v.unknown({"loops around the term": [show(f.d["iter"]) for f in inner + outer]})
            continue
        inner, outer = [_AsRange(inner[0], ci)], [_AsRange(outer[0], co)]
        row, col = inner[0].d["target"], outer[0].d["target"]
        formv = None
        for a_ in reversed([x for x in E.events("assign") if x.d["name"] == fname and x.seq < e.seq and set(x.facts) <= set(e.facts)]):
            formv = a_.d["value"]
            break
        if not M.is_int_const(formv):
            v.unknown({"form": show(formv)})
            continue
        at = the_atom(outer[0].d["iter"][2])
        mat = at[1] if isinstance(at, tuple) and at[0] == "dim" and at[2] == 1 else None
        if mat is None or outer[0].d["iter"][1] != Lin() or outer[0].d["iter"][3] != Lin(c=1) or inner[0].d["iter"][3] != Lin(c=1):
            v.unknown({"columns": show(outer[0].d["iter"]), "rows": show(inner[0].d["iter"])})
            continue
        six = formv == Lin(c=6)
        seen6, seen_other = seen6 or six, seen_other or not six
        first = (row - col) if six else row          # must be able to be 0
        lo, _ = M.bounds(first, e.facts)
        if lo is not None and lo >= 1:
            v.bad({"form": show(formv), "rows written": f"from {'col' if six else '0'} + {lo} on", "loop": show(inner[0].d["iter"])})
        d_ = inner[0].d["iter"][2] - lin(("len", mat))
        if d_ != Lin():
            if d_.is_const() and d_.c < 0:
                v.bad({"form": show(formv), "the row loop stops at": show(inner[0].d["iter"][2])})
            else:
                v.unknown({"the row loop stops at": show(inner[0].d["iter"][2])})
    if v.v is True and not (seen6 and seen_other):
        v.unknown("terms written for the symmetric and for the general form")
    v.report(ctx, "wtdmig: form 6 writes rows col..n-1 of each column (one of each (i,j)/(j,i) pair)", wd)
    # every non-zero term is written: no test on the way to the write of a term is false for a non-zero value of that term (a term that is not
    # written is read back as zero)
    v = V()
    nterm = 0
    for e in terms:
        v.at(e.node)
        nums = []
        for x in _formatted_numbers(e.d["args"][0]):
            while isinstance(x, tuple) and x[:1] == ("attr",) and x[2] in ("real", "imag"):
                x = x[1]
            if x is not None and x not in nums and not isinstance(x, (Lin, S)):
                nums.append(x)
        if len(nums) != 1:
            continue
        nterm += 1
        for t, pol in e.facts:
            if M.mentions(t, nums[0]):
                r = next((x for x in (M.truth(t, {nums[0]: 1}), M.truth(t, {nums[0]: -1})) if x is not None and x != pol), None)
                if r is not None and r != pol:
                    v.bad({"the term is written only when": ("" if pol else "not ") + show(t), "so a non-zero term is skipped": show(nums[0])}, e.node)
    if v.v is True and nterm == 0:
        v.unknown("the value written for a term")
    v.report(ctx, "wtdmig: a non-zero term is never skipped (terms that are not written come back as zero)", wd)
    # the matrix type says `complex` (3, 4) exactly when the data is complex: rddmig reads imaginary parts only for types 3 and 4, and a complex
    # term written through a real format loses its imaginary part.  Decided where the type is set under a test of np.iscomplexobj / isrealobj.
    v = V()
    ntyped = 0
    for a_ in [x for x in E.events("assign") if x.d["name"] == tname and M.is_int_const(x.d["value"])]:
        k = M.ival(a_.d["value"])
        for t, pol in a_.facts:
            if isinstance(t, tuple) and t[:1] == ("op",) and t[1] in ("np.iscomplexobj", "np.isrealobj") and len(t[2]) == 1:
                is_c = pol if t[1] == "np.iscomplexobj" else (not pol)
                ntyped += 1
                v.at(a_.node)
                if (k >= 3) != is_c:
                    v.bad({"matrix type": k, "set when the data is": "complex" if is_c else "real"}, a_.node)
    if ntyped:
        v.report(ctx, "wtdmig: the matrix type is 3 or 4 exactly when the data is complex", wd)
    # D exponent for the double-precision types
    v = V()
    kinds = set()
    for e in terms:
        v.at(e.node)
        mt = None
        for a_ in reversed([x for x in E.events("assign") if x.d["name"] == tname and x.seq < e.seq and set(x.facts) <= set(e.facts)]):
            mt = a_.d["value"]
            break
        if not M.is_int_const(mt):
            # wherever the type is kept (a local, a field of a record): it is what the header card of this matrix shows in its fifth field
            for h_ in reversed([x for x in E.events("call") if is_write(x) and x.seq < e.seq and set(x.facts) <= set(e.facts) and isinstance(x.d["args"][0], S)
                                and x.loops == e.loops[:1]]):
                hv = _card_column(h_.d["args"][0], "DMIG    ", 32, 40)
                if hv is not None:
                    mt = hv
                    break
        if not M.is_int_const(mt):
            v.unknown(f"matrix type {show(mt)}")
            continue
        k = M.ival(mt)
        # every number rendered with a floating-point spec in the term line, with the replacements applied to the text it sits in
        # ("...E+05".replace("E", "D")), wherever they are applied: to the whole number string, to each part, through a variable
        rend = _renderings(e.d["args"][0])
        if rend is None or not rend:
            v.unknown(repr(e.d["args"][0]))
            continue
        specs = [sp for sp, _ in rend]
        kinds.add(k)
        letters = {lt for _, lt in rend}
        want_letter = "D" if k % 2 == 0 else "E"
        if letters != {want_letter} and not (letters == {"e"} and want_letter == "E"):
            v.bad({"mtype": k, "exponent letter written": sorted(letters), "expected": want_letter})
        if len(specs) != (2 if k >= 3 else 1):
            v.bad({"mtype": k, "numbers written per term": len(specs)})
    if v.v is True and kinds != {1, 2, 3, 4}:
        v.unknown({"matrix types seen": sorted(kinds)})
    v.report(ctx, "wtdmig: double-precision types (even mtype) use the D exponent", wd)
    _dmig_layout(ctx, E, Er, terms, prim, wd, rd)
    # form 9: the NCOL header field the writer fills vs the columns the (expanded) reader allocates from it, on a finite world of column label sets
    c13_ncol.check(ctx, V, E, Er, prim, is_write, wd, rd)


def _card_column(text, name8, c0, c1):
    """the value shown in columns c0..c1 of the first line of a written text that starts with the 8-column card name `name8`: the formatted value that
    fills exactly these columns, or the integer a literal piece shows there; None when the text is not that card or the columns are not one field"""
    col = 0
    first = True
    for p_ in text.p:
        if p_[0] == "lit":
            t = p_[1].split("\n")[0]
            if first and not t.startswith(name8):
                return None
            if col <= c0 and col + len(t) >= c1:
                piece = t[c0 - col:c1 - col].strip()
                try:
                    return Lin(c=int(piece))
                except ValueError:
                    return None
            if "\n" in p_[1]:
                return None
            col += len(t)
        elif p_[0] == "fv":
            if first:
                return None
            sp = M.parse_spec(p_[1]) if p_[1] is not None else None
            if sp is None or sp.width is None:
                return None
            if col == c0 and sp.width == c1 - c0:
                return p_[2] if isinstance(p_[2], Lin) else None
            col += sp.width
        else:
            return None
        first = False
        if col > c0:
            return None
    return None


def _affine(idx, E, lid):
    """(offset, stride) of a field index that is linear in the pass number of loop `lid`: c + s * k for the iteration index k of a zip / enumerate
    loop, or i + c for the variable of `for i in range(lo, hi, step)` (offset lo + c, stride step); a constant index is (c, 0)"""
    idx = lin(idx)
    loopsyms = [at for at in idx.t if isinstance(at, tuple) and at[:1] == ("sym",) and at[1].endswith(f"@L{lid}")]
    others = [at for at in idx.t if at not in loopsyms]
    if others or idx.c.denominator != 1:
        return None
    if not loopsyms:
        return int(idx.c), 0
    if len(loopsyms) != 1 or idx.t[loopsyms[0]].denominator != 1:
        return None
    sym, coef = loopsyms[0], int(idx.t[loopsyms[0]])
    if sym[1].startswith("<k>"):
        return int(idx.c), coef
    head = next((e for e in E.events(("for", "while")) if e.d["loop"] == lid), None)
    it = head.d.get("iter") if head is not None else None
    if isinstance(it, tuple) and it[:1] == ("range",) and M.is_int_const(it[1]) and M.is_int_const(it[3]) and head.d.get("target") == lin(sym):
        return int(idx.c) + coef * M.ival(it[1]), coef * M.ival(it[3])
    return None


def _card_fields(v, card):
    """{field index (a linear form): coefficient} of a linear combination of fields of `card`; None if anything else is involved"""
    v = lin(v)
    out = {}
    if v.c != 0:
        return None
    for at, coef in v.t.items():
        if isinstance(at, tuple) and at[:1] == ("elem",) and at[1] == card and not isinstance(at[2], tuple):
            out[lin(at[2])] = coef
        else:
            return None
    return out


def _complex_parts(v):
    """(real part, imaginary part or None) of a value `re` or `re + 1j * im`"""
    if isinstance(v, tuple) and v[:1] == ("elem",):
        return v, None
    if isinstance(v, Lin) and v.c == 0 and len(v.t) == 2 and all(c == 1 for c in v.t.values()):
        re_, im_ = None, None
        for at in v.t:
            if isinstance(at, tuple) and at[:1] == ("mul",):
                a, b = the_atom(at[1]), the_atom(at[2])
                j = ("k", 1j)
                if a == j and isinstance(b, tuple) and b[:1] == ("elem",):
                    im_ = b
                elif b == j and isinstance(a, tuple) and a[:1] == ("elem",):
                    im_ = a
            elif isinstance(at, tuple) and at[:1] == ("elem",):
                re_ = at
        if re_ is not None and im_ is not None:
            return re_, im_
    return None


def _line_fields(v):
    """the fields of a written line after its 8-column head: [(width, value)] - nested strings and `.replace` are looked through; None if a part has
    no known width"""
    out = []

    def walk(x):
        if isinstance(x, S):
            for p_ in x.p:
                if p_[0] == "fv":
                    sp = M.parse_spec(p_[1]) if p_[1] is not None else None
                    if isinstance(p_[2], S) and (sp is None or sp.width is None):
                        if not walk(p_[2]):
                            return False
                    elif isinstance(p_[2], tuple) and p_[2][:2] == ("op", ".replace") and (sp is None or sp.width is None):
                        if not walk(p_[2][2][0]):
                            return False
                    elif sp is None or sp.width is None:
                        return False
                    else:
                        out.append((sp.width, p_[2]))
                elif p_[0] == "str":
                    if not walk(p_[1]):
                        return False
                elif p_[0] == "lit":
                    out.append((len(p_[1]), S((p_,))))
                else:
                    return False
            return True
        if isinstance(x, tuple) and x[:2] == ("op", ".replace") and x[2]:
            return walk(x[2][0])
        return False
    return out if walk(v) else None


def _objects(v, out=None):
    """the objects made by calls without arguments (set(), list(), a factory) a value is built from"""
    out = [] if out is None else out
    if isinstance(v, tuple):
        if v[:1] == ("op",) and len(v) > 3 and v[2] == () and v[3] and v[3][0][0] == "@site":
            if v not in out:
                out.append(v)
            return out
        for x in v:
            if isinstance(x, (tuple, Lin, S)):
                _objects(x, out)
    elif isinstance(v, Lin):
        for at in v.t:
            _objects(at, out)
    elif isinstance(v, S):
        for part in v.p:
            for x in part[1:]:
                if isinstance(x, (tuple, Lin, S)):
                    _objects(x, out)
    return out


def _dmig_membership(ctx, Er, prim, rd):
    """np.searchsorted(keys of an index, key) is a position only if the key is in the index.  The reader collects the (grid, dof) pairs of the column
    cards in one collection and those of the terms in another, and builds the indices from them: the index a key is searched in must be built from
    the collection keys of that kind were put into - directly, or because that collection was merged into it (form 6: one index for rows and columns).
    Decided on the calls of each path: a call that is handed a collection together with fields of a card (or items of another collection) puts
    them there."""
    v = V()
    checked = 0
    for p_ in prim:
        v.at(p_.node)
        parts = _complex_parts(p_.d["value"])
        if parts is None:
            continue
        for s in Er.finals:
            if not any(e is p_ for e in s.events):
                continue
            # the calls made before the entry is stored, on the paths compatible with the tests passed on the way to the store (the events of all the
            # arms of a loop body are kept together: a call made under the opposite outcome of one of those tests is on another path)
            mine = set(p_.facts)
            calls = [e for e in s.events if e.kind == "call" and e.seq < p_.seq and not any((t, not pol) in mine for t, pol in e.facts)]
            puts = {}          # collection -> [values handed over together with it]
            for e in calls:
                vals = list(e.d["args"]) + list(e.d["kws"].values()) + ([e.d["recv"]] if e.d.get("recv") is not None else [])
                objs = [o for a in vals if isinstance(a, tuple) and a[:1] == ("op",) for o in ([a] if a in _objects(a) else [])]
                for o in objs:
                    puts.setdefault(o, []).extend(a for a in vals if a is not o and a != o)

            for x in p_.d["index"][1]:
                if not (isinstance(x, tuple) and x[:2] == ("op", "np.searchsorted") and len(x[2]) >= 2):
                    continue
                arr, key = x[2][0], x[2][1]
                card = parts[0][1]
                fields = _card_fields(key, card)
                if not fields:
                    continue
                # positions are compared card by card: the first pass over the cards (collecting) and the second (storing) use different loop symbols
                norm = set()
                for idx in fields:
                    a = _affine(idx, Er, p_.loops[-1])
                    norm.add(a if a is not None else idx)
                built_from = _objects(arr)
                if not built_from:
                    continue

                def flat(vals):
                    for a in vals:
                        if isinstance(a, tuple) and a[:1] in (("tuple",), ("set",)):
                            yield from flat(a[1])
                        elif isinstance(a, tuple) and a[:1] == ("star",):
                            yield from flat([a[1]])
                        else:
                            yield a

                def fields_of(o):
                    out = set()
                    for a in flat(puts.get(o, [])):
                        if isinstance(a, tuple) and a[:1] == ("elem",) and not isinstance(a[2], tuple) and isinstance(a[1], tuple) \
                                and (a[1][:1] in (("elem",), ("sym",)) or (a[1][:1] == ("op",) and a[1] not in _objects(a[1]))):
                            lids = [int(t_[1].rsplit("@L", 1)[1]) for t_ in lin(a[2]).t if isinstance(t_, tuple) and t_[:1] == ("sym",) and "@L" in t_[1]
                                    and t_[1].rsplit("@L", 1)[1].isdigit()]
                            af = _affine(a[2], Er, lids[0]) if lids else _affine(a[2], Er, -1)
                            if af is not None:
                                out.add(af)
                    return out

                def reach_(o, seen=()):
                    """collections whose content ends up in o"""
                    res = [o]
                    for a in puts.get(o, []):
                        for o2 in _objects(a):
                            if o2 != o and o2 not in seen and o2 not in res:
                                res.extend(x_ for x_ in reach_(o2, seen + (o,)) if x_ not in res)
                    return res
                holders = [o for o in puts if norm <= fields_of(o)]
                if not holders:
                    continue            # where keys of this kind are collected is not visible on this path: nothing is concluded
                checked += 1
                sources = [o2 for o in built_from for o2 in reach_(o)]
                if not any(h in sources for h in holders):
                    v.bad({"key searched": show(key)[:160], "in an index built from": [show(o) + "@" + str(o[3][0][1]) for o in built_from],
                           "but keys of this kind are collected in": [show(o) + "@" + str(o[3][0][1]) for o in holders],
                           "consequence": "a key that is not in the index gets the position of a neighbour (silently)"}, p_.node)
    if v.v is True and checked == 0:
        v.unknown("no key whose collection is visible")
    v.report(ctx, "rddmig: the index a (grid, dof) key is searched in is built from the collection keys of that kind were put into (form 6: the column "
                  "DOF are merged into the row DOF)", rd)


def _dmig_layout(ctx, E, Er, terms, prim, wd, rd):
    """the fields rddmig takes from a column card are the fields wtdmig puts there: column grid / dof in fields 1, 2 of the card, then one term per
    continuation line - row grid, row dof, real part, imaginary part - i.e. fields F(k+1), F(k+1)+1, +2, +3 for the k-th term with F fields on a
    line; and the key searched in the row / column index is formed like the keys of that index (10 * id + dof)"""
    # ---- writer: positions on the lines
    w = V()
    layouts = set()
    F = None
    for e in terms:
        w.at(e.node)
        text = e.d["args"][0]
        if not (isinstance(text, S) and text.p and text.p[-1][0] == "lit" and text.p[-1][1].endswith("\n") and text.p[-1][1].count("\n") == 1):
            w.unknown({"term line": repr(text)})
            continue
        body = S(text.p[:-1] + ((("lit", text.p[-1][1][:-1]),) if text.p[-1][1][:-1] else ()))
        fl = _line_fields(body)
        if not fl or not isinstance(fl[0][1], S) or fl[0][0] != 8:
            w.unknown({"term line": repr(text)})
            continue
        widths = {x[0] for x in fl[1:]}
        if len(widths) != 1 or next(iter(widths)) not in (8, 16) or 8 + sum(x[0] for x in fl[1:]) > 72:
            w.bad({"term line": repr(text), "field widths": [x[0] for x in fl]})
            continue
        F = 64 // next(iter(widths))
        roles = []
        numbers = _formatted_numbers(body)
        for _, val in fl[1:]:
            part = _part(val)
            base = val
            while isinstance(base, tuple) and base[:1] == ("attr",) and base[2] in ("real", "imag"):
                base = base[1]
            if isinstance(base, tuple) and base[:1] == ("elem",) and M.is_int_const(base[2]) and isinstance(base[1], tuple) and base[1][:1] == ("elem",) \
                    and not any(val is n_ or val == n_ for n_ in numbers):
                roles.append(("label", M.ival(base[2])))         # component of the row label rowids[row]
            elif any(val is n_ or val == n_ for n_ in numbers):
                roles.append(part[1:] if part in (".real", ".imag") else "value")      # rendered with a floating-point spec
            else:
                roles.append("?")
        layouts.add(tuple(roles))
    real_l, cplx_l = (("label", 0), ("label", 1), "value"), (("label", 0), ("label", 1), "real", "imag")
    if w.v is True and not layouts:
        w.unknown("no term line")
    elif w.v is True and any("?" in x for x in layouts):
        w.unknown({"fields of a term line that are not understood": [list(map(str, x)) for x in sorted(layouts, key=str)]})
    elif w.v is True and not layouts <= {real_l, cplx_l}:
        w.bad({"fields of a term line": [list(map(str, x)) for x in sorted(layouts, key=str)], "expected": "row grid, row dof, real part[, imaginary part]"})
    # ---- reader: fields consumed
    r = V()
    seen = {"real": 0, "complex": 0}
    for p_ in prim:
        r.at(p_.node)
        lid = p_.loops[-1]
        parts = _complex_parts(p_.d["value"])
        keys = [x[2][1] if isinstance(x, tuple) and x[:2] == ("op", "np.searchsorted") and len(x[2]) >= 2 else None for x in p_.d["index"][1]]
        if parts is None or None in keys:
            r.unknown({"entry": show(p_.d["value"])[:160], "stored at": show(p_.d["index"])[:200]})
            continue
        card = parts[0][1]
        if parts[1] is not None and parts[1][1] != card:
            r.unknown({"real and imaginary part from different cards": show(p_.d["value"])[:200]})
            continue
        kf = [_card_fields(k, card) for k in keys]
        if None in kf:
            r.unknown({"keys": [show(k)[:160] for k in keys]})
            continue
        pos = {}
        okk = True
        for which, fields in zip(("row", "col"), kf):
            aff = {idx: _affine(idx, Er, lid) for idx in fields}
            if None in aff.values():
                okk = False
                break
            varying = any(a[1] != 0 for a in aff.values())
            role = "row" if varying else "col"
            if len(fields) == 2:
                (ia, ca), (ib, cb) = sorted(fields.items(), key=lambda kv: -kv[1])
                pos[role + " id"], pos[role + " dof"] = aff[ia], aff[ib]
                pos[role + " key"] = (ca, cb)
            elif len(fields) == 1:
                (ia, ca), = fields.items()
                pos[role + " id"] = aff[ia]
                pos[role + " key"] = (ca,)
            else:
                okk = False
        if not okk or "row id" not in pos or "row dof" not in pos or "col id" not in pos:
            r.unknown({"keys": [show(k)[:160] for k in keys]})
            continue
        pos["real"] = _affine(parts[0][2], Er, lid)
        pos["imag"] = _affine(parts[1][2], Er, lid) if parts[1] is not None else None
        if pos["real"] is None or (parts[1] is not None and pos["imag"] is None):
            r.unknown({"entry": show(p_.d["value"])[:160]})
            continue
        seen["complex" if parts[1] is not None else "real"] += 1
        if F is None or w.v is not True:
            continue
        want = {"row id": (F, F), "row dof": (F + 1, F), "real": (F + 2, F), "col id": (1, 0)}
        if "col dof" in pos:
            want["col dof"] = (2, 0)
        if parts[1] is not None:
            want["imag"] = (F + 3, F)
        got = {k: pos[k] for k in want}
        if got != want:
            r.bad({"fields read (first, step per term)": {k: list(v_) for k, v_ in got.items()}, "fields written": {k: list(v_) for k, v_ in want.items()},
                   "note": f"a term line holds {F} fields; the card name is not counted"}, p_.node)
        # the key searched must be formed like the keys of the array it is searched in (a * id + b * dof with the same a, b) - when that array is built
        # where this rule can see it
        for x, fields in zip(p_.d["index"][1], kf):
            arr = x[2][0]
            if len(fields) == 2 and isinstance(arr, Lin) and arr.c == 0 and len(arr.t) == 2:
                ka, kb = sorted(fields.values(), reverse=True)
                aa, ab = sorted(arr.t.values(), reverse=True)
                if (ka, kb) != (aa, ab):
                    r.bad({"key searched": f"{ka} * id + {kb} * dof", "keys of the index": f"{aa} * id + {ab} * dof"}, p_.node)
    if r.v is True and not (seen["real"] and seen["complex"]):
        r.unknown({"entries stored from real cards": seen["real"], "from complex cards": seen["complex"]})
    _dmig_membership(ctx, Er, prim, rd)
    w.report(ctx, "wtdmig: a term is one continuation line of 16-character fields: row grid, row dof, real part[, imaginary part]", wd)
    r.report(ctx, "rddmig: the fields taken from a column card (column grid / dof, then row grid, row dof, real, imaginary part of each term) are the fields "
                  "wtdmig writes there, and the key searched is formed like the keys of the index it is searched in", rd)


def _counted_loop(E, head):
    """(index variable, first value, end value (exclusive)) of a loop that runs over consecutive integers, however it is spelled:
    for i in range(lo, hi) / i = lo; while i < hi: ...; i += 1 / for i, x in enumerate(seq[lo:], lo)"""
    it, tgt = head.d.get("iter"), head.d.get("target")
    if isinstance(it, tuple) and it[:1] == ("range",) and isinstance(tgt, Lin) and it[3] == Lin(c=1):
        return tgt, lin(it[1]), lin(it[2])
    if isinstance(it, tuple) and it[:2] == ("op", "enumerate") and isinstance(tgt, tuple) and tgt[:1] == ("tuple",) and isinstance(tgt[1][0], Lin):
        start = it[2][1] if len(it[2]) > 1 else (dict(it[3]).get("start", Lin()) if len(it) > 3 else Lin())
        n = E.length(it[2][0], M.State(facts=head.facts))
        if isinstance(n, Lin):
            return tgt[1][0], lin(start), lin(start) + n
    return None


class _AsRange:
    """a counted loop presented as `for target in range(lo, hi)`"""

    def __init__(self, head, c):
        self.d = dict(head.d)
        self.d["target"] = c[0]
        self.d["iter"] = ("range", c[1], c[2], Lin(c=1))
        self.node, self.facts, self.loops, self.kind = head.node, head.facts, head.loops, head.kind


def _renderings(v, reps=()):
    """[(Spec, exponent letter that ends up in the text)] of the numbers rendered with a floating-point spec inside a written value; `reps`: the
    (old, new) text replacements applied to the enclosing string, innermost first.  None when a replacement is not a literal."""
    out = []
    if isinstance(v, S):
        for x in v.p:
            if x[0] == "fv":
                sp = M.parse_spec(x[1]) if x[1] is not None else None
                if sp is not None and sp.type in ("e", "E", "f", "F", "g", "G") and sp.width is not None and not isinstance(x[2], S):
                    letter = sp.type
                    for a, b in reps:
                        if letter == a:
                            letter = b
                    out.append((sp, letter))
                elif isinstance(x[2], (S, tuple)):
                    r = _renderings(x[2], reps)
                    if r is None:
                        return None
                    out.extend(r)
            elif x[0] == "str":
                r = _renderings(x[1], reps)
                if r is None:
                    return None
                out.extend(r)
        return out
    if isinstance(v, tuple) and v[:2] == ("op", ".replace") and len(v[2]) == 3:
        a, b = v[2][1], v[2][2]
        if not (isinstance(a, S) and isinstance(b, S) and a.text() is not None and b.text() is not None):
            return None if _formatted_numbers(v[2][0]) else []
        return _renderings(v[2][0], ((a.text(), b.text()),) + tuple(reps))
    return out


def _formatted_numbers(v):
    """the values rendered with a floating-point spec in a written string (through `.replace`, nested strings, ...)"""
    out = []
    if isinstance(v, S):
        for x in v.p:
            if x[0] == "fv":
                sp = M.parse_spec(x[1]) if x[1] is not None else None
                if sp is not None and sp.type in ("e", "E", "f", "F", "g", "G"):
                    out.append(x[2])
                elif isinstance(x[2], (S, tuple)):
                    out.extend(_formatted_numbers(x[2]))
            elif x[0] == "str":
                out.extend(_formatted_numbers(x[1]))
    elif isinstance(v, tuple) and v[:2] == ("op", ".replace") and v[2]:
        out.extend(_formatted_numbers(v[2][0]))
    return out


def _counted_loop_step(head):
    """(variable, first, end, step) of `for v in range(first, end, step)` or the counted `while` that spells it"""
    it, tgt = head.d.get("iter"), head.d.get("target")
    if isinstance(it, tuple) and it[:1] == ("range",) and isinstance(tgt, Lin) and M.is_int_const(it[3]) and M.ival(it[3]) >= 1:
        return tgt, lin(it[1]), lin(it[2]), lin(it[3])
    return None


def _excludes(facts, x, k):
    """the facts prove x != k"""
    lo, hi = M.bounds(lin(x) - k, facts)
    if (lo is not None and lo > 0) or (hi is not None and hi < 0):
        return True
    for t, pol in facts:
        if isinstance(t, tuple) and t[:1] == ("cmp",) and set(t[2:]) == {lin(x), Lin(c=k)}:
            if (t[1] == "Eq" and not pol) or (t[1] == "NotEq" and pol):
                return True
    return False


def _has_float(v):
    if isinstance(v, S):
        out = []
        _float_specs(v, out, None)
        return bool(out)
    if isinstance(v, tuple) and v[:2] == ("op", ".replace"):
        return _has_float(v[2][0])
    return False


def _symmetry_test(ctx, t, pol, E, depth=0):
    """does the fact (t, pol) say something about the symmetry of a matrix?
       (True, ..)  it implies m == m.T (to the comparison's tolerance)
       (False, why, node)  it is a comparison with the conjugate transpose, or a disjunction one arm of which does not compare with the transpose
       (None, why)  a test this rule cannot decide;   None: not about symmetry"""
    if not isinstance(t, tuple) or not t:
        return None
    if t[0] == "op" and t[1] in ("np.allclose", "np.isclose") and len(t[2]) >= 2 and pol and _is_zero(t[2][1]) and _difference(t[2][0]) is not None:
        d = _difference(t[2][0])                # np.allclose(m - m.T, 0)
        return _cmp_transposes(d[0], d[1])
    if t[0] == "op" and t[1] in ("np.allclose", "np.array_equal", "np.isclose", "np.array_equiv") and len(t[2]) >= 2:
        if not pol:
            return None
        a, b = _transpose_form(t[2][0]), _transpose_form(t[2][1])
        if a[0] != b[0] or a[1] == b[1]:
            return None
        if a[2] == b[2]:
            return (True, None)
        return (False, sorted(show(x) for x in t[2][:2]), None)
    if t[0] == "op" and t[1] in (".all",) and len(t[2]) == 1 and isinstance(t[2][0], tuple) and t[2][0][:2] == ("cmp", "Eq"):
        if not pol:
            return None
        a, b = _transpose_form(t[2][0][2]), _transpose_form(t[2][0][3])
        if a[0] == b[0] and a[1] != b[1]:
            return (True, None) if a[2] == b[2] else (False, sorted(show(x) for x in t[2][0][2:4]), None)
        return None
    if t[0] == "not" and len(t) == 2:
        return _symmetry_test(ctx, t[1], not pol, E, depth)
    if t[0] == "op" and t[1] in (".any", "np.any") and len(t[2]) == 1 and not pol:
        x = t[2][0]                             # not (m != m.T).any()  /  not np.any(m - m.T)
        if isinstance(x, tuple) and x[:1] == ("not",) and isinstance(x[1], tuple) and x[1][:2] == ("cmp", "Eq"):
            return _cmp_transposes(x[1][2], x[1][3])
        d = _difference(x)
        if d is not None:
            return _cmp_transposes(d[0], d[1])
        return None
    if t[0] == "op" and pol and isinstance(t[1], str) and depth < 2:
        # a predicate of the package: follow its definition
        name = t[1]
        if name.startswith("ytools.") and len(t[2]) >= 1:
            return _follow_predicate(ctx, YTOOLS, name.split(".", 1)[1], t, depth)
        if "." not in name and len(t[2]) >= 1 and ctx.src.has_func(BULK, name):
            return _follow_predicate(ctx, BULK, name, t, depth)
    return None


def _is_zero(v):
    return v == Lin() or v == ("k", 0.0)


def _difference(v):
    """(a, b) of a value a - b"""
    if isinstance(v, Lin) and v.c == 0 and len(v.t) == 2:
        (a, ca), (b, cb) = v.t.items()
        if ca == 1 and cb == -1:
            return a, b
        if ca == -1 and cb == 1:
            return b, a
    if isinstance(v, tuple) and v[:2] == ("op", "np.subtract") and len(v[2]) == 2:
        return v[2][0], v[2][1]
    return None


def _cmp_transposes(x, y):
    """verdict of `x equals y` as a symmetry test: (True, None) plain transpose of the same matrix, (False, ...) conjugate transpose, None otherwise"""
    a, b = _transpose_form(x), _transpose_form(y)
    if a[0] != b[0] or a[1] == b[1]:
        return None
    if a[2] == b[2]:
        return (True, None)
    return (False, sorted(show(z) for z in (x, y)), None)


def _follow_predicate(ctx, rel, qual, t, depth):
    if not ctx.src.has_func(rel, qual):
        return (None, f"predicate {t[1]} cannot be resolved")
    fn = ctx.src.func(rel, qual)
    m = ctx.src.mod(rel)
    params = [a.arg for a in fn.args.args]
    env = {}
    for nm, v in zip(params, t[2]):
        env[nm] = v
    for k, v in (t[3] if len(t) > 3 else ()):
        env[k] = v
    pos = fn.args.args
    E0 = M.Engine(m, fn)
    for p_, dv in zip(pos[len(pos) - len(fn.args.defaults):], fn.args.defaults):
        if p_.arg not in env:
            env[p_.arg] = E0.ev(dv, M.State())
    try:
        E2 = M.Engine(m, fn, params=env, follow=helpers_of(m))
        E2.run()
    except Unsupported as ex:
        return (None, f"predicate {t[1]}: {ex}")
    mat = t[2][0]
    verdicts = []
    for r in E2.events("return"):
        v = r.d["value"]
        if v == ("k", False):
            continue
        verdicts.append(_pred_value(ctx, v, mat, rel, depth + 1, r.node))
    if not verdicts:
        return (None, f"predicate {t[1]} never returns a truth value this rule understands")
    for v in verdicts:
        if v[0] is False:
            return v
    for v in verdicts:
        if v[0] is None:
            return v
    return (True, None)


def _pred_value(ctx, v, mat, rel, depth, node):
    """a returned truth value: does `true` imply that mat equals its plain transpose?"""
    if isinstance(v, tuple) and v and v[0] == "bool":
        subs = [_pred_value(ctx, x, mat, rel, depth, node) for x in v[2]]
        if v[1] == "and":
            if any(s[0] is True for s in subs):
                return (True, None)
            if all(s[0] is False for s in subs):
                return subs[0]
            return (None, "conjunction without a transpose comparison")
        # or: every arm must imply symmetry
        for s, x in zip(subs, v[2]):
            if s[0] is False:
                return s
        for s, x in zip(subs, v[2]):
            if s[0] is None:
                return s
        return (True, None)
    r = _symmetry_test(ctx, v, True, None, depth)
    if r is not None:
        return r if len(r) > 2 or r[0] is not False else (False, r[1], node)
    if isinstance(v, tuple) and v and v[0] == "op" and isinstance(v[1], str) and not v[1].startswith(".") and "." not in v[1] and depth < 3:
        # a function of the same module: does it look at the transpose at all?
        if ctx.src.has_func(rel, v[1]):
            sub = ctx.src.func(rel, v[1])
            uses_t = any((isinstance(n, ast.Attribute) and n.attr in ("T", "transpose", "conj", "conjugate", "H")) or
                         (isinstance(n, ast.Call) and (dotted(n.func) or "").split(".")[-1] in ("transpose", "swapaxes", "triu", "tril", "allclose", "array_equal"))
                         for n in ast.walk(sub))
            calls_out = [dotted(n.func) for n in ast.walk(sub) if isinstance(n, ast.Call) and dotted(n.func) and not (dotted(n.func) or "").startswith(("np.", "abs", "len", "max", "min"))]
            if not uses_t and not calls_out and any(isinstance(n, ast.Compare) and isinstance(n.ops[0], (ast.Lt, ast.LtE, ast.Gt, ast.GtE)) for n in ast.walk(sub)):
                return (False, {"accepted by": show(v), "why": f"`{v[1]}` passes a matrix whose off-diagonal terms are below a threshold relative to the diagonal without "
                                                                "comparing it with its transpose: non-symmetric off-diagonal terms are written as half storage and "
                                                                "come back mirrored"}, node)
        return (None, f"predicate {show(v)}")
    return (None, f"predicate {show(v)}")


# ====================================================================================================================== R4
def r4_sequence_coverage(ctx):
    """writers that cut a sequence into lines / THRU items: every element is written exactly once, in order, and every template has as
    many fields as it is given values"""
    _nasints(ctx)
    _nasints_callers(ctx)
    # THRU compression: the public writers named by the property, and every other public writer in whose code (own body, nested functions,
    # helpers) a loop emits "THRU" between elements of a sequence it is given
    m = ctx.src.mod(BULK)
    named = ("wtset", "wtspoints")
    for q, fn in publics(m, "wt").items():
        if q in named:
            _thru(ctx, q, required=True)
        elif any(isinstance(n, ast.Constant) and isinstance(n.value, str) and "THRU" in n.value.upper() and not isinstance(parent(n), ast.Expr)
                 and any(isinstance(a, (ast.While, ast.For)) for a in ancestors(n)) for g in [fn] + reach(m, fn) for n in ast.walk(g)):
            _thru(ctx, q, required=False)


def _int_records(E, e, seq, N):
    """what a write puts on a line, whatever the spelling: ("{:8d}" * k).format(*seq[a:b])  or  "".join(f"{v:8d}" for v in seq[a:b])
    -> dict(nints, a, b, head (None | True | False), layout (True | False | None), count (fields, values) or None)   or None if not a line of
    integers of `seq`"""
    if e.kind == "format" and e.d.get("items") is not None:
        star = [x for x in e.d["args"] if isinstance(x, tuple) and x[:1] == ("star",)]
        if not star:
            return None
        x = star[0][1]
        if x == seq:
            a, b = Lin(), N
        elif isinstance(x, tuple) and x[:1] == ("slice",) and M.origin(x[1]) == seq and x[4] == Lin(c=1):
            a = lin(x[2])
            b = N if x[3] == ("k", None) else M.mk_min([lin(x[3]), N], e.facts)
        else:
            return {"unknown": show(x)}
        items = e.d["items"]
        heads = [it for it in items if it[0] == "field" and it[1] is not None and it[1].type == "s"]
        nints = M.count_fields([it for it in items if it not in heads])
        fields = list(_all_fields(items))
        text = "".join(it[1] for it in items if it[0] == "text")
        layout = True
        if nints is None or any(it[1] is None or it[1].width is None for it in fields) or any(it[0] not in ("text", "field", "rep") for it in items):
            layout = None
        elif any(it[1].width != 8 for it in fields) or text not in ("\n", "") or len(heads) > 1 or (heads and items[0] is not heads[0]):
            layout = False
        elif text == "":
            # the template has no newline of its own: the line is complete when what is written is the rendered text followed by one
            # (print(text, file=f), f.write(text + "\n")); anything else is not understood here
            val = e.d.get("value")
            done = False
            for w_ in E.events("call"):
                if w_.seq > e.seq and is_write(w_) and isinstance(w_.d["args"][0], S) and isinstance(val, S) and w_.loops == e.loops:
                    wp = w_.d["args"][0].p
                    if wp[:len(val.p)] == val.p and S(wp[len(val.p):]).text() == "\n":
                        done = True
                    break
            if not done:
                layout = None
        return {"nints": nints, "a": a, "b": b, "head": bool(heads), "layout": layout, "count": (e.d.get("nfields"), e.d.get("nargs")), "shown": repr(e.d["template"])}
    if e.kind == "call" and is_write(e) and isinstance(e.d["args"][0], S) and any(x[0] == "join" for x in e.d["args"][0].p):
        parts = list(e.d["args"][0].p)
        joins = [x for x in parts if x[0] == "join"]
        if len(joins) != 1 or joins[0][1] != "":
            return {"unknown": repr(e.d["args"][0])}
        comp = joins[0][2]
        it, tgt, elt = comp[2], comp[3], comp[1]
        if it == seq:
            a, b = Lin(), N
        elif isinstance(it, tuple) and it[:1] == ("slice",) and M.origin(it[1]) == seq and it[4] == Lin(c=1):
            a = lin(it[2])
            b = N if it[3] == ("k", None) else M.mk_min([lin(it[3]), N], e.facts)
        else:
            return {"unknown": show(it)}
        layout = True
        if not (isinstance(elt, S) and len(elt.p) == 1 and elt.p[0][0] == "fv" and elt.p[0][2] == tgt):
            layout = None
        else:
            sp = M.parse_spec(elt.p[0][1] or "")
            if sp is None or sp.width is None:
                layout = None
            elif sp.width != 8 or sp.type not in ("d", ""):
                layout = False
        i = parts.index(joins[0])
        before, after = S(parts[:i]), S(parts[i + 1:])
        head = False
        if before.p:
            w = E.width(before)
            blank = all((x[0] == "lit" and not x[1].strip(" ")) or (x[0] == "fv" and isinstance(x[2], S) and not x[2].p) for x in before.p)
            head = True
            if w is None or not blank:
                layout = None if layout is not False else False
            elif w != Lin(c=8):
                layout = False
        if after.text() != "\n":
            layout = False if after.text() is not None else None
        return {"nints": b - a, "a": a, "b": b, "head": head, "layout": layout, "count": None, "shown": repr(e.d["args"][0])}
    return None


def _nasints(ctx):
    q = "wtnasints"
    fn = ctx.src.func(BULK, q)
    E = engine(ctx, BULK, q)
    ints = ("sym", "ints")
    N = lin(("len", ints))
    recs = {}
    for e in E.events(("format", "call")):
        r = _int_records(E, e, ints, N)
        if r is not None:
            recs.setdefault(id(e.node), []).append((e, r))
    if not recs:
        raise AnchorError("wtnasints: writes of the integers")
    labels = {}
    for evs in recs.values():
        e, r = evs[0]
        if "unknown" in r:
            label = "integer"
        elif r["a"] == Lin() and not e.loops and r["b"] != N:
            label = "first-line"
        elif e.loops:
            label = "full continuation line"
        elif r["a"] != Lin():
            label = "last-line"
        else:
            label = "single-line"
        k = 2
        base = label
        while label in labels.values():
            label = f"{base} #{k}"
            k += 1
        labels[id(e.node)] = label
    # every template has as many fields as it is given values
    for nid, evs in recs.items():
        inst = f"{q}: the {labels[nid]} template has as many fields as it is given values"
        v = V().at(evs[0][0].node)
        for e, r in evs:
            if "unknown" in r:
                v.unknown({"values written": r["unknown"]})
            elif r["count"] is None:
                continue                    # one field per element by construction (a comprehension over the slice)
            elif r["count"][0] is None or r["count"][1] is None:
                v.unknown("field / value count not derived")
            else:
                rr, w = _differs(r["count"][0] - r["count"][1], e.facts, limit=36)
                if rr is True:
                    v.bad({"fields": show(r["count"][0]), "values": show(r["count"][1]), "differ for": w,
                           "consequence": "str.format silently drops surplus values (or raises IndexError when there are too few)"})
                elif rr is None:
                    v.unknown({"fields": show(r["count"][0]), "values": show(r["count"][1])})
        v.report(ctx, inst, fn)
    # line capacity: a continuation line holds the blank head + at most 8 integers, the first line at most 10 - start
    start = lin(("sym", "start"))
    v = V()
    for evs in recs.values():
        for e, r in evs:
            if "unknown" in r:
                v.unknown({"values written": r["unknown"]}, e.node)
                continue
            if r["layout"] is None:
                v.unknown({"line": r["shown"]}, e.node)
                continue
            if r["layout"] is False:
                v.bad({"line": r["shown"]}, e.node)
                continue
            cap = Lin(c=8) if r["head"] else (Lin(c=10) - start)
            d_ = cap - r["nints"]
            if not M.proves_ge0(d_, e.facts):
                syms = M.free_symbols(d_)
                w = _witness(syms, e.facts, lambda a_, d_=d_: (M.lin_eval(d_, a_) is not None and M.lin_eval(d_, a_) < 0), limit=30) if len(syms) <= 3 else None
                if w is not None:
                    v.bad({"integers on the line": show(r["nints"]), "capacity": show(cap), "exceeded for": {show(k_): x for k_, x in w.items()}}, e.node)
                else:
                    v.unknown({"integers on the line": show(r["nints"]), "capacity": show(cap)}, e.node)
    v.report(ctx, "wtnasints: every line is made of 8-column fields, the first holds at most 10 - start integers, a continuation line a blank head + at most 8", fn)
    # tiling: the slices written follow each other and start at 0
    _tiling(ctx, E, q, ints, fn)


def _nasints_callers(ctx):
    """writers that put the head of a card on the line and hand the integers to wtnasints(f, start, ints): `start` must be the field that follows
    what they wrote, i.e. the text already on the line is 8 * (start - 1) columns wide"""
    m = ctx.src.mod(BULK)
    named = ("wtcsuper", "wtextrn")                 # the callers the property names; others are checked when they can be evaluated
    for q, fn in publics(m, "wt").items():
        if q == "wtnasints" or not any(isinstance(n, ast.Name) and n.id == "wtnasints" for g in [fn] + reach(m, fn) for n in ast.walk(g)):
            continue
        inst = f"{q}: the text written before wtnasints(f, start, ...) fills the fields 1 .. start-1 of the line"
        try:
            E = M.Engine(m, fn, follow=helpers_of(m), max_states=96)
            E.run()
        except Unsupported as ex:
            if q in named:
                ctx.error(inst, fn, str(ex))
            continue
        ctx.src.funcs_consulted.add(f"{BULK}:{q}")
        v = V()
        ncalls = 0
        for s in E.finals:
            if s.status not in ("run", "return"):
                continue
            col, known = Lin(), True
            for e in s.events:
                if e.kind != "call":
                    continue
                if is_write(e):
                    text = e.d["args"][0]
                    if not isinstance(text, S):
                        known = False
                        continue
                    lines, term = M.split_lines(text.p)
                    if term:
                        col, known = Lin(), True
                        continue
                    w = E.width(S(lines[-1])) if lines else Lin()
                    if w is None:
                        known = False
                    elif len(lines) > 1:
                        col, known = w, True
                    elif known:
                        col = col + w
                elif (e.d["name"] or "").split(".")[-1] == "wtnasints" and len(e.d["args"]) >= 2:
                    ncalls += 1
                    v.at(e.node)
                    start = e.d["args"][1]
                    if not known or not M.is_int_const(lin(start)) or not isinstance(col, Lin):
                        v.unknown({"start": show(start), "columns written before": show(col) if known else "not known"}, e.node)
                    else:
                        r_, w_ = _differs(col - (lin(start) - 1).scale(8), e.facts, limit=12)
                        if r_ is True:
                            v.bad({"start": show(start), "columns already on the line": show(col), "expected": 8 * (M.ival(lin(start)) - 1)}, e.node)
                        elif r_ is None:
                            v.unknown({"start": show(start), "columns already on the line": show(col)}, e.node)
                    col, known = Lin(), True          # wtnasints ends the line
                elif _uses_file(e):
                    known = False
        if ncalls == 0:
            if q in named:
                ctx.error(inst, fn, "no call of wtnasints is reached")
            continue
        v.report(ctx, inst, fn)


def _all_fields(items):
    for it in items:
        if it[0] == "field":
            yield it
        elif it[0] == "rep":
            yield from _all_fields(it[1])


def _differs(d, facts, limit=24):
    """is the linear form d non-zero for some values the facts allow?  True (with witness) / False (proved zero) / None"""
    if M.proves_zero(d, facts):
        return False, None
    if lin(d).is_const():
        return True, {"always": f"the two differ by {lin(d).c}"}
    syms = M.free_symbols(d)
    if _related(syms, facts):
        # the length / value of something computed from another of the quantities by a call this engine does not know: it may well be tied to it, so
        # values chosen independently are not a counter-example
        return None, None
    w = _witness(syms, facts, lambda a_: M.lin_eval(d, a_) not in (None, 0), limit=limit) if len(syms) <= 3 else None
    if w is not None:
        return True, {show(k): x for k, x in w.items()}
    return None, None


def _witness(symbols, facts, bad, **kw):
    """M.find_witness over independent quantities only: the length of something an unknown call returned is not free to choose"""
    symbols = list(symbols)
    if _related(symbols, facts):
        return None
    return M.find_witness(symbols, facts, bad, reject=_computed, **kw)


def _related(syms, facts=()):
    """two of the quantities are tied in a way the engine does not know: one is a property of the result of an opaque call on the other"""
    syms = list(syms)
    # the value a variable has after a loop is a fresh symbol; when no test the code makes (loop condition, counter direction) says anything
    # about it, what the loop can leave there is simply not modelled, and it is not free to choose
    for a in syms:
        if isinstance(a, tuple) and a[:1] == ("sym",) and "@L" in a[1] and a[1].endswith("'") and not any(M.mentions(t, a) for t, _ in facts):
            return True

    def root(v):
        while isinstance(v, tuple) and v[:1] in (("elem",), ("slice",), ("attr",)):
            v = v[1]
        return v
    for a in syms:
        if not _derived(a):
            continue
        op = root(a[1])                     # the opaque call whose result a is a property of
        for b in syms:
            if b is a:
                continue
            base = b[1] if isinstance(b, tuple) and b[:1] in (("len",), ("dim",)) else b
            if root(base) == op:
                continue                    # two properties of the same object (its length and its width) are independent
            if any(M.mentions(x, base) for x in op[1:] if isinstance(x, (tuple, Lin, S))):
                return True
    return False


_READERS = {"rdcards", "rdcord2cards", "rdgrids", "rdtabled1", "rdspoints", "rdcsupers", "rdextrn", "rdsets", "rddmig"}


def _computed(at):
    """an atom that is not free to choose: it is (or is taken from) the result of something this engine does not evaluate - a call it does not
    know, an element of a range or of a generated sequence, a conditional value.  Lengths / dimensions are judged by `_derived` / `_related`."""
    if isinstance(at, tuple) and at[:1] in (("len",), ("dim",), ("flen",)):
        # the length of what a call this engine does not know returned (`template.rstrip("\n")`, `list(islice(...))`) is a function of the call's
        # arguments: not free either.  Lengths of variables, of their elements / slices / attributes, and of strings are.
        v = at[1]
        while isinstance(v, tuple) and v[:1] in (("elem",), ("slice",), ("attr",)):
            v = v[1]
        if isinstance(v, tuple) and v[:1] == ("op",) and str(v[1]).split(".")[-1].startswith("rd") and str(v[1]).split(".")[-1] in _READERS:
            return False            # what a reader of the module returns is input data: cards of any length
        return isinstance(v, tuple) and v[:1] in (("op",), ("comp",), ("built",), ("ite",), ("obj",))

    def bad(v, top=True):
        if isinstance(v, Lin):
            return any(bad(a, False) for a in v.t)
        if isinstance(v, S):
            return False
        if not isinstance(v, tuple) or not v:
            return False
        h = v[0]
        if h in ("op", "range", "comp", "built", "ite", "dictcomp", "func", "lambda", "partial", "closure", "obj", "class", "star"):
            return True
        if h in ("len", "dim", "flen", "sym", "k", "fd", "min", "max", "mul"):
            return any(bad(x, False) for x in v[1:] if isinstance(x, (tuple, Lin))) if h in ("fd", "min", "max", "mul") else False
        return any(bad(x, False) for x in v[1:] if isinstance(x, (tuple, Lin)))
    return bad(at)


def _derived(at):
    """an atom that stands for a property (length, dimension) of something computed: the result of a call, a range, a comprehension, ... -
    anything but a plain variable"""
    if not (isinstance(at, tuple) and at[:1] in (("len",), ("dim",))):
        return False
    v = at[1]
    while isinstance(v, tuple) and v[:1] in (("elem",), ("slice",), ("attr",)):
        v = v[1]
    return not (isinstance(v, tuple) and v[:1] == ("sym",))


def _tiling(ctx, E, q, seq, fn):
    """each path writes consecutive slices seq[a:b] whose bounds chain: first a = 0, next a = previous b.  Loops are handled by induction over
    their passes, one arm of the loop body at a time: the position a pass starts at is a function pos(c) of one loop variable (the position itself,
    `n - left`, a line number times the line length, ...); pos(c before the loop) must be what has been written so far; every arm that goes on
    to a next pass must stop where pos(c after the pass) says that pass starts; after the loop the position is where the last pass stopped (the
    arm that left by `break`, pos(c at the exit) of a `while`, the pass of the last value of a range)."""
    N = lin(("len", seq))
    v = V()
    npaths = 0

    def rec_of(e):
        return _int_records(E, e, seq, N) if e.kind in ("format", "call") else None

    def walk(evs, cur, wp, s):
        """the position after the events `evs` (all inside the loops `cur`), starting from wp; None when something was not understood (reported)"""
        i = 0
        pending = {}
        while i < len(evs):
            e = evs[i]
            if e.loops[:len(cur)] != cur:
                i += 1
                continue
            if e.loops == cur:
                if e.kind == "loopexit" and e.d["loop"] in pending:
                    wp = pending.pop(e.d["loop"])(e)
                    if wp is None:
                        return None
                else:
                    rec = rec_of(e)
                    if rec is not None:
                        if "unknown" in rec:
                            v.unknown({"values written": rec["unknown"]}, e.node)
                            return None
                        r, w = _differs(rec["a"] - wp, e.facts)
                        if r is True:
                            v.bad({"slice starts at": show(rec["a"]), "written up to": show(wp), "differ for": w}, e.node)
                        elif r is None:
                            v.unknown({"slice starts at": show(rec["a"]), "written up to": show(wp)}, e.node)
                        wp = rec["b"]
                i += 1
                continue
            L = e.loops[len(cur)]
            grp = [x for x in evs[i:] if len(x.loops) > len(cur) and x.loops[:len(cur)] == cur and x.loops[len(cur)] == L]
            head = next((x for x in grp if x.kind in ("for", "while") and x.d["loop"] == L), None)
            res = loop(head, grp, cur + (L,), wp, s) if head is not None else None
            if res is None:
                if head is None and not any(rec_of(x) is not None for x in grp):
                    res = (wp, None)              # a loop (a comprehension ...) that writes nothing of the sequence
                else:
                    if head is None:
                        v.unknown({"writes of the sequence in a loop whose head is not on this path": L}, grp[0].node)
                    return None
            wp, after = res
            if after is not None:
                pending[L] = after
            seen = {id(x) for x in grp}
            i += 1
            while i < len(evs) and id(evs[i]) in seen:
                i += 1
        return wp

    def arms_of(grp, L, s):
        """the arms of the loop body: (how the arm ends: its `loopend` event, or the `loopexit` by break of this path, events of the arm)"""
        out = []
        for end in [x for x in grp if x.kind == "loopend" and x.d["loop"] == L]:
            fs = set(end.facts)
            out.append((end, [x for x in grp if x.seq < end.seq and set(x.facts) <= fs and x.kind not in ("for", "while") or (x.kind in ("for", "while") and x.d["loop"] != L
                                                                                                                       and x.seq < end.seq and set(x.facts) <= fs)]))
        return out

    def loop(head, grp, inner, wp, s):
        """(position after the loop when nothing more is known, function of the loop's exit event giving the position) or None (reported)"""
        L = head.d["loop"]
        writes = [x for x in grp if rec_of(x) is not None]
        if not writes:
            return wp, None
        recs = [rec_of(x) for x in writes]
        if any("unknown" in r_ for r_ in recs):
            v.unknown({"values written": next(r_["unknown"] for r_ in recs if "unknown" in r_)}, head.node)
            return None
        first = [r_ for x, r_ in zip(writes, recs)]
        # ---- the position function
        if head.kind == "while":
            a0 = recs[0]["a"]
            cand = None
            for nm, x in sorted(head.d["env"].items()):
                symc = x if isinstance(x, tuple) and x[:1] == ("sym",) else None
                pre_ = head.d["pre"].get(nm)
                if symc is None or not (isinstance(pre_, Lin) or (isinstance(pre_, tuple) and pre_[:1] == ("sym",))) or not M.mentions(a0, symc):
                    continue
                if any(M.mentions(a0, y) for nm2, y in head.d["env"].items() if nm2 != nm and isinstance(y, tuple) and y[:1] == ("sym",)):
                    continue
                if _differs(lin(M.subst(a0, symc, lin(pre_))) - wp, head.facts)[0] is False:
                    cand = (nm, symc, a0)
                    break
            if cand is None:
                loop_syms = [y for y in head.d["env"].values() if isinstance(y, tuple) and y[:1] == ("sym",)]
                continuing = [x for x in grp if x.kind == "loopend" and x.d["loop"] == L]
                if continuing and not any(M.mentions(a0, y) for y in loop_syms):
                    # the position a pass starts at does not change from pass to pass, yet a pass can be followed by another one
                    v.bad({"every pass writes from": show(a0), "loop": show(head.d["test"])[:120],
                           "consequence": "the same elements are written again in the next pass (nothing advances the position)"}, head.node)
                    return None
                # the one variable the position depends on, when the first pass provably does not start where the writes before the loop stopped
                for nm, x in sorted(head.d["env"].items()):
                    symc = x if isinstance(x, tuple) and x[:1] == ("sym",) else None
                    pre_ = head.d["pre"].get(nm)
                    if symc is not None and (isinstance(pre_, Lin) or (isinstance(pre_, tuple) and pre_[:1] == ("sym",))) and M.mentions(a0, symc) \
                            and not any(M.mentions(a0, y) for y in loop_syms if y != symc):
                        r, w = _differs(lin(M.subst(a0, symc, lin(pre_))) - wp, head.facts)
                        if r is True:
                            v.bad({"the first pass starts at": show(lin(M.subst(a0, symc, lin(pre_)))), "written up to": show(wp), "differ for": w}, head.node)
                            return None
                v.unknown({"loop": show(head.d["test"])[:120], "position written first in a pass": show(a0), "written before the loop up to": show(wp)}, head.node)
                return None
            nm, symc, a0 = cand
            pos_head = a0
            nxt_of = lambda end: lin(M.subst(a0, symc, lin(end.d["env"][nm])))
            extra = lambda end: end.facts
        else:
            it = head.d["iter"]
            if not (isinstance(it, tuple) and it[:1] == ("range",) and isinstance(head.d["target"], Lin)):
                v.unknown({"loop": show(it)[:160]}, head.node)
                return None
            tsym = M.lin(head.d["target"]).atoms()
            tat = tsym[0] if len(tsym) == 1 and head.d["target"] == lin(tsym[0]) else None
            starts = {r_["a"] for r_ in recs if any(M.mentions(r_["a"], t_) for t_ in tsym)} or {recs[0]["a"]}
            a0 = recs[0]["a"]
            stride = a0.t.get(tat, 0) if tat is not None else None
            if stride is None or stride.denominator != 1 or stride < 1:
                # the position is not a multiple of the loop variable plus an offset (it is clamped, ...): the passes of the loop are run for small
                # lengths - a pass that does not start where the one before it stopped, or a last pass that stops short of the end when nothing is
                # written after the loop, is a counter-example
                w = _passes_by_hand(head, grp, recs, writes, wp, tat) if tat is not None else None
                if w is not None:
                    v.bad(w, head.node)
                else:
                    v.unknown({"loop": show(it), "position written first in a pass": show(a0)}, head.node)
                return None
            off = a0 - head.d["target"].scale(stride)
            if any(M.mentions(at, t_) for at in off.t for t_ in tsym):
                v.unknown({"loop": show(it), "position written first in a pass": show(a0)}, head.node)
                return None
            pit = (it[0], lin(it[1]).scale(stride) + off, lin(it[2]).scale(stride) + off, lin(it[3]).scale(stride))
            r, w = _differs(lin(pit[1]) - wp, head.facts)
            if r is True:
                v.bad({"the loop starts at": show(pit[1]), "written up to": show(wp), "differ for": w}, head.node)
            elif r is None:
                v.unknown({"the loop starts at": show(pit[1]), "written up to": show(wp)}, head.node)
            pos_head = a0
            nxt_of = lambda end: a0 + pit[3]

            def extra(end):
                if M.is_int_const(lin(pit[3])) and M.ival(lin(pit[3])) > 1 and M._divisible(lin(pit[2]) - (a0 + pit[3]), M.ival(lin(pit[3]))):
                    return end.facts + ((("cmp", "GtE", lin(pit[2]) - (a0 + pit[3]), lin(pit[3])), True),)
                return end.facts + ((("not", ("cmp", "GtE", a0 + pit[3], lin(pit[2]))), True),)
        # ---- every arm that goes on to a next pass
        pass_wp = []
        for end, arm in arms_of(grp, L, s):
            wpa = walk(sorted(arm, key=lambda x: x.seq), inner, pos_head, s)
            if wpa is None:
                return None
            wpa = M.mk_min([wpa, N], end.facts) if isinstance(wpa, Lin) else wpa
            want = nxt_of(end)
            r, w = _differs(wpa - want, extra(end))
            if r is True:
                v.bad({"one pass writes up to": show(wpa), "the next pass starts at": show(want), "differ for": w}, end.node)
            elif r is None:
                v.unknown({"one pass writes up to": show(wpa), "the next pass starts at": show(want)}, end.node)
            pass_wp.append(wpa)

        # ---- after the loop
        def after(x):
            if x.d.get("by") == "break":
                fs = set(x.facts)
                arm = [y for y in grp if set(y.facts) <= fs and y.kind not in ("loopend",) and not (y.kind in ("for", "while") and y.d["loop"] == L)]
                return walk(sorted(arm, key=lambda y: y.seq), inner, pos_head, s)
            if head.kind == "while":
                return lin(M.subst(a0, symc, lin(x.d["env"][nm])))
            if x.d.get("ran") is False:
                return wp
            if len(pass_wp) == 1 and isinstance(pass_wp[0], Lin):
                oit = head.d["iter"]
                lo_t, hi_t, k_t = lin(oit[1]), lin(oit[2]), M.ival(oit[3])
                last_t = lo_t + M.floordiv(hi_t - 1 - lo_t, k_t).scale(k_t)
                aft = M.subst(pass_wp[0], tat, last_t)
                return M.mk_min([aft, N], x.facts) if isinstance(aft, Lin) else None
            return None
        default = wp
        if head.kind == "for" and len(pass_wp) == 1 and isinstance(pass_wp[0], Lin):
            # without an exit event: the passes cover [lo, min(hi, length)) when the last one is clamped there; else where the pass of the last value stops
            oit = head.d["iter"]
            lo_t, hi_t, k_t = lin(oit[1]), lin(oit[2]), M.ival(oit[3])
            last_t = lo_t + M.floordiv(hi_t - 1 - lo_t, k_t).scale(k_t)
            aft = M.subst(pass_wp[0], tat, last_t)
            aft = M.mk_min([aft, N], head.facts) if isinstance(aft, Lin) else aft
            whole = M.mk_min([lin(pit[2]), N], head.facts)
            default = whole if isinstance(aft, Lin) and _differs(aft - whole, head.facts)[0] is False else aft
        return default, after

    def _passes_by_hand(head, grp, recs, writes, wp, tat):
        """run the passes of `for t in range(lo, hi, step)` - one arm, one write of seq[a(t):b(t)] per pass, nothing written after the loop on any
        path - for small values of the quantities involved, under the tests passed before the loop.  Returns the description of a counter-example
        (a pass that starts somewhere else than where the writing stopped; elements left at the end) or None."""
        L = head.d["loop"]
        if any(x.kind == "loopexit" and x.d.get("by") == "break" and x.d["loop"] == L for x in E.events("loopexit")):
            return None
        # the arms of the body: the tests each one passes and the one slice it writes (or none)
        arms = []
        for end, arm in arms_of(grp, L, None):
            wr = [(x, rec_of(x)) for x in arm if rec_of(x) is not None]
            if len(wr) > 1 or any(len(x.loops) > len(end.loops) for x, _ in wr) or any("unknown" in r_ for _, r_ in wr):
                return None
            arms.append(([f_ for f_ in end.facts if f_ not in head.facts], wr[0][1] if wr else None))
        if not arms:
            return None
        last_seq = max(x.seq for x in grp)
        if any(rec_of(x) is not None and x.seq > last_seq for s_ in E.finals for x in s_.events if any(y is head for y in s_.events)):
            return None
        it = head.d["iter"]
        exprs = [lin(it[1]), lin(it[2]), lin(it[3]), lin(wp), N] + [r_[k_] for _, r_ in arms if r_ is not None for k_ in ("a", "b")]
        syms = [x for x in M.free_symbols(*exprs) if x != tat]
        facts = [(t, pol) for t, pol in head.facts if not M.mentions(t, tat)]
        for t, _ in facts + [f_ for fs_, _ in arms for f_ in fs_]:
            for x in M.free_symbols(t):
                if x not in syms and x != tat:
                    syms.append(x)
        if not syms or len(syms) > 3 or any(_computed(x) for x in syms) or _related(syms, facts):
            return None
        import itertools
        nat = ("len", seq)
        # lengths from 1 up; `start` of wtnasints is a field number of the first line: 2 .. 9 (field 1 holds the card name, field 10 the continuation)
        rngs = [range(1, 27) if x == nat else range(2, 10) if x == ("sym", "start") and q == "wtnasints" else range(0, 13) for x in syms]
        for combo in itertools.product(*rngs):
            asg = dict(zip(syms, combo))
            if any(M.truth(t, asg) is not pol for t, pol in facts if any(M.mentions(t, x) for x in syms)):
                continue
            vals = [M.lin_eval(x, asg) for x in (lin(it[1]), lin(it[2]), lin(it[3]), lin(wp), N)]
            if any(x is None or x.denominator != 1 for x in vals) or vals[2] <= 0:
                continue
            lo_, hi_, st_, pos, n_ = (int(x) for x in vals)
            passes = list(range(lo_, hi_, st_))[:64]
            bad = None
            for k in passes:
                ak = dict(asg)
                ak[tat] = k
                took = [r_ for fs_, r_ in arms if all(M.truth(t, ak) is pol for t, pol in fs_)]
                undecided = any(any(M.truth(t, ak) is None for t, _ in fs_) for fs_, _ in arms)
                if undecided or len({id(r_) for r_ in took}) != 1 and len({(show(r_["a"]), show(r_["b"])) if r_ else None for r_ in took}) != 1:
                    bad = "?"
                    break
                if took[0] is None:
                    continue
                a_, b_ = took[0]["a"], took[0]["b"]
                a1, b1 = M.lin_eval(a_, ak), M.lin_eval(b_, ak)
                if a1 is None or b1 is None:
                    bad = "?"
                    break
                if int(a1) != pos and int(b1) > int(a1):
                    bad = {"pass": f"{show(lin(tat))} = {k}", "writes from": int(a1), "written up to": pos}
                    break
                pos = max(pos, int(b1))
            if bad == "?":
                continue
            if bad is None and pos < n_:
                bad = {"after the last pass the elements up to": pos, "are written of": n_}
            if bad is not None:
                return dict(bad, **{"for": {show(k_): x for k_, x in asg.items()}, "loop": show(it)[:120]})
        return None

    for s in E.finals:
        if s.status not in ("run", "return"):
            continue
        npaths += 1
        # every write that touches the sequence must be understood, otherwise nothing is concluded for this path
        rendered = [e.d["value"] for e in s.events if e.kind == "format" and _int_records(E, e, seq, N) is not None]
        strange = [e for e in s.events if e.kind == "call" and e.d["attr"] in ("write", "writelines") and e.d["args"]
                   and M.mentions(e.d["args"][0], seq) and _int_records(E, e, seq, N) is None
                   and not any(e.d["args"][0] == r_ or (isinstance(e.d["args"][0], S) and isinstance(r_, S) and set(r_.p) <= set(e.d["args"][0].p)) for r_ in rendered)]
        if strange:
            v.unknown({"a write of the sequence this rule does not understand": show(strange[0].d["args"][0])[:200]}, strange[0].node)
            continue
        wp = walk(list(s.events), (), Lin(), s)
        # a path that stops early must have nothing left:  facts imply wp >= N
        if wp is not None and isinstance(wp, Lin) and wp != N:
            lo, hi = M.bounds(wp - N, s.facts)
            if not (lo is not None and lo >= 0):
                syms = M.free_symbols(wp - N)
                w = _witness(syms, s.facts, lambda a_: (M.lin_eval(wp - N, a_) is not None and M.lin_eval(wp - N, a_) < 0), limit=30) if len(syms) <= 3 else None
                # loop symbols over-approximate what the loop can produce: only report when none is involved
                if w is not None and not any("@" in show(k) for k in w):
                    v.bad({"written up to": show(wp), "length": show(N), "elements left for": {show(k): x for k, x in w.items()}})
                elif w is not None:
                    # ... or when the path is real with every loop in its first pass - or left before its first pass - (each loop variable at the value
                    # it has on entry; the facts of the path, the loop test among them, are evaluated there): a pass that stops the writing early
                    # does so already there
                    first = {}
                    for h in E.events(("for", "while")):
                        for nm, pre_ in h.d["pre"].items():
                            if isinstance(pre_, Lin) or (isinstance(pre_, tuple) and pre_[:1] == ("sym",)):
                                first[("sym", f"{nm}@L{h.d['loop']}")] = lin(pre_)
                                first[("sym", f"{nm}@L{h.d['loop']}'")] = lin(pre_)         # after a loop that made no pass at all
                        if h.kind == "for" and isinstance(h.d["iter"], tuple) and h.d["iter"][:1] == ("range",) and the_atom(h.d["target"]) is not None:
                            first[the_atom(h.d["target"])] = lin(h.d["iter"][1])
                    wp1, facts1 = wp, list(s.facts)
                    for _ in range(3):                  # the entry value of one loop variable may be that of an enclosing loop's
                        for at, rep in first.items():
                            wp1 = M.subst(wp1, at, rep)
                            facts1 = [(M.subst(t, at, rep), pol) for t, pol in facts1]
                    d1 = lin(wp1) - N
                    syms1 = M.free_symbols(d1)
                    if not any("@" in show(k) for k in syms1) and not any("@L" in show(t) for t, _ in facts1 if any(M.mentions(t, k) for k in syms1)):
                        w1 = _witness(syms1, tuple(facts1), lambda a_, d1=d1: (M.lin_eval(d1, a_) is not None and M.lin_eval(d1, a_) < 0), limit=30) if 0 < len(syms1) <= 3 else None
                        if w1 is not None:
                            v.bad({"written up to": show(wp1), "length": show(N), "with every loop in its first pass; elements left for": {show(k): x for k, x in w1.items()}})
    if npaths == 0:
        v.unknown("no path reaches the end")
    v.report(ctx, f"{q}: the slices written follow each other without gap or overlap, starting at element 0", fn)


def _thru(ctx, q, required=True):
    """THRU compression loop: each pass emits the run [start, end] (or the single element start) and advances `start` past what it emitted.
    The sequence is whichever parameter of the public writer the emitted elements are taken from."""
    fn = ctx.src.func(BULK, q)
    E = engine(ctx, BULK, q)
    whiles = [e for e in E.events("while")]
    params = [a.arg for a in fn.args.posonlyargs + fn.args.args + fn.args.kwonlyargs]
    cands = []
    for p_ in params:
        sq = ("sym", p_)
        hit = False
        for e in E.events("call"):
            if e.loops and e.d["attr"] in ("append", "extend", "write") and any(_has_thru(a) and _seq_elems(a, sq) for a in e.d["args"]):
                hit = True
                break
        if hit:
            cands.append(p_)
    # ... or a `for` over the positions of the sequence (passes that fall inside a run already written write nothing)
    fors = [e for e in E.events("for") if len(e.loops) == 1 and any(
        x.kind == "call" and e.d["loop"] in x.loops and x.d["attr"] in ("append", "extend", "write") and any(_has_thru(a) for a in x.d["args"]) for x in E.events("call"))]
    if not (whiles or fors) or len(cands) != 1:
        if required:
            raise AnchorError(f"{q}: loop that writes the items (single ids and `first THRU last` runs) of one of its arguments")
        return
    seqname = cands[0]
    seq = ("sym", seqname)
    v = V().at((whiles or fors)[0].node)
    runs = singles = 0
    cursors = {}
    for h in fors:
        r_, s_ = _thru_for(E, h, seq, seqname, v)
        runs, singles = runs + r_, singles + s_
    for s_end in E.events("loopend"):
        lid = s_end.d["loop"]
        w = [e for e in whiles if e.d["loop"] == lid]
        if not w or len(s_end.loops) != 1:
            continue
        w = w[0]
        body = [e for e in E.events() if lid in e.loops and e.seq < s_end.seq and set(e.facts) <= set(s_end.facts)]
        emitted = []
        for e in body:
            vals = []
            if e.kind == "call" and e.d["attr"] in ("append", "extend", "write"):
                for a in e.d["args"]:
                    vals.extend(_seq_elems(a, seq))
            if vals:
                emitted.append((e, vals))
        if not emitted:
            continue
        idxs = [i for _, vs in emitted for i in vs]
        first, last = idxs[0], idxs[-1]
        thru = any(_has_thru(a) for e, _ in emitted for a in e.d["args"])
        # the cursor: the loop variable from which the first index written in a pass is computed (the index itself, or the index minus a
        # constant: the last index written, a count, ...); position = variable + offset
        cursor = [(nm, first - lin(x)) for nm, x in sorted(w.d["env"].items()) if isinstance(x, (Lin, tuple)) and not isinstance(x, S) and (first - lin(x)).is_const()]
        if not cursor:
            v.unknown({"first element written": show(first)}, emitted[0][0].node)
            continue
        nm, off = sorted(cursor, key=lambda c_: (c_[1] != Lin(), c_[0]))[0]
        new = lin(s_end.d["env"][nm]) + off
        pre = w.d["pre"].get(nm)
        pre = pre + off if isinstance(pre, Lin) else pre
        if isinstance(pre, Lin) and pre != Lin():
            (v.bad if pre.is_const() else v.unknown)({"the cursor starts at": show(pre), "expected": "0 (the first element)"}, w.node)
        elif not isinstance(pre, Lin):
            v.unknown({"the cursor starts at": show(pre)}, w.node)
        cursors[lid] = (nm, off)
        if thru:
            runs += 1
        else:
            singles += 1
        if not thru and len(idxs) > 1:
            v.unknown({"elements written in one pass": [show(i) for i in idxs]}, emitted[0][0].node)
            continue
        want = (last if thru else first) + 1
        r, wit = _differs(new - want, s_end.facts, limit=12)
        if r is True:
            v.bad({"written": f"{seqname}[{show(first)}]" + (f" THRU {seqname}[{show(last)}]" if thru else ""), "cursor advanced to": show(new), "should be": show(want),
                   "differ for": wit, "consequence": "the elements in between are never written (or written twice)"}, emitted[-1][0].node)
        elif r is None:
            v.unknown({"cursor advanced to": show(new), "should be": show(want)}, s_end.node)
    # the loop goes on until the cursor is past the last element of the sequence the writer was given (not of a part of it)
    N = lin(("len", seq))
    for x in E.events("loopexit"):
        if x.d["loop"] in cursors and x.d.get("by") != "break" and not x.loops:
            nm, off = cursors[x.d["loop"]]
            pos = x.d["env"].get(nm)
            if not (isinstance(pos, Lin) or (isinstance(pos, tuple) and pos[:1] == ("sym",))):
                v.unknown({"the cursor after the loop": show(pos)}, x.node)
                continue
            pos = lin(pos) + off
            lo, _ = M.bounds(pos - N, x.facts)
            if lo is not None and lo >= 0:
                continue
            syms = M.free_symbols(pos - N)
            wit = _witness(syms, x.facts, lambda a_, d_=pos - N: (M.lin_eval(d_, a_) is not None and M.lin_eval(d_, a_) < 0), limit=12) if len(syms) <= 3 else None
            if wit is not None:
                v.bad({"the loop ends with the cursor at": show(pos), "elements of " + seqname: show(N), "elements never written for": {show(k): x_ for k, x_ in wit.items()}}, x.node)
            else:
                v.unknown({"the loop ends with the cursor at": show(pos), "elements of " + seqname: show(N)}, x.node)
    if v.v is True and not (runs >= 1 and singles >= 1):
        v.unknown({"passes with THRU": runs, "passes with a single element": singles})
    v.report(ctx, f"{q}: each pass writes {seqname}[start] (or {seqname}[start] THRU {seqname}[end]) and moves the cursor just past what it wrote, "
                  "so no element is skipped or repeated", fn)


def _thru_for(E, h, seq, seqname, v):
    """THRU compression written as `for i in range(len(seq))`: a pass either writes seq[i] (alone or as the first element of a run) or - when i
    lies inside a run already written - nothing.  The passes that write nothing are those with i < X for a carried quantity X (`end + 1`, the
    position after the last run); the next element written is therefore max(i, X), and the usual cursor conditions are stated for that position:
    it starts at 0, a writing pass writes from it and leaves max(i + 1, X') just past what it wrote, and the range ends at the length of the
    sequence.  Returns (passes with THRU, passes with a single element)."""
    lid = h.d["loop"]
    it, tgt = h.d["iter"], h.d["target"]
    N = lin(("len", seq))
    if not (isinstance(it, tuple) and it[:1] == ("range",) and it[3] == Lin(c=1) and isinstance(tgt, Lin) and the_atom(tgt) is not None):
        v.unknown({"loop": show(it)[:160]}, h.node)
        return 0, 0
    if any(x.d["loop"] == lid and x.d.get("by") == "break" for x in E.events("loopexit")):
        v.unknown({"loop": show(it)[:160], "left by": "break"}, h.node)
        return 0, 0
    arms = []
    for s_end in E.events("loopend"):
        if s_end.d["loop"] != lid or len(s_end.loops) != 1:
            continue
        body = [e for e in E.events() if lid in e.loops and e.seq < s_end.seq and set(e.facts) <= set(s_end.facts)]
        emitted = []
        for e in body:
            vals = []
            if e.kind == "call" and e.d["attr"] in ("append", "extend", "write"):
                for a in e.d["args"]:
                    vals.extend(_seq_elems(a, seq))
            if vals:
                emitted.append((e, vals))
        arms.append((s_end, emitted))
    writing = [(a, em) for a, em in arms if em]
    skipping = [a for a, em in arms if not em]
    if not writing:
        return 0, 0
    # the threshold below which a pass writes nothing
    X = None
    if skipping:
        for nm in sorted(h.d["pre"]):
            sym = ("sym", f"{nm}@L{lid}")
            if not (isinstance(h.d["pre"].get(nm), Lin) or (isinstance(h.d["pre"].get(nm), tuple) and h.d["pre"][nm][:1] == ("sym",))):
                continue
            for c in (1, 0):
                cand = lin(sym) + c
                if all(M.proves_ge0(cand - tgt - 1, a.facts) and a.d["env"].get(nm) == sym for a in skipping) \
                        and all(M.proves_ge0(tgt - cand, a.facts) for a, _ in writing):
                    X = (nm, c, cand)
                    break
            if X is not None:
                break
        if X is None:
            v.unknown({"some passes write nothing": "no carried quantity separates them from the passes that write", "loop": show(it)[:120]}, skipping[0].node)
            return 0, 0
    pos0 = lin(it[1]) if X is None else M.mk_min([lin(it[1]), lin(h.d["pre"][X[0]]) + X[1]], h.facts, "max")
    if pos0 != Lin():
        r, wit = _differs(pos0, h.facts, limit=12)
        if r is not False:
            (v.bad if r and lin(pos0).is_const() else v.unknown)({"the first element written is at": show(pos0), "expected": "0 (the first element)"}, h.node)
    runs = singles = 0
    for s_end, emitted in writing:
        idxs = [i for _, vs in emitted for i in vs]
        first, last = idxs[0], idxs[-1]
        thru = any(_has_thru(a) for e, _ in emitted for a in e.d["args"])
        r, wit = _differs(first - tgt, s_end.facts, limit=12)
        if r is not False:
            (v.bad if r else v.unknown)({"pass": show(tgt), "writes from": f"{seqname}[{show(first)}]", "differ for": wit}, emitted[0][0].node)
            continue
        if thru:
            runs += 1
        else:
            singles += 1
        if not thru and len(idxs) > 1:
            v.unknown({"elements written in one pass": [show(i) for i in idxs]}, emitted[0][0].node)
            continue
        nxt = tgt + 1
        if X is not None:
            after = s_end.d["env"].get(X[0])
            if not (isinstance(after, Lin) or (isinstance(after, tuple) and after[:1] == ("sym",))):
                v.unknown({"the position after the run": show(after)}, s_end.node)
                continue
            nxt = M.mk_min([tgt + 1, lin(after) + X[1]], s_end.facts, "max")
        want = (last if thru else first) + 1
        r, wit = _differs(nxt - want, s_end.facts, limit=12)
        if r is True:
            v.bad({"written": f"{seqname}[{show(first)}]" + (f" THRU {seqname}[{show(last)}]" if thru else ""), "the next element written is at": show(nxt),
                   "should be": show(want), "differ for": wit, "consequence": "the elements in between are never written (or written twice)"}, emitted[-1][0].node)
        elif r is None:
            v.unknown({"the next element written is at": show(nxt), "should be": show(want)}, s_end.node)
    # the positions run up to the length of the sequence the writer was given
    lo_, _ = M.bounds(lin(it[2]) - N, h.facts)
    if not (lo_ is not None and lo_ >= 0):
        d_ = lin(it[2]) - N
        syms = M.free_symbols(d_)
        wit = _witness(syms, h.facts, lambda a_, d_=d_: (M.lin_eval(d_, a_) is not None and M.lin_eval(d_, a_) < 0), limit=12) if 0 < len(syms) <= 3 else None
        if wit is None and d_.is_const() and d_.c < 0:
            wit = {"every length": f"the last {-d_.c} position(s) are never visited"}
        if wit is not None:
            v.bad({"the loop ends at position": show(it[2]), "elements of " + seqname: show(N), "elements never written for": {(k if isinstance(k, str) else show(k)): x_ for k, x_ in wit.items()}}, h.node)
        else:
            v.unknown({"the loop ends at position": show(it[2]), "elements of " + seqname: show(N)}, h.node)
    return runs, singles


def _seq_elems(v, seq):
    """indices of the elements of `seq` a value contains, in order"""
    out = []
    if isinstance(v, S):
        for x in v.p:
            for y in x[1:]:
                if isinstance(y, (tuple, S)):
                    out.extend(_seq_elems(y, seq))
    elif isinstance(v, tuple) and v:
        if v[0] == "elem" and M.origin(v[1]) == seq and not (isinstance(v[2], tuple) and v[2][:1] in (("tuple",), ("sl",))):
            out.append(lin(v[2]))
        else:
            for x in (v[1:] if isinstance(v[0], str) else v):
                if isinstance(x, (tuple, S)):
                    out.extend(_seq_elems(x, seq))
    return out


def _has_thru(v):
    if isinstance(v, S):
        return any((x[0] == "lit" and "THRU" in x[1].upper()) or any(_has_thru(y) for y in x[1:] if isinstance(y, (tuple, S))) for x in v.p)
    if isinstance(v, tuple) and v:
        return any(_has_thru(x) for x in (v[1:] if isinstance(v[0], str) else v) if isinstance(x, (tuple, S)))
    return False


RULES = [
    ("C13-R1", r1_templates, 34),
    ("C13-R2", r2_nonempty_vector, 4),     # + 1: the row count on the finite world of argument lengths (when it can be evaluated)
    ("C13-R3", r3_reader_strides, 14),   # + 1 when the matrix type is set under a test of np.iscomplexobj; incl. the form-9 NCOL agreement (c13_ncol)
    ("C13-R4", r4_sequence_coverage, 9),
]
LEVEL = "other"
EXPLANATION = ("Static: every hard-wired or default floating-point format in the bulk writers is checked to fit its field over all finite doubles "
               "(E5 width bound); wttabled1/wtgrids line templates obey the 8 + n*W card grid (case split on the rendered width of the user format) and "
               "the leftover arithmetic keeps ENDT on the card; vectorised writes that can receive an empty vector are guarded (derived from vecwrite's "
               "own summary); typed readers index the fields the writers fill (TABLED1 pairs, GRID columns and the card order of the vectors wtgrids "
               "passes, the fields of a DMIG column card - one term per continuation line, row grid / dof / real / imaginary part where rddmig takes "
               "them, keys formed like the index they are searched in, and searched in an index built from the collection keys of that kind were put into); the DMIG half-storage test matches the reader's mirror, no non-zero term is "
               "skipped, the matrix type is complex exactly when the data is, and the reader stores entries at (row position, column position); for form 9 the value wtdmig puts into the NCOL header field and the column index rddmig builds from it are evaluated on a finite world of column label sets (every label written is a member of that index, inside the allocated columns); the head a caller of wtnasints writes fills the fields before "
               "`start`; list writers (wtnasints, and the THRU loops reached from wtset, wtspoints, wtxset1) "
               "emit every element exactly once and give every template as many values as it has fields.  All rules are bound to the public entry "
               "points and follow calls (helpers, nested functions, generators, partial / lambda callbacks); they are decided on symbolic values "
               "(string templates, linear integer forms with floor division, path facts) computed by verifier/c13_sem.py, not on source text; what a "
               "rule cannot lower is an analysis error, never a violation.")
MANIFEST = {
    "text": "Partial claim decided statically: (R1) width of every floating-point spec over the whole double range, card-grid arithmetic of wttabled1/wtgrids "
            "templates, leftover-pair range, last-line head, ENDT; (R2) non-empty-vector contract of writer.vecwrite at its call sites, and (when vecwrite buffers its lines) the buffer written only as far as it was filled; (R3) reader strides vs "
            "writer layout (TABLED1, GRID incl. the card order of the vectors, DMIG column cards field by field, keys searched where they were collected), DMIG symmetry test vs reader mirror, entry "
            "orientation, rows written per column, non-zero terms never skipped, type 3/4 iff complex data, D exponent, form-9 NCOL header field vs the columns the expanded reader allocates from it; (R4) wtnasints line wrapping (field "
            "count = value count, capacity, consecutive slices), the head written by its callers (wtcsuper, wtextrn, ...) fills the fields before `start`, and the THRU cursor of wtset / wtspoints / wtxset1 (through whatever helper holds the loop). Known findings (default/hard-wired formats narrower "
            "than the value domain) are listed in known_findings.json. Not decided: run detection of _find_sequence on data, text wrapping of SET lines, "
            "DMIG index ordering on data, precision of values, uset2bulk/bulk2uset coordinate chains.",
    "note": "Trusted: CPython ast; Python format-spec semantics ('E' exponents have at least two digits and three below 1e-99/above 1e+99). Assumed: the "
            "sequences handed to the writers have at least one entry.",
    "technique": "symbolic evaluation of string templates and integer extents with path facts (verifier/c13_sem.py) + format-width abstract interpretation + "
                 "call-site contracts derived from the callee's summary + bounded witness search under the tests the code itself performs",
}
