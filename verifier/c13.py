"""C13 -- bulk-data writers <-> readers (partial claim).

Every rule is decided on *values* computed by the small symbolic interpreter of `c13_sem.py` (string templates, linear integer forms,
path facts), not on the spelling of the source: a format assembled through variables, `+`, `*`, `.format`, f-strings or module constants
is the same template; a guard is recognised by what the tests passed on the way imply at the point of use (early `raise` / `return`,
inverted conditions, `not in`, `elif` chains are all the same guard); locals may be renamed, temporaries introduced or removed, private
helpers of the module extracted or inlined.
"""
from __future__ import annotations

import ast

from .core import AnchorError, Unsupported
from .e1_srcmodel import dotted, walk_no_nested, parent
from . import c13_sem as M
from .c13_sem import Lin, S, lin, show

BULK = "pyyeti/nastran/bulk.py"
WRITER = "pyyeti/writer.py"
YTOOLS = "pyyeti/ytools.py"


# ====================================================================================================================== helpers
def helpers_of(m):
    """private module-level functions: followed (evaluated on the argument values) when a writer calls them"""
    return {q: f for q, f in m.funcs.items() if "." not in q and "#" not in q and q.startswith("_") and not q.startswith("__")}


def engine(ctx, rel, qual, **kw):
    m = ctx.src.mod(rel)
    fn = ctx.src.func(rel, qual)
    E = M.Engine(m, fn, follow=helpers_of(m), **kw)
    E.run()
    return E


def is_write(e):
    return e.kind == "call" and e.d["attr"] == "write" and len(e.d["args"]) == 1


def is_vecwrite(e):
    return e.kind == "call" and (e.d["attr"] == "vecwrite" or (e.d["name"] or "").split(".")[-1] == "vecwrite")


def vecwrite_parts(e):
    """(file, template, data arguments) of a vecwrite call, positional or by keyword"""
    a = list(e.d["args"])
    kw = e.d["kws"]
    tmpl = a[1] if len(a) > 1 else kw.get("string")
    return (a[0] if a else kw.get("f")), tmpl, a[2:]


def the_atom(v):
    """the single atom of a linear form `1 * atom`, else None"""
    if isinstance(v, Lin) and len(v.t) == 1 and v.c == 0:
        (at, c), = v.t.items()
        if c == 1:
            return at
    return None


def flen_atoms(facts, name):
    """the atoms len(<name>.format(k args)) the facts speak about"""
    out = []

    def walk(v):
        if isinstance(v, Lin):
            for at in v.t:
                if isinstance(at, tuple) and at and at[0] == "flen" and at[1] == ("sym", name) and at not in out:
                    out.append(at)
                walk(at)
        elif isinstance(v, tuple):
            for x in v:
                if isinstance(x, (Lin, tuple)):
                    walk(x)
    for t, _ in facts:
        walk(t)
    return out


def line_layout(parts, subw):
    """one physical line (list of S parts, no newline) -> dict(head, fields, widths, stray) ; `subw`: width of an opaque template fragment"""
    items = M.template_items(S(parts))
    head = None
    widths = []
    stray = ""
    ok = True
    for it in items:
        if it[0] == "text":
            if head is None and not widths:
                head = it[1][:8]
                stray += it[1][8:]
            else:
                stray += it[1]
        elif it[0] == "field":
            if it[1] is None or it[1].width is None:
                ok = False
                widths.append(None)
            else:
                widths.append(it[1].width)
        elif it[0] == "sub":
            widths.append(subw)
        elif it[0] == "done":
            x = it[1]
            if x[0] == "fv":
                sp = M.parse_spec(x[1]) if x[1] is not None else None
                widths.append(sp.width if sp else None)
                if head is None and len(widths) == 1:
                    pass
            else:
                widths.append(subw)
        else:
            ok = False
    return {"head": head, "fields": len(widths), "widths": widths, "stray": stray, "ok": ok}


# ====================================================================================================================== R1
class _Once:
    """one obligation per distinct key"""

    def __init__(self, ctx):
        self.ctx = ctx
        self.seen = set()

    def check(self, ok, inst, where, detail=None, key=None, nontrivial=True):
        k = key or inst
        if k in self.seen:
            return ok
        self.seen.add(k)
        return self.ctx.check(ok, inst, where, detail, key=key, nontrivial=nontrivial)


def _lazy_state(E, fn):
    """flow-insensitive environment: a local bound exactly once (plain assignment, not in a loop header) stands for its defining expression"""
    defs = {}
    for n in walk_no_nested(fn):
        if isinstance(n, ast.Assign) and len(n.targets) == 1 and isinstance(n.targets[0], ast.Name):
            defs.setdefault(n.targets[0].id, []).append(n.value)
        elif isinstance(n, ast.Name) and isinstance(n.ctx, ast.Store):
            p_ = parent(n)
            if not (isinstance(p_, ast.Assign) and len(p_.targets) == 1 and p_.targets[0] is n):
                defs.setdefault(n.id, []).extend([None, None])
    st = M.State(E.env0)
    busy = set()

    class Env(dict):
        def _resolve(self, k):
            if dict.__contains__(self, k):
                return dict.__getitem__(self, k)
            d = defs.get(k)
            if d and len(d) == 1 and d[0] is not None and k not in busy:
                busy.add(k)
                try:
                    v = E.ev(d[0], st)
                except Unsupported:
                    v = ("sym", k)
                finally:
                    busy.discard(k)
                return v
            return None

        def __contains__(self, k):
            return self._resolve(k) is not None

        def __getitem__(self, k):
            v = self._resolve(k)
            if v is None:
                raise KeyError(k)
            return v

        def get(self, k, default=None):
            v = self._resolve(k)
            return default if v is None else v

    env = Env()
    env.update(E.env0)
    st.env = env
    return st


def _string_roots(fn):
    """maximal string-building expressions of a function (docstrings excluded)"""
    roots = {}
    for n in walk_no_nested(fn):
        cand = None
        if isinstance(n, ast.JoinedStr):
            cand = n
        elif isinstance(n, ast.Constant) and isinstance(n.value, str) and ("{" in n.value or "%" in n.value):
            p_ = parent(n)
            if isinstance(p_, ast.Expr) or isinstance(p_, ast.arguments):
                continue
            cand = n
        elif isinstance(n, ast.Call) and isinstance(n.func, ast.Name) and n.func.id == "format" and len(n.args) == 2:
            cand = n
        elif isinstance(n, ast.Name) and isinstance(n.ctx, ast.Load):
            cand = n if getattr(n, "_c13_modconst", False) else None
        if cand is None:
            continue
        top = cand
        while True:
            p_ = parent(top)
            if isinstance(p_, ast.BinOp) and isinstance(p_.op, (ast.Add, ast.Mult, ast.Mod)):
                top = p_
            elif isinstance(p_, (ast.JoinedStr, ast.FormattedValue)):
                top = p_
            elif isinstance(p_, ast.Attribute) and p_.attr == "format" and isinstance(parent(p_), ast.Call) and parent(p_).func is p_:
                top = parent(p_)
            else:
                break
        roots[id(top)] = top
    return list(roots.values())


def _float_specs(v, out, node):
    """(Spec, role or None, kind) of every floating-point field in a string value"""
    if not isinstance(v, S):
        return
    for x in v.p:
        if x[0] == "fv":
            sp = M.parse_spec(x[1]) if x[1] is not None else None
            if sp is not None and sp.type in ("e", "E", "f", "F", "g", "G") and sp.width is not None:
                out.append((sp, x[3] if len(x) > 3 else None, x[2], node))
            if isinstance(x[2], S):
                _float_specs(x[2], out, node)
        elif x[0] == "lit":
            for it in M.template_items(S((x,))):
                if it[0] == "field" and it[1] is not None and it[1].type in ("e", "E", "f", "F", "g", "G") and it[1].width is not None:
                    out.append((it[1], None, None, node))
        elif x[0] == "rep":
            _float_specs(x[1], out, node)


def _effective_default(E, fn, pname):
    """value a parameter has when the caller does not pass it: the signature default, or `if p is None: p = ...` at the top of the body"""
    a = fn.args
    pos = a.posonlyargs + a.args
    dv = None
    for x, d in zip(pos[len(pos) - len(a.defaults):], a.defaults):
        if x.arg == pname:
            dv = d
    for x, d in zip(a.kwonlyargs, a.kw_defaults):
        if x.arg == pname and d is not None:
            dv = d
    if dv is None:
        return None, None
    if isinstance(dv, ast.Constant) and dv.value is None:
        for st in fn.body:
            if isinstance(st, ast.If) and isinstance(st.test, ast.Compare) and len(st.test.ops) == 1 and isinstance(st.test.ops[0], ast.Is) \
                    and isinstance(st.test.left, ast.Name) and st.test.left.id == pname and isinstance(st.test.comparators[0], ast.Constant) \
                    and st.test.comparators[0].value is None:
                for s2 in st.body:
                    if isinstance(s2, ast.Assign) and len(s2.targets) == 1 and isinstance(s2.targets[0], ast.Name) and s2.targets[0].id == pname:
                        return E.ev(s2.value, M.State()), s2
        return None, None
    return E.ev(dv, M.State()), dv


def _reached_helpers(m, fn, done):
    """private non-writer helpers of the module a writer calls (transitively): their formats belong to the writer"""
    out = []
    hs = helpers_of(m)
    stack = [fn]
    while stack:
        f = stack.pop()
        for n in ast.walk(f):
            if isinstance(n, ast.Call) and isinstance(n.func, ast.Name) and n.func.id in hs and not n.func.id.startswith("_wt"):
                h = hs[n.func.id]
                if id(h) not in done:
                    done.add(id(h))
                    out.append(h)
                    stack.append(h)
    return out


def _width_obligations(ctx, once):
    m = ctx.src.mod(BULK)
    n = 0
    modconsts = {st.targets[0].id for st in m.tree.body if isinstance(st, ast.Assign) and len(st.targets) == 1 and isinstance(st.targets[0], ast.Name)}
    for q, fn in sorted(m.funcs.items()):
        last = q.split(".")[-1]
        if not (q.startswith("wt") or q.startswith("_wt")):
            continue
        bodies = [fn] + (_reached_helpers(m, fn, set()) if "." not in q else [])
        E0 = M.Engine(m, fn)
        # default `form`
        for pname in [x.arg for x in fn.args.posonlyargs + fn.args.args + fn.args.kwonlyargs]:
            if pname != "form":
                continue
            try:
                dv, where = _effective_default(E0, fn, pname)
            except Unsupported:
                dv, where = None, None
            specs = []
            _float_specs(dv, specs, where)
            for sp, role, val, node in specs:
                n += 1
                W = sp.width or 0
                mw = M.float_max_width(sp)
                txt = "{:" + sp.canon() + "}"
                if mw is None:
                    P = 6 if sp.prec is None else sp.prec
                    hi, lo = W - P - 1, W - P - 2
                    once.check(False, f"{q}: default form `{txt}` fits its {W}-character field for every finite value", fn,
                               f"fixed notation grows with magnitude: {W + 1} characters for any value >= 1e{hi} or <= -1e{lo}; the reader then "
                               "loses the following field (silent corruption)", key=f"C13-R1|{q}|default form {txt}")
                else:
                    ok = mw <= W
                    once.check(ok, f"{q}: default form `{txt}` fits its {W}-character field for every finite value", fn,
                               None if ok else f"a negative value with a three-digit exponent renders {mw} characters (e.g. -1e-100)",
                               key=f"C13-R1|{q}|default form {txt}")
        for body in bodies:
            E = E0 if body is fn else M.Engine(m, body)
            locs = E.locals
            for nm in walk_no_nested(body):
                if isinstance(nm, ast.Name) and isinstance(nm.ctx, ast.Load) and nm.id in modconsts and nm.id not in locs:
                    nm._c13_modconst = isinstance(E.module_const(nm.id), S)
            st = _lazy_state(E, body)
            for root in _string_roots(body):
                try:
                    v = E.ev(root, st)
                except Unsupported:
                    continue
                specs = []
                _float_specs(v, specs, root)
                for sp, role, val, node in specs:
                    n += 1
                    W = sp.width or 0
                    mw = M.float_max_width(sp)
                    ok = mw is not None and mw <= W
                    what = sp.canon() + (f" of {role}" if role and role.startswith("term") else "")
                    shown = ("{" + (show(val) if val is not None else "") + ":" + sp.text + "}")
                    once.check(ok, f"{q}: spec `{shown}` fits its {W}-character field for every finite value", node,
                               None if ok else (f"a negative value with a three-digit exponent renders {mw} characters" if mw else "fixed notation is unbounded"),
                               key=f"C13-R1|{q}|spec {what}")
    ctx.check(n >= 8, f"format-width rule bound to {n} floating-point specs in writer functions", BULK + ":1", nontrivial=False)


def _arm_value(atom, facts, allowed):
    """the values of `atom` the facts leave possible, and whether all of them are allowed"""
    ok, cand = M.possible_values(atom, facts, extra=allowed, lo=0)
    return ok, all(v in allowed for v in ok)


def _tabled1(ctx):
    fn = ctx.src.func(BULK, "wttabled1")
    E = engine(ctx, BULK, "wttabled1")
    form = ("sym", "form")
    paths = [s for s in E.finals if s.status in ("run", "return")]
    if not paths:
        raise AnchorError("wttabled1: no path reaches the end of the function")
    # the quantity the guard speaks about: len(form.format(<a pair>))
    atoms = []
    for s in paths:
        for at in flen_atoms(s.facts, "form"):
            if at not in atoms:
                atoms.append(at)
    data_events = [e for e in E.events("call") if is_vecwrite(e) or (is_write(e) and isinstance(e.d["args"][0], S)
                                                                     and any(x[0] == "fmt" and x[1] == form for x in e.d["args"][0].p))]
    if not data_events:
        raise AnchorError("wttabled1: writes of `form`-rendered data")
    X = atoms[0] if len(atoms) == 1 else ("flen", form, 2)
    ok = len(atoms) == 1 and X[2] == 2
    bad = None
    for e in data_events:
        vals, fine = _arm_value(X, e.facts, (16, 32))
        if not fine:
            ok = False
            bad = bad or (e, sorted(vals))
    ctx.check(ok, "wttabled1: a user `form` must render a pair in 16 or 32 characters", bad[0].node if bad else fn,
              None if ok else ({"lengths not excluded before data is written": bad[1][:8]} if bad else "no test of len(form.format(<pair>))"))
    N = lin(("len", ("sym", "t")))
    for label, pairw, per in (("large field", 32, 2), ("small field", 16, 4)):
        arm = [s for s in paths if M.possible_values(X, s.facts, extra=(16, 32), lo=0)[0] == {pairw}]
        if not arm:
            ctx.error(f"wttabled1 [{label}]: no path on which a pair renders in {pairw} characters", fn)
            continue
        res = {"line": True, "head": True, "inter": True, "left": True, "loop": True, "lasthead": True, "endt": True, "hdr": True}
        det = {}
        where = {}
        seen_vec = False
        for s in arm:
            outs = [e for e in s.events if e.kind == "call" and (is_write(e) or is_vecwrite(e))]
            vec = [e for e in outs if is_vecwrite(e)]
            u = None
            if len(vec) > 1:
                res["line"] = False
                det["line"] = "more than one vectorised write on a path"
            for e in vec:
                seen_vec = True
                where.setdefault("vec", e.node)
                _, tmpl, data = vecwrite_parts(e)
                if not isinstance(tmpl, S):
                    res["line"] = False
                    det["line"] = show(tmpl)
                    continue
                lines, term = M.split_lines(tmpl.p)
                lay = [line_layout(ln, pairw) for ln in lines]
                okl = term and len(lay) == 1 and lay[0]["ok"] and lay[0]["head"] is not None and len(lay[0]["head"]) == 8 and not lay[0]["stray"] \
                    and lay[0]["fields"] == per and all(w == pairw for w in lay[0]["widths"]) \
                    and all(it[0] in ("text", "sub") for it in M.template_items(tmpl))
                if not okl:
                    res["line"] = False
                    det["line"] = repr(tmpl)
                head = lay[0]["head"] if lay and lay[0]["head"] else ""
                det["headtext"] = head
                if not (head[:1] in ("*", " ", "+") and (head[:1] == "*") == (pairw == 32)):
                    res["head"] = False
                # data arguments: per interleaved strides of t and d with one common upper bound
                want = []
                for i in range(per):
                    want += [("t", i), ("d", i)]
                got = []
                ups = set()
                for a in data:
                    if isinstance(a, tuple) and a and a[0] == "slice" and M.is_int_const(lin(a[2])) and M.is_int_const(lin(a[4])) \
                            and M.ival(lin(a[4])) == per and M.origin(a[1])[0] == "sym":
                        got.append((M.origin(a[1])[1], M.ival(lin(a[2]))))
                        ups.add(a[3] if not isinstance(a[3], Lin) else a[3])
                    else:
                        got.append(show(a))
                if got != want or len(ups) != 1:
                    res["inter"] = False
                    det["inter"] = [str(g) for g in got]
                elif isinstance(next(iter(ups)), Lin):
                    u = next(iter(ups))
                    # equal lengths of the strided vectors need per | u
                    lo_, hi_ = M.bounds(M.mod(u, per), e.facts)
                    if not (lo_ == 0 and hi_ == 0):
                        res["inter"] = False
                        det["inter"] = f"upper bound {show(u)} is not a multiple of {per}"
                else:
                    res["inter"] = False
                    det["inter"] = "upper bound of the slices: " + show(next(iter(ups)))
            # leftover loop
            loops = [e for e in s.events if e.kind == "for"]
            lp = None
            for e in loops:
                it = e.d["iter"]
                if isinstance(it, tuple) and it and it[0] == "range":
                    lp = e
            if lp is None:
                res["loop"] = False
                det["loop"] = "no loop over the leftover pairs"
            else:
                where.setdefault("loop", lp.node)
                it = lp.d["iter"]
                lo_, hi_ = it[1], it[2]
                if u is None:
                    u_here = lo_
                else:
                    u_here = u
                okr = lo_ == u_here and hi_ == N and it[3] == Lin(c=1)
                j = lp.d["target"]
                inner = [e for e in outs if lp.d["loop"] in e.loops and is_write(e)]
                okw = len(inner) == 1 and isinstance(inner[0].d["args"][0], S) and len(inner[0].d["args"][0].p) == 1
                if okw:
                    x = inner[0].d["args"][0].p[0]
                    okw = x[0] == "fmt" and x[1] == form and len(x[2]) == 2 and all(
                        isinstance(a, tuple) and a and a[0] == "elem" and a[2] == j and M.origin(a[1]) == ("sym", nm) for a, nm in zip(x[2], ("t", "d")))
                if not (okr and okw):
                    res["loop"] = False
                    det["loop"] = {"range": show(it), "write": [show(e.d["args"][0]) for e in inner]}
                # leftover count: npts - u in 0..per-1  (u: where the vectorised write stops = where the loop starts)
                left = N - lo_
                blo, bhi = M.bounds(left, lp.facts[:0] + tuple(f for f in lp.facts if not M.mentions(f[0], the_atom(j) if isinstance(j, Lin) else j)))
                if not (blo is not None and bhi is not None and blo >= 0 and bhi <= per - 1):
                    w = M.find_witness([("len", ("sym", "t"))], s.facts, lambda a: not (0 <= M.lin_eval(left, a) <= per - 1), ranges={("len", ("sym", "t")): (1, 48)})
                    res["left"] = False
                    det["left"] = {"leftover pairs range": [str(blo), str(bhi)], "start of the leftover loop": show(lo_),
                                   "witness": {show(k): v for k, v in w.items()} if w else None}
                    if w is None and (blo is None or bhi is None):
                        det["left"]["undecided"] = True
                where.setdefault("rows", lp.node)
            # head of the last line: the write just before the leftover pairs
            plain = [e for e in outs if is_write(e) and not e.loops]
            pre = [e for e in plain if lp is not None and e.seq < lp.seq and (not vec or e.seq > vec[-1].seq)]
            if vec:
                cand = pre
            else:
                cand = pre[-1:] if pre else []
            okh = len(cand) == 1 and isinstance(cand[0].d["args"][0], S) and cand[0].d["args"][0].text() is not None \
                and len(cand[0].d["args"][0].text()) == 8 and (cand[0].d["args"][0].text()[:1] == "*") == (pairw == 32) \
                and cand[0].d["args"][0].text()[:1] in ("*", " ", "+")
            if not okh:
                res["lasthead"] = False
                det["lasthead"] = [show(e.d["args"][0]) for e in cand]
            elif cand:
                where.setdefault("lasthead", cand[0].node)
            # ENDT closes the table
            last = outs[-1] if outs else None
            if not (last is not None and is_write(last) and isinstance(last.d["args"][0], S) and last.d["args"][0].text() == "ENDT\n" and not last.loops):
                res["endt"] = False
            elif last is not None:
                where.setdefault("endt", last.node)
        if not seen_vec:
            ctx.error(f"wttabled1 [{label}]: vecwrite call", fn)
            continue
        vnode = where.get("vec", fn)
        ctx.check(res["line"], f"wttabled1 [{label}]: each full line is an 8-column head + {per} pairs of {pairw} = 72 columns", vnode, det.get("line"))
        ctx.check(res["head"], f"wttabled1 [{label}]: continuation head `{det.get('headtext', '')}` is the one the reader expects for this field width", vnode)
        ctx.check(res["inter"], f"wttabled1 [{label}]: the vectorised write interleaves t and d with stride {per}", vnode, det.get("inter"))
        if res["left"] is False and isinstance(det.get("left"), dict) and det["left"].get("undecided"):
            ctx.error(f"wttabled1 [{label}]: range of the leftover pairs", where.get("rows", fn), det["left"])
        else:
            ctx.check(res["left"], f"wttabled1 [{label}]: after the full lines 0..{per - 1} pairs remain, so the pairs and ENDT fit in the {per * 2} fields of the last line",
                      where.get("rows", fn), det.get("left"))
        ctx.check(res["loop"], f"wttabled1 [{label}]: the leftover pairs r..npts-1 are written one by one on the last line", where.get("loop", fn), det.get("loop"))
        ctx.check(res["lasthead"], f"wttabled1 [{label}]: the last line starts with an 8-column head legal for this field width", where.get("lasthead", fn),
                  det.get("lasthead"))
        yield label, res["endt"], where.get("endt", fn)


def r1_templates(ctx):
    once = _Once(ctx)
    _width_obligations(ctx, once)
    # ---- wttabled1: line templates are 8 + 64 columns and the user `form` is validated
    endt = list(_tabled1(ctx))
    ok = bool(endt) and all(x[1] for x in endt)
    ctx.check(ok, "wttabled1: ENDT closes the table", endt[0][2] if endt else ctx.src.func(BULK, "wttabled1"))
    # ---- wtgrids templates: 8 + n*W with W validated
    _grids(ctx, once)


def _grids(ctx, once):
    fn = ctx.src.func(BULK, "wtgrids")
    E = engine(ctx, BULK, "wtgrids")
    form = ("sym", "form")
    vec = [e for e in E.events("call") if is_vecwrite(e)]
    if not vec:
        raise AnchorError("wtgrids: vecwrite call")
    atoms = []
    for e in vec:
        for at in flen_atoms(e.facts, "form"):
            if at not in atoms:
                atoms.append(at)
    X = atoms[0] if len(atoms) == 1 else ("flen", form, 1)
    okg = len(atoms) == 1 and X[2] == 1
    bad = None
    for e in vec:
        vals, fine = _arm_value(X, e.facts, (8, 16))
        if not fine:
            okg = False
            bad = bad or (e, sorted(vals))
            continue
        _, tmpl, data = vecwrite_parts(e)
        if not isinstance(tmpl, S):
            ctx.error("wtgrids: template shape", e.node, show(tmpl))
            continue
        if len(vals) != 1:
            ctx.error("wtgrids: field width of a template", e.node, {"possible lengths of form.format(x)": sorted(vals), "template": repr(tmpl)})
            continue
        Wf = next(iter(vals))
        lines, term = M.split_lines(tmpl.p)
        if not term or not lines:
            once.check(False, f"wtgrids: template {tmpl!r} ends its last line", e.node, key=f"wtgrids-nl|{tmpl!r}")
            continue
        for i, ln in enumerate(lines):
            lay = line_layout(ln, Wf)
            head = lay["head"] or ""
            W = 16 if "*" in head else 8
            per = 4 if W == 16 else 8
            ok = lay["ok"] and len(head) == 8 and not lay["stray"] and lay["fields"] <= per and all(w == W for w in lay["widths"])
            once.check(ok, f"wtgrids: line `{head}` has an 8-column head and {lay['fields']} <= {per} fields of width {W}", e.node,
                       None if ok else {k: (v if k != "widths" else [str(w) for w in v]) for k, v in lay.items()}, key=f"wtgrids-line|{tmpl!r}|{i}")
        nf = M.count_fields(M.template_items(tmpl), {form: 1})
        ok = nf is not None and nf == Lin(c=len(data))
        once.check(ok, f"wtgrids: the template starting `{(line_layout(lines[0], Wf)['head'] or '')}` ({len(lines)} line(s)) consumes exactly the {len(data)} vectors passed",
                   e.node, None if ok else {"fields": show(nf) if nf is not None else None, "vectors": len(data)}, key=f"wtgrids-args|{tmpl!r}")
    ctx.check(okg, "wtgrids: a user `form` must render in 8 or 16 characters", bad[0].node if bad else fn,
              None if okg else ({"lengths not excluded before data is written": bad[1][:8]} if bad else "no test of len(form.format(x))"))


# ====================================================================================================================== R2
def r2_nonempty_vector(ctx):
    """writer.vecwrite treats a zero-length vector as length 1 and then indexes element 0"""
    fn = ctx.src.func(WRITER, "vecwrite")
    E = engine(ctx, WRITER, "vecwrite")
    why = []
    asg = [e for e in E.events("assign") if e.d["name"] == "length"]
    init = [e for e in asg if not e.loops]
    ups = [e for e in asg if e.loops]
    if not (init and all(e.d["value"] == Lin(c=1) for e in init)):
        why.append("the count does not start at 1")
    if not ups:
        why.append("the count is never raised")
    for e in ups:
        lo, _ = M.bounds(lin(e.d["value"]) - 2, e.facts)
        if not (lo is not None and lo >= 0):
            why.append(f"the count is set to {show(e.d['value'])} without a test that it exceeds 1")
    # the accessor chosen for a vector whose length is not 1 (and which is not 2-D) indexes element i; a zero-length vector reaches it
    acc = None
    for e in E.events("call"):
        if e.d["attr"] == "append" and e.loops and len(e.d["args"]) == 1 and isinstance(e.d["args"][0], tuple) and e.d["args"][0][:1] == ("func",):
            name = e.d["args"][0][1]
            sub = ctx.src.mod(WRITER).funcs.get("vecwrite." + name)
            if sub is None or len(sub.args.args) != 2:
                continue
            a, i = (x.arg for x in sub.args.args)
            Es = M.Engine(ctx.src.mod(WRITER), sub)
            Es.run()
            rets = [r.d["value"] for r in Es.events("return")]
            idx = ("elem", ("sym", a), ("sym", i))
            if rets and all(r == ("tuple", (idx,)) for r in rets):
                # 1-D accessor: can the vector be empty here?
                lens = [at for t, _ in e.facts for at in M.free_symbols(t) if isinstance(at, tuple) and at[0] == "len"]
                for at in lens:
                    vals, _ = M.possible_values(at, e.facts, lo=0)
                    if 0 in vals:
                        acc = (e, name)
                if not lens:
                    acc = (e, name)
    ctx.src.funcs_consulted.add(f"{WRITER}:vecwrite._get_itemi") if ctx.src.has_func(WRITER, "vecwrite._get_itemi") else None
    if acc is None:
        why.append("no accessor `[a[i]]` is reached by a zero-length vector")
    if why:
        ctx.error("vecwrite summary: `length` starts at 1 and is raised only by a vector longer than 1, and vector arguments are indexed with a[i]", fn,
                  {"not derived": why, "note": "if vecwrite now accepts empty vectors the call-site guards are no longer required: re-derive this rule"})
        return
    ctx.ok("vecwrite summary: `length` starts at 1 and is raised only by a vector longer than 1, and vector arguments are indexed "
           "with a[i] => a zero-length vector argument raises IndexError", fn)
    # call sites whose vector arguments are slices of symbolic extent
    m = ctx.src.mod(BULK)
    nsites = 0
    for q, f2 in sorted(m.funcs.items()):
        if not any(isinstance(c, ast.Call) and (dotted(c.func) or "").split(".")[-1] == "vecwrite" for c in walk_no_nested(f2)):
            continue
        if not any(isinstance(c, ast.Call) and (dotted(c.func) or "").split(".")[-1] == "vecwrite"
                   and any(isinstance(a, ast.Subscript) and isinstance(a.slice, ast.Slice) for a in c.args) for c in walk_no_nested(f2)) \
                and q != "wttabled1":
            continue
        try:
            E2 = engine(ctx, BULK, q)
        except Unsupported as ex:
            ctx.error(f"{q}: vecwrite call sites", f2, str(ex))
            continue
        by_node = {}
        for e in E2.events("call"):
            if is_vecwrite(e):
                by_node.setdefault(id(e.node), []).append(e)
        for evs in by_node.values():
            sl = [a for a in vecwrite_parts(evs[0])[2] if isinstance(a, tuple) and a and a[0] == "slice"]
            if not sl:
                continue
            if all(M.is_int_const(lin(a[3])) for a in sl if isinstance(a[3], Lin)) and all(isinstance(a[3], Lin) for a in sl):
                continue
            nsites += 1
            verdict, detail, label = True, None, ""
            for e in evs:
                # domain of the property: tables and lists of at least one entry
                dom = tuple((("cmp", "GtE", lin(at), Lin(c=1)), True) for a in vecwrite_parts(e)[2] if isinstance(a, tuple) and a[:1] == ("slice",)
                            for at in M.free_symbols(E2.slice_len(a, e.facts) or Lin()) if isinstance(at, tuple) and at[0] == "len")
                e = M.Event(e.kind, e.node, e.d, e.facts + tuple(f for f in dict.fromkeys(dom)), e.loops, e.seq)
                flen = flen_atoms(e.facts, "form")
                if flen:
                    vals = M.possible_values(flen[0], e.facts, extra=(16, 32), lo=0)[0]
                    label = " [large field]" if vals == {32} else " [small field]" if vals == {16} else ""
                for a in [x for x in vecwrite_parts(e)[2] if isinstance(x, tuple) and x and x[0] == "slice"]:
                    ln = E2.slice_len(a, e.facts)
                    if ln is None:
                        verdict, detail = None, f"length of {show(a)}"
                        break
                    lo, _ = M.bounds(ln - 1, e.facts)
                    if lo is not None and lo >= 0:
                        continue
                    syms = [s_ for s_ in M.free_symbols(ln) if isinstance(s_, tuple) and s_[0] == "len"]
                    w = M.find_witness(syms, e.facts, lambda asg_, ln=ln: (M.lin_eval(ln, asg_) is not None and M.lin_eval(ln, asg_) <= 0),
                                       ranges={s_: (1, 48) for s_ in syms}) if syms else None
                    if w is not None:
                        verdict = False
                        detail = (f"`{show(a)}` is empty for {', '.join(show(k) + ' = ' + str(v) for k, v in w.items())}; vecwrite then indexes an empty array "
                                  "(IndexError): a table with < 4 points (small field) or 1 point (large field) cannot be written")
                    else:
                        verdict, detail = None, f"cannot bound the length {show(ln)} of {show(a)}"
                    break
                if verdict is not True:
                    break
            shown = show(sl[0])
            inst = (f"{q}{label}: the vectorised write of `{shown}` ... is executed only when there is at least one full line")
            if verdict is None:
                ctx.error(inst, evs[0].node, detail)
            else:
                ctx.check(verdict, inst, evs[0].node, detail, key=f"C13-R2|{q}|{label.strip(' []')}|unguarded vecwrite")
    ctx.assume("C13-R2: the sequences handed to the writers have at least one entry (the property quantifies over lengths 1..n)")
    ctx.check(nsites >= 2, f"non-empty vector contract bound to {nsites} call sites", BULK + ":1", nontrivial=False)


# ====================================================================================================================== R3
def _columns(v):
    """the columns of a 2-D array built from 1-D vectors: vstack([a, b]).T, column_stack((a, b)), array([a, b]).T, c_[a, b]"""
    if isinstance(v, tuple) and v and v[0] == "op":
        if v[1] == "T" and isinstance(v[2][0], tuple) and v[2][0][:1] == ("op",) and v[2][0][1] in ("np.vstack", "np.array", "np.asarray", "np.stack", "np.row_stack") \
                and isinstance(v[2][0][2][0], tuple) and v[2][0][2][0][:1] == ("tuple",):
            return list(v[2][0][2][0][1])
        if v[1] in ("np.column_stack",) and isinstance(v[2][0], tuple) and v[2][0][:1] == ("tuple",):
            return list(v[2][0][1])
    if isinstance(v, tuple) and v and v[0] == "elem" and v[1] == ("sym", "np.c_") and isinstance(v[2], tuple) and v[2][:1] == ("tuple",):
        return list(v[2][1])
    return None


def _transpose_form(v):
    """(base, transposed?, conjugated?) of a matrix expression built from .T / .transpose() / .conj()"""
    tr = cj = False
    while isinstance(v, tuple) and v and v[0] == "op":
        if v[1] == "T" and len(v[2]) == 1:
            tr = not tr
            v = v[2][0]
        elif v[1] in (".conj", ".conjugate", "np.conj", "np.conjugate") and len(v[2]) == 1:
            cj = not cj
            v = v[2][0]
        else:
            break
    return v, tr, cj


def r3_reader_strides(ctx):
    # ---- rdtabled1: columns of the returned table
    fn = ctx.src.func(BULK, "rdtabled1")
    E = engine(ctx, BULK, "rdtabled1")
    stores = [e for e in E.events("store") if e.loops]
    ok = False
    detail = None
    for e in stores:
        cols = _columns(e.d["value"])
        if cols is None or len(cols) != 2:
            detail = show(e.d["value"])
            continue
        a, b = cols
        good = all(isinstance(c, tuple) and c and c[0] == "slice" for c in (a, b)) and a[1] == b[1] \
            and a[2] == Lin(c=8) and b[2] == Lin(c=9) and a[3] == Lin(c=-1) == b[3] and a[4] == Lin(c=2) == b[4]
        # the vector sliced is the card of the table the result is stored under
        src = a[1] if good else None
        good = good and isinstance(src, tuple) and src[0] == "elem" and src[1] == e.d["base"] and src[2] == e.d["index"]
        ok = ok or good
        detail = None if good else [show(c) for c in cols]
    ctx.check(ok, "rdtabled1: abscissae are fields 8,10,... and ordinates fields 9,11,... up to (not including) the final ENDT field", stores[0].node if stores else fn, detail)
    # ---- writer side: the header occupies card fields 0..7, so the first pair is field 8
    Ew = engine(ctx, BULK, "wttabled1")
    form = ("sym", "form")
    paths = [s for s in Ew.finals if s.status in ("run", "return")]
    atoms = []
    for s in paths:
        for at in flen_atoms(s.facts, "form"):
            if at not in atoms:
                atoms.append(at)
    X = atoms[0] if len(atoms) == 1 else ("flen", form, 2)
    for pairw in (32, 16):
        arm = [s for s in paths if M.possible_values(X, s.facts, extra=(16, 32), lo=0)[0] == {pairw}]
        W = pairw // 2
        okh, node, det = bool(arm), None, None
        for s in arm:
            outs = [e for e in s.events if e.kind == "call" and (is_write(e) or is_vecwrite(e))]
            hdr = [e for e in outs if is_write(e) and isinstance(e.d["args"][0], S) and any(x[0] == "fv" and x[2] == ("sym", "tid") for x in e.d["args"][0].p)]
            if len(hdr) != 1:
                okh, det = False, "header write"
                continue
            node = node or hdr[0].node
            # nothing but comments before it, data right after it
            before = [e for e in outs if e.seq < hdr[0].seq]
            if any(not (is_write(e) and isinstance(e.d["args"][0], S) and (e.d["args"][0].p[:1] or (("", ""),))[0][0] == "lit"
                        and e.d["args"][0].p[0][1].startswith("$")) for e in before):
                okh, det = False, "output before the header card"
            lines, term = M.split_lines(hdr[0].d["args"][0].p)
            lay = [line_layout(ln, None) for ln in lines]
            per_line = 64 // W
            good = term and len(lines) * per_line == 8 and lay[0]["widths"] == [8, W] and not lay[0]["stray"] and lay[0]["head"] is None \
                and all(l_["fields"] == 0 and not l_["stray"] and l_["head"] in ("*", "+", "*       ", "+       ") for l_ in lay[1:])
            if not good:
                okh, det = False, repr(hdr[0].d["args"][0])
        ctx.check(okh, "wttabled1: the header card line holds only name + id, so the first pair starts field 8 (second line)", node or Ew.fn, det)
    # ---- rdgrids pads to 8 columns; wtgrids writes at most 8 fields after the name
    fn = ctx.src.func(BULK, "rdgrids")
    E = engine(ctx, BULK, "rdgrids")
    rets = [e for e in E.events("return")]
    ok, det = bool(rets), None
    padded = 0
    for e in rets:
        v = e.d["value"]
        if v == ("k", None):
            continue
        if isinstance(v, tuple) and v and v[0] == "op" and v[1] in ("np.hstack", "np.concatenate", "np.column_stack") and isinstance(v[2][0], tuple) and v[2][0][:1] == ("tuple",) \
                and len(v[2][0][1]) == 2:
            base, pad = v[2][0][1]
            nc = lin(("dim", M.origin(base), 1))
            good = isinstance(pad, tuple) and pad[:2] == ("op", "np.zeros") and isinstance(pad[2][0], tuple) and pad[2][0][:1] == ("tuple",) and len(pad[2][0][1]) == 2
            if good:
                r, c = pad[2][0][1]
                good = lin(r) == lin(("len", M.origin(base))) and (nc + lin(c)) == Lin(c=8)
                lo, hi = M.bounds(nc, e.facts)
                good = good and hi is not None and hi <= 7
            if v[1] == "np.concatenate":
                good = good and len(v) > 3 and dict(v[3]).get("axis") == Lin(c=1)
            padded += bool(good)
            if not good:
                ok, det = False, show(v)
        else:
            # returned unchanged: only when it already has at least 8 columns
            nc = lin(("dim", M.origin(v), 1))
            lo, hi = M.bounds(nc, e.facts)
            if not (lo is not None and lo >= 8):
                ok, det = False, {"returned without padding": show(v), "columns proved": [str(lo), str(hi)]}
    ok = ok and padded >= 1
    ctx.check(ok, "rdgrids pads short GRID cards to 8 columns", fn, det)
    # ---- DMIG: the writer's symmetry test must match the reader's mirror (plain transpose, no conjugation)
    _dmig(ctx)


def _dmig(ctx):
    wd = ctx.src.func(BULK, "wtdmig")
    E = engine(ctx, BULK, "wtdmig")
    # reader: every store of an entry under form == 6 has a mirrored store of the same value
    rd = ctx.src.func(BULK, "rddmig._cards_to_df")
    Er = engine(ctx, BULK, "rddmig._cards_to_df")
    stores = [e for e in Er.events("store") if e.d["name"] == "mat" or (isinstance(e.d["index"], tuple) and e.d["index"][:1] == ("tuple",) and len(e.d["index"][1]) == 2)]
    stores = [e for e in stores if isinstance(e.d["index"], tuple) and e.d["index"][:1] == ("tuple",) and len(e.d["index"][1]) == 2]

    def form6(facts):
        for t, pol in facts:
            if isinstance(t, tuple) and t[:2] == ("cmp", "Eq") and Lin(c=6) in t[2:] and pol:
                return True
        return False
    prim = [e for e in stores if not form6(e.facts) or not any(
        p.d["index"][1] == e.d["index"][1][::-1] and p.d["value"] == e.d["value"] and p.seq < e.seq and p.loops == e.loops for p in stores)]
    mir = [e for e in stores if e not in prim]
    plain = bool(prim) and bool(mir)
    # the quantity compared with 6 (the form read from the header card)
    forms = {x for e in mir for t, pol in e.facts if pol and isinstance(t, tuple) and t[:2] == ("cmp", "Eq") and Lin(c=6) in t[2:] for x in t[2:] if x != Lin(c=6)}
    # every primary store that can be reached with form == 6 has its mirror on the same paths
    for p in prim:
        if forms and any(_excludes(p.facts, x, 6) for x in forms):
            continue
        ms = [e for e in mir if e.d["index"][1] == p.d["index"][1][::-1] and e.d["value"] == p.d["value"] and e.loops == p.loops]
        if not ms:
            plain = False
    ctx.check(plain, "rddmig: a form-6 entry (i, j) is mirrored to (j, i) unchanged (plain symmetry)", mir[0].node if mir else rd,
              None if plain else {"stores": [(show(e.d["index"]), show(e.d["value"])) for e in stores][:8]})
    # writer: form 6 only under a test that the matrix equals its plain transpose
    asg = [e for e in E.events("assign") if e.d["name"] == "form" and e.d["value"] == Lin(c=6)]
    if not asg:
        ctx.error("wtdmig: symmetric (form 6) test", wd)
    else:
        verdict, det, node = True, None, asg[0].node
        for e in asg:
            found = None
            for t, pol in e.facts:
                r = _symmetry_test(ctx, t, pol, E)
                if r is not None:
                    found = r if found is None or r[0] is not True else found
                    if r[0] is True:
                        found = r
                        break
            if found is None:
                verdict, det = None, "no test of the matrix against its transpose dominates `form = 6`"
            elif found[0] is False:
                verdict, det = False, found[1]
                node = found[2] if len(found) > 2 and found[2] is not None else node
            elif found[0] is None and verdict is True:
                verdict, det = None, found[1]
        inst = ("wtdmig: a matrix is written as form 6 (half storage) only if it equals its plain transpose - the reader mirrors "
                "without conjugation")
        if verdict is None:
            ctx.error(inst, node, det)
        else:
            ctx.check(verdict, inst, node, det)
    # wtdmig: start row of the lower triangle
    fors = [e for e in E.events("for")]
    rows = [e for e in fors if len(e.loops) >= 3 and isinstance(e.d["iter"], tuple) and e.d["iter"][:1] == ("range",)]
    ok, det = bool(rows), None
    seen6 = seen_other = False
    for e in rows:
        outer = [f for f in fors if f.d["loop"] == e.loops[-2]]
        col = outer[0].d["target"] if outer else None
        it = e.d["iter"]
        formv = None
        for a in reversed([x for x in E.events("assign") if x.d["name"] == "form" and x.seq < e.seq and set(x.facts) <= set(e.facts)]):
            formv = a.d["value"]
            break
        if formv == Lin(c=6):
            seen6 = True
            good = it[1] == col
        else:
            seen_other = True
            good = it[1] == Lin()
        mat = None
        if outer and isinstance(outer[0].d["iter"], tuple) and outer[0].d["iter"][:1] == ("range",):
            hi = outer[0].d["iter"][2]
            at = the_atom(hi)
            if isinstance(at, tuple) and at[0] == "dim" and at[2] == 1:
                mat = at[1]
        good = good and mat is not None and it[2] == lin(("len", mat)) and it[3] == Lin(c=1) and outer[0].d["iter"][1] == Lin()
        if not good:
            ok, det = False, {"form": show(formv), "rows": show(it), "column": show(col)}
    ok = ok and seen6 and seen_other
    ctx.check(ok, "wtdmig: form 6 writes rows col..n-1 of each column (one of each (i,j)/(j,i) pair)", rows[0].node if rows else wd, det)
    # D exponent for the double-precision types
    terms = [e for e in E.events("call") if is_write(e) and len(e.loops) >= 3 and isinstance(e.d["args"][0], S)]
    ok, det = bool(terms), None
    kinds = set()
    for e in terms:
        mt = None
        for a in reversed([x for x in E.events("assign") if x.d["name"] == "mtype" and x.seq < e.seq and set(x.facts) <= set(e.facts)]):
            mt = a.d["value"]
            break
        if not M.is_int_const(mt):
            ok, det = False, f"matrix type {show(mt)}"
            continue
        k = M.ival(mt)
        vals = [x for x in e.d["args"][0].p if x[0] == "fv" and not isinstance(x[2], Lin) and (x[1] or "").endswith("s") and _has_float(x[2])]
        if len(vals) != 1:
            ok, det = False, repr(e.d["args"][0])
            continue
        v = vals[0][2]
        rep = isinstance(v, tuple) and v[:2] == ("op", ".replace") and len(v[2]) == 3 and v[2][1] == S((("lit", "E"),)) and v[2][2] == S((("lit", "D"),))
        inner = v[2][0] if rep else v
        specs = []
        _float_specs(inner if isinstance(inner, S) else None, specs, None)
        upperE = bool(specs) and all(sp.type == "E" for sp, *_ in specs)
        nparts = len(specs)
        good = (rep == (k % 2 == 0)) and upperE and nparts == (2 if k >= 3 else 1)
        kinds.add(k)
        if not good:
            ok, det = False, {"mtype": k, "term": show(v)}
    ok = ok and kinds == {1, 2, 3, 4}
    ctx.check(ok, "wtdmig: double-precision types (even mtype) use the D exponent", terms[0].node if terms else wd, det)


def _excludes(facts, x, k):
    """the facts prove x != k"""
    lo, hi = M.bounds(lin(x) - k, facts)
    if (lo is not None and lo > 0) or (hi is not None and hi < 0):
        return True
    for t, pol in facts:
        if isinstance(t, tuple) and t[:1] == ("cmp",) and set(t[2:]) == {lin(x), Lin(c=k)}:
            if (t[1] == "Eq" and not pol) or (t[1] == "NotEq" and pol):
                return True
    return False


def _has_float(v):
    if isinstance(v, S):
        out = []
        _float_specs(v, out, None)
        return bool(out)
    if isinstance(v, tuple) and v[:2] == ("op", ".replace"):
        return _has_float(v[2][0])
    return False


def _symmetry_test(ctx, t, pol, E, depth=0):
    """does the fact (t, pol) say something about the symmetry of a matrix?
       (True, ..)  it implies m == m.T (to the comparison's tolerance)
       (False, why, node)  it is a comparison with the conjugate transpose, or a disjunction one arm of which does not compare with the transpose
       (None, why)  a test this rule cannot decide;   None: not about symmetry"""
    if not isinstance(t, tuple) or not t:
        return None
    if t[0] == "op" and t[1] in ("np.allclose", "np.array_equal", "np.isclose", "np.array_equiv") and len(t[2]) >= 2:
        if not pol:
            return None
        a, b = _transpose_form(t[2][0]), _transpose_form(t[2][1])
        if a[0] != b[0] or a[1] == b[1]:
            return None
        if a[2] == b[2]:
            return (True, None)
        return (False, sorted(show(x) for x in t[2][:2]), None)
    if t[0] == "op" and t[1] in (".all",) and len(t[2]) == 1 and isinstance(t[2][0], tuple) and t[2][0][:2] == ("cmp", "Eq"):
        if not pol:
            return None
        a, b = _transpose_form(t[2][0][2]), _transpose_form(t[2][0][3])
        if a[0] == b[0] and a[1] != b[1]:
            return (True, None) if a[2] == b[2] else (False, sorted(show(x) for x in t[2][0][2:4]), None)
        return None
    if t[0] == "op" and pol and isinstance(t[1], str) and depth < 2:
        # a predicate of the package: follow its definition
        name = t[1]
        if name.startswith("ytools.") and len(t[2]) >= 1:
            return _follow_predicate(ctx, YTOOLS, name.split(".", 1)[1], t, depth)
    return None


def _follow_predicate(ctx, rel, qual, t, depth):
    if not ctx.src.has_func(rel, qual):
        return (None, f"predicate {t[1]} cannot be resolved")
    fn = ctx.src.func(rel, qual)
    m = ctx.src.mod(rel)
    params = [a.arg for a in fn.args.args]
    env = {}
    for nm, v in zip(params, t[2]):
        env[nm] = v
    for k, v in (t[3] if len(t) > 3 else ()):
        env[k] = v
    pos = fn.args.args
    E0 = M.Engine(m, fn)
    for p_, dv in zip(pos[len(pos) - len(fn.args.defaults):], fn.args.defaults):
        if p_.arg not in env:
            env[p_.arg] = E0.ev(dv, M.State())
    try:
        E2 = M.Engine(m, fn, params=env, follow=helpers_of(m))
        E2.run()
    except Unsupported as ex:
        return (None, f"predicate {t[1]}: {ex}")
    mat = t[2][0]
    verdicts = []
    for r in E2.events("return"):
        v = r.d["value"]
        if v == ("k", False):
            continue
        verdicts.append(_pred_value(ctx, v, mat, rel, depth + 1, r.node))
    if not verdicts:
        return (None, f"predicate {t[1]} never returns a truth value this rule understands")
    for v in verdicts:
        if v[0] is False:
            return v
    for v in verdicts:
        if v[0] is None:
            return v
    return (True, None)


def _pred_value(ctx, v, mat, rel, depth, node):
    """a returned truth value: does `true` imply that mat equals its plain transpose?"""
    if isinstance(v, tuple) and v and v[0] == "bool":
        subs = [_pred_value(ctx, x, mat, rel, depth, node) for x in v[2]]
        if v[1] == "and":
            if any(s[0] is True for s in subs):
                return (True, None)
            if all(s[0] is False for s in subs):
                return subs[0]
            return (None, "conjunction without a transpose comparison")
        # or: every arm must imply symmetry
        for s, x in zip(subs, v[2]):
            if s[0] is False:
                return s
        for s, x in zip(subs, v[2]):
            if s[0] is None:
                return s
        return (True, None)
    r = _symmetry_test(ctx, v, True, None, depth)
    if r is not None:
        return r if len(r) > 2 or r[0] is not False else (False, r[1], node)
    if isinstance(v, tuple) and v and v[0] == "op" and isinstance(v[1], str) and not v[1].startswith(".") and "." not in v[1] and depth < 3:
        # a function of the same module: does it look at the transpose at all?
        if ctx.src.has_func(rel, v[1]):
            sub = ctx.src.func(rel, v[1])
            uses_t = any((isinstance(n, ast.Attribute) and n.attr in ("T", "transpose", "conj", "conjugate", "H")) or
                         (isinstance(n, ast.Call) and (dotted(n.func) or "").split(".")[-1] in ("transpose", "swapaxes", "triu", "tril", "allclose", "array_equal"))
                         for n in ast.walk(sub))
            calls_out = [dotted(n.func) for n in ast.walk(sub) if isinstance(n, ast.Call) and dotted(n.func) and not (dotted(n.func) or "").startswith(("np.", "abs", "len", "max", "min"))]
            if not uses_t and not calls_out and any(isinstance(n, ast.Compare) and isinstance(n.ops[0], (ast.Lt, ast.LtE, ast.Gt, ast.GtE)) for n in ast.walk(sub)):
                return (False, {"accepted by": show(v), "why": f"`{v[1]}` passes a matrix whose off-diagonal terms are below a threshold relative to the diagonal without "
                                                                "comparing it with its transpose: non-symmetric off-diagonal terms are written as half storage and "
                                                                "come back mirrored"}, node)
        return (None, f"predicate {show(v)}")
    return (None, f"predicate {show(v)}")


# ====================================================================================================================== R4
def r4_sequence_coverage(ctx):
    """writers that cut a sequence into lines / THRU items: every element is written exactly once, in order, and every template has as
    many fields as it is given values"""
    _nasints(ctx)
    _thru(ctx, "wtset", "ids")
    _thru(ctx, "_wt_with_thru", "seq")


def _count_check(ctx, q, e, label):
    """a `.format` event: number of replacement fields == number of values supplied, under the facts at the call"""
    nf, na = e.d.get("nfields"), e.d.get("nargs")
    inst = f"{q}: the {label} template has as many fields as it is given values"
    if nf is None or na is None:
        ctx.error(inst, e.node, "field / value count not derived")
        return
    d = nf - na
    if M.proves_zero(d, e.facts):
        ctx.ok(inst, e.node)
        return
    syms = M.free_symbols(d)
    w = M.find_witness(syms, e.facts, lambda a: M.lin_eval(d, a) not in (None, 0), limit=36) if len(syms) <= 3 else None
    if w is not None:
        ctx.fail(inst, e.node, {"fields": show(nf), "values": show(na), "differ for": {show(k): v for k, v in w.items()},
                                "consequence": "str.format silently drops surplus values (or raises IndexError when there are too few)"})
    else:
        ctx.error(inst, e.node, {"fields": show(nf), "values": show(na)})


def _nasints(ctx):
    q = "wtnasints"
    fn = ctx.src.func(BULK, q)
    E = engine(ctx, BULK, q)
    ints = ("sym", "ints")
    N = lin(("len", ints))
    fm = [e for e in E.events("format") if e.d.get("items") is not None]
    by_node = {}
    for e in fm:
        by_node.setdefault(id(e.node), []).append(e)
    if len(by_node) < 2:
        raise AnchorError("wtnasints: formatted writes")
    labels = {}
    for evs in by_node.values():
        e = evs[0]
        star = [a for a in e.d["args"] if isinstance(a, tuple) and a[:1] == ("star",)]
        sl = star[0][1] if star else None
        if isinstance(sl, tuple) and sl[:1] == ("slice",) and sl[2] == Lin() and not e.loops:
            label = "first-line"
        elif e.loops:
            label = "full continuation line"
        elif isinstance(sl, tuple) and sl[:1] == ("slice",):
            label = "last-line"
        else:
            label = "single-line"
        k = 2
        base = label
        while label in labels.values():
            label = f"{base} #{k}"
            k += 1
        labels[id(e.node)] = label
    for nid, evs in by_node.items():
        for e in evs[:1]:
            pass
        # all paths through the same call
        worst = None
        for e in evs:
            nf, na = e.d.get("nfields"), e.d.get("nargs")
            if nf is None or na is None or not M.proves_zero(nf - na, e.facts):
                worst = e
                break
        _count_check(ctx, q, worst or evs[0], labels[nid])
    # line capacity: a continuation line holds the blank head + at most 8 integers, the first line at most 10 - start
    start = lin(("sym", "start"))
    okc, det, node = True, None, fn
    for e in fm:
        items = e.d["items"]
        nints = M.count_fields([it for it in items if not (it[0] == "field" and it[1] is not None and it[1].type == "s")])
        heads = [it for it in items if it[0] == "field" and it[1] is not None and it[1].type == "s"]
        widths_ok = all(it[1] is not None and it[1].width == 8 for it in _all_fields(items))
        text = "".join(it[1] for it in items if it[0] == "text")
        cap = Lin(c=8) if heads else (Lin(c=10) - start)
        if nints is None or not widths_ok or text != "\n" or len(heads) > 1 or (heads and items[0] is not heads[0]):
            okc, det, node = False, {"template": repr(e.d["template"])}, e.node
            continue
        if not M.proves_ge0(cap - nints, e.facts):
            okc, node = False, e.node
            det = {"integers on the line": show(nints), "capacity": show(cap)}
    ctx.check(okc, "wtnasints: every line is made of 8-column fields, the first holds at most 10 - start integers, a continuation line a blank head + at most 8", node, det)
    # tiling: the slices written follow each other and start at 0
    _tiling(ctx, E, q, ints, fn)


def _all_fields(items):
    for it in items:
        if it[0] == "field":
            yield it
        elif it[0] == "rep":
            yield from _all_fields(it[1])


def _tiling(ctx, E, q, seq, fn):
    """each path writes consecutive slices seq[a:b] whose bounds chain: first a = 0, next a = previous b (through loops by induction on the
    loop counter)"""
    N = lin(("len", seq))
    ok, det, node = True, None, fn
    npaths = 0
    for s in E.finals:
        if s.status not in ("run", "return"):
            continue
        npaths += 1
        wp = Lin()          # written up to (exclusive)
        loop_entry = {}
        for e in s.events:
            if e.kind == "while":
                # induction hypothesis: at the head of the loop the counter equals the position written so far
                cnt = [nm for nm, v in e.d["pre"].items() if isinstance(v, Lin) and v == wp]
                if cnt:
                    loop_entry[e.d["loop"]] = cnt[0]
                    wp = lin(e.d["env"][cnt[0]])
            elif e.kind == "loopend" and e.d["loop"] in loop_entry:
                nm = loop_entry[e.d["loop"]]
                if lin(e.d["env"][nm]) != wp:
                    ok, node = False, e.node
                    det = {"loop counter after one pass": show(e.d["env"][nm]), "written up to": show(wp)}
            elif e.kind == "loopexit" and e.d["loop"] in loop_entry:
                wp = lin(e.d["env"][loop_entry[e.d["loop"]]])
            elif e.kind == "format" and e.d.get("items") is not None:
                star = [a for a in e.d["args"] if isinstance(a, tuple) and a[:1] == ("star",)]
                if not star:
                    continue
                v = star[0][1]
                if v == seq:
                    a, b = Lin(), N
                elif isinstance(v, tuple) and v[:1] == ("slice",) and M.origin(v[1]) == seq and v[4] == Lin(c=1):
                    a = lin(v[2])
                    b = N if v[3] == ("k", None) else M.mk_min([lin(v[3]), N], e.facts)
                else:
                    ok, det, node = False, {"values written": show(v)}, e.node
                    continue
                if a != wp:
                    ok, node = False, e.node
                    det = {"slice starts at": show(a), "written up to": show(wp)}
                wp = b
        # a path that stops early must have nothing left:  facts imply wp >= N
        if wp != N:
            lo, hi = M.bounds(wp - N, s.facts)
            if not (lo is not None and lo >= 0):
                syms = M.free_symbols(wp - N)
                w = M.find_witness(syms, s.facts, lambda a_: (M.lin_eval(wp - N, a_) is not None and M.lin_eval(wp - N, a_) < 0), limit=30) if len(syms) <= 3 else None
                # havoc symbols over-approximate the loop: only report when no loop symbol is involved
                if w is not None and not any("@" in show(k) for k in w):
                    ok, node = False, fn
                    det = {"written up to": show(wp), "length": show(N), "elements left for": {show(k): v for k, v in w.items()}}
    ctx.check(ok and npaths > 0, f"{q}: the slices written follow each other without gap or overlap, starting at element 0", node, det)


def _thru(ctx, q, seqname):
    """THRU compression loop: each pass emits the run [start, end] (or the single element start) and advances `start` past what it emitted"""
    fn = ctx.src.func(BULK, q)
    E = engine(ctx, BULK, q)
    seq = ("sym", seqname)
    whiles = [e for e in E.events("while")]
    if not whiles:
        raise AnchorError(f"{q}: item loop")
    ok, det, node = True, None, whiles[0].node
    npass = 0
    runs = singles = 0
    for s_end in E.events("loopend"):
        lid = s_end.d["loop"]
        w = [e for e in whiles if e.d["loop"] == lid]
        if not w or len(s_end.loops) != 1:
            continue
        w = w[0]
        # the cursor: the loop variable that indexes the sequence
        body = [e for e in E.events() if lid in e.loops and e.seq < s_end.seq and set(e.facts) <= set(s_end.facts)]
        emitted = []
        for e in body:
            vals = []
            if e.kind == "call" and e.d["attr"] in ("append", "extend"):
                for a in e.d["args"]:
                    vals.extend(_seq_elems(a, seq))
            if vals:
                emitted.append((e, vals))
        if not emitted:
            continue
        npass += 1
        idxs = [i for _, vs in emitted for i in vs]
        first, last = idxs[0], idxs[-1]
        thru = any(_has_thru(a) for e, _ in emitted for a in e.d["args"])
        cursor = [nm for nm, v in w.d["env"].items() if lin(v) == first]
        if not cursor:
            ok, det, node = False, {"first element written": show(first)}, emitted[0][0].node
            continue
        nm = cursor[0]
        new = lin(s_end.d["env"][nm])
        covered_to = last if (thru or len(idxs) > 1) else first
        if thru:
            runs += 1
        else:
            singles += 1
        want = covered_to + 1
        d = new - want
        if not M.proves_zero(d, s_end.facts):
            syms = M.free_symbols(d)
            wit = M.find_witness(syms, s_end.facts, lambda a_: M.lin_eval(d, a_) not in (None, 0), limit=12) if len(syms) <= 3 else None
            if wit is not None:
                ok, node = False, emitted[-1][0].node
                det = {"written": f"{show(first)}" + (f" THRU {show(last)}" if thru else ""), "cursor advanced to": show(new), "should be": show(want),
                       "differ for": {show(k): v for k, v in wit.items()}, "consequence": "elements between are never written" if True else ""}
            else:
                ctx.error(f"{q}: cursor update", s_end.node, {"cursor advanced to": show(new), "should be": show(want)})
        if thru and first == last:
            ok, det = False, {"THRU item": show(first)}
    ok = ok and runs >= 1 and singles >= 1
    ctx.check(ok, f"{q}: each pass writes ids[start] (or ids[start] THRU ids[end]) and moves the cursor just past what it wrote, so no id is skipped or repeated", node, det)


def _seq_elems(v, seq):
    """indices of the elements of `seq` a value contains, in order"""
    out = []
    if isinstance(v, S):
        for x in v.p:
            if x[0] == "fv":
                out.extend(_seq_elems(x[2], seq))
    elif isinstance(v, tuple) and v:
        if v[0] == "elem" and M.origin(v[1]) == seq and not (isinstance(v[2], tuple) and v[2][:1] in (("tuple",), ("sl",))):
            out.append(lin(v[2]))
        elif v[0] == "tuple":
            for x in v[1]:
                out.extend(_seq_elems(x, seq))
    return out


def _has_thru(v):
    if isinstance(v, S):
        return any(x[0] == "lit" and "THRU" in x[1] for x in v.p)
    if isinstance(v, tuple) and v and v[0] == "tuple":
        return any(_has_thru(x) for x in v[1])
    return False


RULES = [
    ("C13-R1", r1_templates, 31),
    ("C13-R2", r2_nonempty_vector, 4),
    ("C13-R3", r3_reader_strides, 8),
    ("C13-R4", r4_sequence_coverage, 7),
]
LEVEL = "other"
EXPLANATION = ("Static: every hard-wired or default floating-point format in the bulk writers is checked to fit its field over all finite doubles "
               "(E5 width bound); wttabled1/wtgrids line templates obey the 8 + n*W card grid and the leftover arithmetic keeps ENDT on the card; "
               "vectorised writes that can receive an empty vector are guarded (derived from vecwrite's own summary); typed readers index the fields "
               "the writers fill; the DMIG half-storage test matches the reader's mirror; list writers (wtnasints, wtset, _wt_with_thru) emit every "
               "element exactly once and give every template as many values as it has fields.  All rules are decided on symbolic values "
               "(templates, linear integer forms, path facts), not on source text.")
MANIFEST = {
    "text": "Partial claim decided statically: (R1) width of every floating-point spec over the whole double range, card-grid arithmetic of wttabled1/wtgrids "
            "templates, leftover-pair range; (R2) non-empty-vector contract of writer.vecwrite at its call sites; (R3) reader strides vs writer layout, DMIG "
            "symmetry test vs reader mirror, form-6 start row, D exponent; (R4) wtnasints line wrapping (field count = value count, capacity, consecutive slices) "
            "and the THRU cursor of wtset/_wt_with_thru. Known findings (default/hard-wired formats narrower than the value domain) are "
            "listed in known_findings.json. Not decided: run detection of _find_sequence on data, DMIG index ordering on data, precision of values, "
            "uset2bulk/bulk2uset coordinate chains.",
    "note": "Trusted: CPython ast; Python format-spec semantics ('E' exponents have at least two digits and three below 1e-99/above 1e+99).",
    "technique": "symbolic evaluation of string templates and integer extents with path facts + format-width abstract interpretation + call-site "
                 "contracts derived from the callee's summary",
}
