"""C13 -- bulk-data writers <-> readers (partial claim)."""
from __future__ import annotations

import ast
import re

from .core import AnchorError, Unsupported
from .e1_srcmodel import dotted, walk_no_nested, parent, ancestors, enclosing_stmt, utext

BULK = "pyyeti/nastran/bulk.py"
WRITER = "pyyeti/writer.py"

FSPEC = re.compile(r"\{[^{}:]*:(?P<flags>[<>^]?)(?P<alt>#?)(?P<w>\d+)(?:\.(?P<p>\d+))?(?P<t>[eEfFdsgG]?)\}")


def max_width(W, P, t):
    """widest rendering of a finite double under {:W.Pt}; None = unbounded"""
    if t in ("e", "E"):
        # [-]d.PPP E [+-] ddd   (three-digit exponents exist below 1e-99 and above 1e+99)
        return max(W, 1 + 1 + 1 + P + 1 + 1 + 3)
    if t in ("f", "F"):
        return None
    return W


def f_limit(W, P):
    """`{:W.Pf}` stays within W characters iff -10^(W-P-2) < x < 10^(W-P-1) (roughly)"""
    return W - P - 1, W - P - 2


def _specs_in_string(s):
    return [(m.group(0), int(m.group("w")), int(m.group("p")) if m.group("p") else None, m.group("t")) for m in FSPEC.finditer(s)]


def _fstring_specs(js):
    out = []
    for v in js.values:
        if isinstance(v, ast.FormattedValue) and v.format_spec is not None and all(isinstance(x, ast.Constant) for x in v.format_spec.values):
            txt = "".join(x.value for x in v.format_spec.values)
            m = re.match(r"^[<>^]?#?(\d+)(?:\.(\d+))?([eEfFdsgG]?)$", txt)
            if m:
                out.append((txt, int(m.group(1)), int(m.group(2)) if m.group(2) else None, m.group(3), v))
    return out


def r1_templates(ctx):
    m = ctx.src.mod(BULK)
    # ---- hard-wired floating-point specs in writer functions, and defaults of `form` parameters
    n = 0
    seen = set()

    class _Once:
        """one obligation per distinct (function, spec): a default like "{:16.9E}{:16.9E}" repeats its spec"""
        def check(self, ok, inst, where, detail=None, key=None):
            if key in seen:
                return ok
            seen.add(key)
            return ctx.check(ok, inst, where, detail, key=key)

        def fail(self, inst, where, detail=None, key=None):
            if key in seen:
                return
            seen.add(key)
            ctx.fail(inst, where, detail, key=key)

    once = _Once()
    for q, fn in sorted(m.funcs.items()):
        if not (q.startswith("wt") or q.startswith("_wt")):
            continue
        # default format parameters
        defaults = fn.args.defaults
        names = [a.arg for a in fn.args.args][len(fn.args.args) - len(defaults):]
        for nm, dv in zip(names, defaults):
            if nm == "form" and isinstance(dv, ast.Constant) and isinstance(dv.value, str):
                for txt, W, P, t in _specs_in_string(dv.value):
                    if t in ("e", "E", "f", "F") and P is not None:
                        n += 1
                        mw = max_width(W, P, t)
                        if mw is None:
                            hi, lo = f_limit(W, P)
                            once.fail(f"{q}: default form `{txt}` fits its {W}-character field for every finite value", fn,
                                     f"fixed notation grows with magnitude: {W + 1} characters for any value >= 1e{hi} or <= -1e{lo}; the reader then "
                                     "loses the following field (silent corruption)", key=f"C13-R1|{q}|default form {txt}")
                        else:
                            ok = mw <= W
                            once.check(ok, f"{q}: default form `{txt}` fits its {W}-character field for every finite value", fn,
                                      None if ok else f"a negative value with a three-digit exponent renders {mw} characters (e.g. -1e-100)",
                                      key=f"C13-R1|{q}|default form {txt}")
        for node in walk_no_nested(fn):
            if isinstance(node, ast.JoinedStr):
                for txt, W, P, t, fv in _fstring_specs(node):
                    if t in ("e", "E", "f", "F") and P is not None:
                        n += 1
                        mw = max_width(W, P, t)
                        ok = mw is not None and mw <= W
                        once.check(ok, f"{q}: hard-wired spec `{{{ast.unparse(fv.value)}:{txt}}}` fits its {W}-character field for every finite value", node,
                                  None if ok else (f"a negative value with a three-digit exponent renders {mw} characters" if mw else "fixed notation is unbounded"),
                                  key=f"C13-R1|{q}|spec {ast.unparse(fv.value)}:{txt}")
            elif isinstance(node, ast.Constant) and isinstance(node.value, str) and "{" in node.value and not isinstance(parent(node), ast.JoinedStr) \
                    and not isinstance(parent(node), (ast.Expr, ast.arguments)):
                for txt, W, P, t in _specs_in_string(node.value):
                    if t in ("e", "E", "f", "F") and P is not None:
                        n += 1
                        mw = max_width(W, P, t)
                        ok = mw is not None and mw <= W
                        once.check(ok, f"{q}: template spec `{txt}` fits its {W}-character field for every finite value", node,
                                  None if ok else (f"renders up to {mw} characters" if mw else "fixed notation is unbounded"),
                                  key=f"C13-R1|{q}|template {txt}@{node.value[:20]!r}")
    ctx.check(n >= 8, f"format-width rule bound to {n} floating-point specs in writer functions", BULK + ":1", nontrivial=False)
    # ---- wttabled1: line templates are 8 + 64 columns and the user `form` is validated
    fn = ctx.src.func(BULK, "wttabled1")
    guard = [s for s in fn.body if isinstance(s, ast.If) and any(isinstance(x, ast.Raise) for x in s.body)
             and "n!=16andn!=32" in ast.unparse(s.test).replace(" ", "")]
    ndef = [s for s in fn.body if isinstance(s, ast.Assign) and ast.unparse(s.targets[0]) == "n"]
    ok = bool(guard) and bool(ndef) and ast.unparse(ndef[0].value).replace(" ", "") == "len(form.format(1,1))"
    ctx.check(ok, "wttabled1: a user `form` must render a pair in 16 or 32 characters", guard[0] if guard else fn)
    arms = [s for s in fn.body if isinstance(s, ast.If) and ast.unparse(s.test).replace(" ", "") == "n==32"]
    if len(arms) != 1:
        raise AnchorError("wttabled1: `if n == 32` arms")
    for label, body, pairw, per in (("large field", arms[0].body, 32, 2), ("small field", arms[0].orelse, 16, 4)):
        calls = [n_ for s in body for n_ in ast.walk(s) if isinstance(n_, ast.Call) and dotted(n_.func) == "writer.vecwrite"]
        if len(calls) != 1:
            ctx.error(f"wttabled1 [{label}]: vecwrite call", fn)
            continue
        tmpl = calls[0].args[1]
        # prefix + form * k + "\n"
        parts = []
        t = tmpl
        while isinstance(t, ast.BinOp) and isinstance(t.op, ast.Add):
            parts.insert(0, t.right)
            t = t.left
        parts.insert(0, t)
        ok = len(parts) == 3 and isinstance(parts[0], ast.Constant) and len(parts[0].value) == 8 \
            and isinstance(parts[1], ast.BinOp) and isinstance(parts[1].op, ast.Mult) and ast.unparse(parts[1].left) == "form" \
            and isinstance(parts[1].right, ast.Constant) and parts[1].right.value == per and getattr(parts[2], "value", None) == "\n"
        ctx.check(ok, f"wttabled1 [{label}]: each full line is an 8-column head + {per} pairs of {pairw} = 72 columns", calls[0],
                  ast.unparse(tmpl))
        head = parts[0].value if isinstance(parts[0], ast.Constant) else ""
        ok = head[:1] in ("*", " ", "+") and (head[0] == "*") == (pairw == 32)
        ctx.check(ok, f"wttabled1 [{label}]: continuation head `{head}` is the one the reader expects for this field width", calls[0])
        # data arguments are the k interleaved strides of t and d
        args = [utext(a) for a in calls[0].args[2:]]
        want = []
        for i in range(per):
            s0 = "" if i == 0 else str(i)
            want += [f"t[{s0}:r:{per}]", f"d[{s0}:r:{per}]"]
        ctx.check(args == want, f"wttabled1 [{label}]: the vectorised write interleaves t and d with stride {per}", calls[0], args)
        # leftover pairs: r = per * (npts // per)  =>  0 <= npts - r <= per - 1, so ENDT still fits on the last line
        rows = [s for s in body if isinstance(s, ast.Assign) and ast.unparse(s.targets[0]) == "rows"]
        rdef = [s for s in body if isinstance(s, ast.Assign) and ast.unparse(s.targets[0]) == "r"]
        rng = None
        if rows and rdef:
            rng = _leftover_range(rows[0].value, rdef[0].value, per)
        ok = rng is not None and rng[0] >= 0 and rng[1] <= per - 1
        ctx.check(ok, f"wttabled1 [{label}]: after the full lines 0..{per - 1} pairs remain, so the pairs and ENDT fit in the {per * 2} fields of the last line",
                  rows[0] if rows else fn, None if ok else {"leftover pairs range": rng, "rows": ast.unparse(rows[0].value) if rows else None})
        loop = [s for s in body if isinstance(s, ast.For)]
        ok = bool(loop) and ast.unparse(loop[0].iter).replace(" ", "") == "range(r,npts)" and \
            "f.write(form.format(t[j],d[j]))" in ast.unparse(loop[0]).replace(" ", "")
        ctx.check(ok, f"wttabled1 [{label}]: the leftover pairs r..npts-1 are written one by one on the last line", loop[0] if loop else fn)
    last = fn.body[-1]
    ok = utext(last).replace("'", '"') == 'f.write("ENDT\\n")'
    ctx.check(ok, "wttabled1: ENDT closes the table", last)
    # ---- wtgrids templates: 8 + n*W with W validated
    fn = ctx.src.func(BULK, "wtgrids")
    strs = [s for s in walk_no_nested(fn) if isinstance(s, ast.Assign) and ast.unparse(s.targets[0]) == "string"]
    for s in strs:
        lines = _template_lines(s.value)
        if lines is None:
            ctx.error("wtgrids: template shape", s)
            continue
        for ln in lines:
            W = 16 if ln["head"].rstrip().endswith("*") or ln["head"].startswith("*") else 8
            per = 4 if W == 16 else 8
            ok = len(ln["head"]) == 8 and ln["fields"] <= per and all(w == W for w in ln["widths"])
            ctx.check(ok, f"wtgrids: line `{ln['head']}` has an 8-column head and {ln['fields']} <= {per} fields of width {W}", s, ln)
    g = [s for s in fn.body if isinstance(s, ast.If) and any(isinstance(x, ast.Raise) for x in s.body)
         and "length!=8andlength!=16" in ast.unparse(s.test).replace(" ", "")]
    ctx.check(bool(g), "wtgrids: a user `form` must render in 8 or 16 characters", g[0] if g else fn)


def _leftover_range(rows_expr, r_expr, per):
    """rows = (npts + c) // q ; r = rows * q  ->  range of npts - r over npts >= 1"""
    c = 0
    e = rows_expr
    if not (isinstance(e, ast.BinOp) and isinstance(e.op, ast.FloorDiv) and isinstance(e.right, ast.Constant)):
        return None
    q = e.right.value
    num = e.left
    if isinstance(num, ast.Name) and num.id == "npts":
        c = 0
    elif isinstance(num, ast.BinOp) and isinstance(num.left, ast.Name) and num.left.id == "npts" and isinstance(num.right, ast.Constant):
        c = num.right.value if isinstance(num.op, ast.Add) else -num.right.value if isinstance(num.op, ast.Sub) else None
        if c is None:
            return None
    else:
        return None
    rt = utext(r_expr)
    if rt not in (f"rows*{q}", f"{q}*rows") or q != per:
        return None
    # npts - q*floor((npts+c)/q) ranges over [-c, -c + q - 1]
    return (-c, -c + q - 1)


def _template_lines(node):
    """"GRID*   {:16d}{:16d}" + form * 2 + "\n*       " + form + "{:16d}\n"  -> list of physical lines"""
    parts = []
    t = node
    while isinstance(t, ast.BinOp) and isinstance(t.op, ast.Add):
        parts.insert(0, t.right)
        t = t.left
    parts.insert(0, t)
    seq = []   # tokens: ('txt', str) | ('form', k)
    for p_ in parts:
        if isinstance(p_, ast.Constant) and isinstance(p_.value, str):
            seq.append(("txt", p_.value))
        elif isinstance(p_, ast.Name) and p_.id == "form":
            seq.append(("form", 1))
        elif isinstance(p_, ast.BinOp) and isinstance(p_.op, ast.Mult) and ast.unparse(p_.left) == "form" and isinstance(p_.right, ast.Constant):
            seq.append(("form", p_.right.value))
        else:
            return None
    lines = [{"head": None, "fields": 0, "widths": []}]
    for kind, v in seq:
        if kind == "form":
            lines[-1]["fields"] += v
            continue
        segs = v.split("\n")
        for i, sg in enumerate(segs):
            if i > 0:
                lines.append({"head": None, "fields": 0, "widths": []})
            if not sg:
                continue
            cur = lines[-1]
            rest = sg
            if cur["head"] is None:
                cur["head"] = sg[:8]
                rest = sg[8:]
            for m in re.finditer(r"\{:[<>^]?(\d+)[a-z]?\}", rest):
                cur["fields"] += 1
                cur["widths"].append(int(m.group(1)))
    return [ln for ln in lines if ln["head"] is not None]


def r2_nonempty_vector(ctx):
    """writer.vecwrite treats a zero-length vector as length 1 and then indexes element 0"""
    fn = ctx.src.func(WRITER, "vecwrite")
    init = [s for s in fn.body if isinstance(s, ast.Assign) and ast.unparse(s.targets[0]) == "length"]
    ups = [s for s in ast.walk(fn) if isinstance(s, ast.Assign) and ast.unparse(s.targets[0]) == "length" and s not in init]
    guarded = all(any(isinstance(a, ast.If) and ast.unparse(a.test).replace(" ", "") == "curlen>1" for a in ancestors(u)) for u in ups)
    summary = bool(init) and ast.unparse(init[0].value) == "1" and bool(ups) and guarded
    item = ctx.src.func(WRITER, "vecwrite._get_itemi")
    summary = summary and "a[i]" in ast.unparse(item)
    ctx.check(summary, "vecwrite summary: `length` starts at 1 and is raised only by a vector longer than 1, and vector arguments are indexed "
                       "with a[i] => a zero-length vector argument raises IndexError", fn)
    if not summary:
        ctx.note("vecwrite no longer has the empty-vector hazard; call-site guards are not required")
        return
    # call sites whose vector arguments can be empty: slices bounded by r = q * (npts // q)
    m = ctx.src.mod(BULK)
    nsites = 0
    for q, f2 in sorted(m.funcs.items()):
        for c in walk_no_nested(f2):
            if isinstance(c, ast.Call) and dotted(c.func) == "writer.vecwrite":
                sl = [a for a in c.args[2:] if isinstance(a, ast.Subscript) and isinstance(a.slice, ast.Slice) and a.slice.upper is not None
                      and isinstance(a.slice.upper, ast.Name)]
                if not sl:
                    continue
                bound = sl[0].slice.upper.id
                # is the bound a floor-division product that can be zero?
                defs = [s for s in ast.walk(f2) if isinstance(s, ast.Assign) and ast.unparse(s.targets[0]) == bound]
                canzero = any("rows*" in ast.unparse(d.value).replace(" ", "") or "*rows" in ast.unparse(d.value).replace(" ", "") for d in defs)
                if not canzero:
                    continue
                nsites += 1
                st = enclosing_stmt(c)
                doms = [ast.unparse(a.test).replace(" ", "") for a in ancestors(st) if isinstance(a, ast.If) and _in_body(a, st)]
                ok = any(t in ("rows", "rows>0", "r", "r>0", f"{bound}>0", "rows!=0", "rows>=1") for t in doms)
                label = "large field" if any("n==32" == t for t in doms) else "small field"
                ctx.check(ok, f"{q} [{label}]: the vectorised write of `{ast.unparse(sl[0])}` ... is executed only when there is at least one full line "
                              f"(`{bound}` = q*(npts//q) can be 0)", c,
                          None if ok else f"`{bound}` is 0 for fewer points than fit on one line; vecwrite then indexes an empty array (IndexError): "
                                          "a table with < 4 points (small field) or 1 point (large field) cannot be written",
                          key=f"C13-R2|{q}|{label}|unguarded vecwrite on {bound}")
    ctx.check(nsites >= 2, f"non-empty vector contract bound to {nsites} call sites", BULK + ":1", nontrivial=False)


def _in_body(ifnode, node):
    return any(node is x or any(node is y for y in ast.walk(x)) for x in ifnode.body)


def r3_reader_strides(ctx):
    fn = ctx.src.func(BULK, "rdtabled1")
    txt = utext(fn)
    ok = "np.vstack([vec[8:-1:2],vec[9:-1:2]]).T" in txt
    ctx.check(ok, "rdtabled1: abscissae are fields 8,10,... and ordinates fields 9,11,... up to (not including) the final ENDT field", fn)
    # writer side: the first pair is the first field of the first continuation line = field index 8
    w = ctx.src.func(BULK, "wttabled1")
    heads = [n for n in ast.walk(w) if isinstance(n, ast.JoinedStr) and "tablestr" in ast.unparse(n)]
    for h in heads:
        s = ast.unparse(h)
        ok = s.endswith("\\n'") or s.endswith('\\n"') or "\\n*\\n" in s
        ctx.check(ok, "wttabled1: the header card line holds only name + id, so the first pair starts field 8 (second line)", h)
    # rdgrids pads to 8 columns; wtgrids writes at most 8 fields after the name
    fn = ctx.src.func(BULK, "rdgrids")
    txt = utext(fn)
    ok = "ifc<8:" in txt and "np.zeros((np.size(v,0),8-c))" in txt
    ctx.check(ok, "rdgrids pads short GRID cards to 8 columns", fn)
    # DMIG: the writer's symmetry test must match the reader's mirror (plain transpose, no conjugation)
    wd = ctx.src.func(BULK, "wtdmig")
    tests = [n for n in ast.walk(wd) if isinstance(n, ast.Call) and dotted(n.func) == "np.allclose"]
    form6 = None
    for t in tests:
        p_ = parent(t)
        if isinstance(p_, ast.If) and any(isinstance(s, ast.Assign) and utext(s) == "form=6" for s in p_.body):
            form6 = t
    if form6 is None:
        ctx.error("wtdmig: symmetric (form 6) test", wd)
    else:
        a = {utext(x) for x in form6.args[:2]}
        ok = a in ({"m", "m.transpose()"}, {"m", "m.T"})
        rd = ctx.src.func(BULK, "rddmig._cards_to_df")
        mir = [s for s in ast.walk(rd) if isinstance(s, ast.Assign) and ast.unparse(s.targets[0]).replace(" ", "") == "mat[ci,ri]"]
        prim = {ast.unparse(s.value) for s in ast.walk(rd) if isinstance(s, ast.Assign) and ast.unparse(s.targets[0]).replace(" ", "") == "mat[ri,ci]"}
        plain = bool(mir) and all(ast.unparse(s.value) in prim for s in mir) and \
            all(any(isinstance(a_, ast.If) and ast.unparse(a_.test).replace(" ", "") == "form==6" for a_ in ancestors(s)) for s in mir)
        ctx.check(plain, "rddmig: a form-6 entry (i, j) is mirrored to (j, i) unchanged (plain symmetry)", mir[0] if mir else rd)
        ctx.check(ok, "wtdmig: a matrix is written as form 6 (half storage) only if it equals its plain transpose - the reader mirrors "
                      "without conjugation", form6, sorted(a))
    # wtdmig: start row of the lower triangle and the header
    txt = utext(wd)
    ok = "start_row=colifform==6else0" in txt and "forrowinrange(start_row,m.shape[0])" in txt
    ctx.check(ok, "wtdmig: form 6 writes rows col..n-1 of each column (one of each (i,j)/(j,i) pair)", wd)
    ok = "num_str.replace('E','D')" in txt and "ifmtype&1==0" in txt
    ctx.check(ok, "wtdmig: double-precision types (even mtype) use the D exponent", wd)


RULES = [
    ("C13-R1", r1_templates, 27),
    ("C13-R2", r2_nonempty_vector, 4),
    ("C13-R3", r3_reader_strides, 8),
]
LEVEL = "other"
EXPLANATION = ("Static: every hard-wired or default floating-point format in the bulk writers is checked to fit its field over all finite doubles "
               "(E5 width bound); wttabled1/wtgrids line templates obey the 8 + n*W card grid and the leftover arithmetic keeps ENDT on the card; "
               "vectorised writes that can receive an empty vector are guarded (derived from vecwrite's own summary); typed readers index the fields "
               "the writers fill; the DMIG half-storage test matches the reader's mirror.")
MANIFEST = {
    "text": "Partial claim decided statically: (R1) width of every floating-point spec over the whole double range, card-grid arithmetic of wttabled1/wtgrids "
            "templates, leftover-pair range; (R2) non-empty-vector contract of writer.vecwrite at its call sites; (R3) reader strides vs writer layout, DMIG "
            "symmetry test vs reader mirror, form-6 start row, D exponent. Known findings (default/hard-wired formats narrower than the value domain) are "
            "listed in known_findings.json. Not decided: THRU compression on arbitrary id lists, DMIG index ordering on data, precision of values, "
            "uset2bulk/bulk2uset coordinate chains.",
    "note": "Trusted: CPython ast; Python format-spec semantics ('E' exponents have at least two digits and three below 1e-99/above 1e+99).",
    "technique": "static format-width abstract interpretation + card-template arithmetic + call-site dominance rules derived from the callee's summary",
}
