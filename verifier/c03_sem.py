"""Value-level evaluation helpers of the C03 rules (shock response spectrum, pyyeti/srs.py).

`Ev3` is `e2_eval.AutoEvaluator` plus what the srs module needs so that a rule can run a whole function (`srs`, `vrs`, a `_dosrs*`
worker, a coefficient function) on symbols, once per *regime* of its option arguments, and read off the values that reach `lfilter`, the
peak function, the response-history stores and the `return`:

  * module-level constants / literal tables and module-level helpers are followed in the callees too (an inlined callee sees the same
    constants; a helper without `return` is a procedure; `x += v` on an array *parameter* of a helper is visible in the caller);
  * `a, b = f(x)` on an opaque value gives idx(value, 0), idx(value, 1); a call through a local that holds a value (`coeffunc(Q, dT, w)`,
    `ifunc(Fn)`) is apply(value of the callee, arguments) - the spelling of the local does not enter;
  * `for k, x in enumerate(A)` / `for k in range(n)` / `for x in A` are evaluated once for a generic iteration with x = idx(A, k);
    `with` bodies are evaluated;
  * option strings are values: a parameter seeded with the string 'steady' makes `ic == "steady"`, `ic != "zero"`, `ic in (...)`,
    `isinstance(peak, str)` and `TABLE[ic]` decidable; constants decide comparisons; a test that stays undecided is explored both ways by
    `explore()` (arms that only `raise` are not explored: they return nothing);
  * arrays and dictionaries that are filled by subscript stores are *objects with a name of their own*: a local of an inlined helper gets a name built
    from the call path (`out@_zeros/1076.31`), its creation is in env["<init:name>"], its stores in `cells` under that name; a caller's name bound to
    what the helper returns denotes that object (`resp, hist = _init_resp(...)`; `resp["hist"] = ...` afterwards continues the same object), a helper's
    array *parameter* denotes the caller's object.  So a dictionary or array built in a helper - under whatever name - and one built in place give the
    same entries;
  * module state: names declared `global` and bound in an initializer (or in a helper it calls) are visible in the worker and in the helpers the worker
    calls (`Sem3(..., module_state=...)`);
  * module-level constants may be bound to any control-flow-free expression (`dict(abs=_absmeth, ...)`, `dict(zip(KEYS, FUNCS))`, tuples, messages);
    literal tables are looked up with string, integer, bool and None keys; `(a, b)[flag]` / `[a, b][1 if flag else 0]` select by a decided value;
    tuple / list *displays* concatenate with `+` / `+=` (`result += (resp,)`) and splice with `*`; `bool(x)` / `int(flag)` of a decided value are decided;
  * counted `while k < n: ...; k += 1` loops are evaluated once for a generic k like `for k in range(n)`; `for k, x in zip(range(n), X)` binds x = idx(X, k);
    `try` bodies are evaluated on the path on which nothing is raised; an inlined helper whose `return` sits in a construct that is not evaluated gives
    Unknown (never None);
  * array bookkeeping is normalised: `X.shape[0]`, `len(X)`, `np.shape(X)[0]` are rows(X) with rows(vstack((A, B))) = rows(A) + rows(B) and
    rows(zeros((n, H))) = n; reductions in method or function form; `(m).nonzero()[0]`, `np.nonzero(m)[0]`, `np.where(m)[0]`,
    `np.flatnonzero(m)` select by the mask m; `.T`, `np.transpose`, `.reshape`, `.ravel` do not change an element-wise value.

  * effects are followed, or the target becomes Unknown (pass 4): `np.f(x, y, out=T)` / `T.fill(v)` / `np.copyto(T, v)` store into what T denotes - an
    array object, a row / entry of one (`for row in A:`, `h = d["k"]`: a *view*, also through `T[...] = v` and `T op= v`), a local bound to an array object
    (`x = X`, `for x in (X, Y):`), or a local that holds a value (every local bound to the very same value follows); `A[mask]` / `A[index vector]` is a copy:
    what is written through it is lost, as in numpy; an index whose kind is not known stores Unknown; list.append / extend / insert, dict.update / setdefault
    on displays and tables; a name that is only ever written as a whole (`X[...] = v`) is an ordinary local;
  * function values: lambdas (also as entries of local and module-level tables), nested functions (closures over the defining scope, evaluated where
    called), functools.partial; `*display` / `**table` in calls of helpers; comprehensions, `enumerate` / `zip` / `.items()` over displays and tables are
    enumerated, loops over displays are executed element by element; `match` statements and chained comparisons are if / and chains; methods, indexing,
    `in`, `%` and f-strings on string *literals* with constant arguments are computed; `x is None` is decided for numbers, displays, functions, arrays,
    arithmetic; True / False in arithmetic are 1 / 0; ufunc spellings of the operators, floor / ceil (= -floor(-x)) / `//`, np.full / np.tile / np.take,
    `X[i, :]`, `X[:1]` have one canonical value each;
  * `explore()` never takes an undecided test both ways when its value is Unknown or built from literals only (one way is infeasible and the evaluator does
    not know which): the evaluation is refused (exit 2) instead of judging a path that cannot occur.

Nothing of pyyeti is imported or executed."""
from __future__ import annotations

import ast
import copy

from . import e2_formula as F
from .core import Unsupported
from .e1_srcmodel import dotted
from .e2_eval import AutoEvaluator, DictValue, Unknown, is_unknown, need, _vec_binop
from .sem import module_consts, module_funcs, unfn

NONE, TRUE, FALSE = F.sym("None"), F.sym("True"), F.sym("False")


def S(text):
    """the value of the string literal `text`"""
    return F.sym(repr(text))


def str_of(v):
    """value -> the Python string it is the literal of, else None"""
    if v is None or is_unknown(v) or isinstance(v, (tuple, DictValue)):
        return None
    try:
        if not v.d.is_const() or v.d.const_value() != 1 or len(v.n.t) != 1:
            return None
        (m, c), = v.n.t.items()
        if c != 1 or len(m) != 1 or m[0][1] != 1:
            return None
        d = F.atom_desc(m[0][0])
    except Exception:  # noqa
        return None
    if d[0] == "s" and len(d[1]) >= 2 and d[1][0] in "'\"" and d[1][-1] == d[1][0]:
        try:
            return ast.literal_eval(d[1])
        except Exception:  # noqa
            return None
    return None


def sym_of(v):
    """value -> name when it is exactly one plain symbol, else None"""
    if v is None or is_unknown(v) or isinstance(v, (tuple, DictValue)):
        return None
    try:
        if not v.d.is_const() or v.d.const_value() != 1 or len(v.n.t) != 1:
            return None
        (m, c), = v.n.t.items()
        if c != 1 or len(m) != 1 or m[0][1] != 1:
            return None
        d = F.atom_desc(m[0][0])
    except Exception:  # noqa
        return None
    return d[1] if d[0] == "s" else None


def all_atoms(r):
    """every atom of a formula, including those inside the arguments of opaque applications"""
    out = set()
    todo = [r]
    while todo:
        v = todo.pop()
        for a in v.n.atoms() | v.d.atoms():
            if a in out:
                continue
            out.add(a)
            d = F.atom_desc(a)
            if d[0] == "fn":
                for k in d[2]:
                    if not isinstance(k, str):
                        todo.append(F.Rat(F._poly_from_key(k[1]), F._poly_from_key(k[2])))
            elif d[0] in ("exp", "sin", "cos", "sqrt"):
                todo.append(F.Rat(F._poly_from_key(d[1])))
    return out


def fn_names(r):
    """names of the opaque applications occurring anywhere in a formula"""
    return {F.atom_desc(a)[1] for a in all_atoms(r) if F.atom_desc(a)[0] == "fn"}


def sym_names(r):
    return {F.atom_desc(a)[1] for a in all_atoms(r) if F.atom_desc(a)[0] == "s"}


def depends(r, name):
    return name in sym_names(r)


def contains(r, atomvalue):
    """the formula r mentions (anywhere, also inside arguments) the atom that `atomvalue` consists of"""
    want = atomvalue.n.atoms()
    return bool(want) and want <= all_atoms(r)


def unresolved(*values):
    """applications inside the values whose callee the evaluator could not resolve to anything callable: apply(None, ...), apply(idx(TABLE, 'key'), ...),
    apply(call:lookup(...), ...).  A comparison that fails on such a value says nothing about the code: the rule reports it as not decided."""
    out = []
    for v in values:
        if v is None or is_unknown(v) or isinstance(v, DictValue):
            continue
        if isinstance(v, tuple):
            out.extend(unresolved(*v))
            continue
        for a in all_atoms(v):
            d = F.atom_desc(a)
            if d[0] != "fn" or d[1] != "apply" or not d[2] or isinstance(d[2][0], str):
                continue
            k = d[2][0]
            f = F.Rat(F._poly_from_key(k[1]), F._poly_from_key(k[2]))
            n = sym_of(f)
            bad = n in ("None", "True", "False") or str_of(f) is not None or f.is_const()
            if not bad and n is None:
                # an element of an argument tuple (idx(args, 1)) is a function value the caller supplied; the result of a call or of a look-up by a string
                # key is a selection the evaluator should have followed
                for b in all_atoms(f):
                    e = F.atom_desc(b)
                    if e[0] == "fn" and (e[1].startswith("call:") or (e[1] == "idx" and len(e[2]) == 2 and not isinstance(e[2][1], str)
                                                                       and str_of(F.Rat(F._poly_from_key(e[2][1][1]), F._poly_from_key(e[2][1][2]))) is not None)):
                        bad = True
            if bad:
                out.append(repr(F.Rat(F.Poly.atom(a)))[:200])
    return out


def input_free(v):
    """the value is built from literals only (numbers, strings, None / True / False, pi) - through operations the evaluator kept opaque: it has one fixed
    value, which the evaluator does not know"""
    for n in sym_names(v):
        if n in ("None", "True", "False", "pi") or (len(n) >= 2 and n[0] in "'\"" and n[-1] == n[0]):
            continue
        return False
    return True


def uninitialised(*values, handles=False):
    """`empty(shape)` atoms inside the values: the contents of a freshly allocated array taken as data - the stores that filled it were not followed, so a
    comparison that fails on such a value says nothing about the code"""
    out = []
    for v in values:
        if v is None or is_unknown(v) or isinstance(v, DictValue):
            continue
        if isinstance(v, tuple):
            out.extend(uninitialised(*v, handles=handles))
            continue
        if handles and (unfn(v) or ("",))[0] == "empty":
            continue                    # the allocation itself (a rule that looks at its shape), not its contents in arithmetic
        for a in all_atoms(v):
            d = F.atom_desc(a)
            if d[0] == "fn" and d[1] == "empty":
                out.append(repr(F.Rat(F.Poly.atom(a)))[:200])
    return out


def truth(v):
    """three-valued truth of a value: constants, None / True / False, string literals"""
    if v is None or is_unknown(v):
        return None
    if isinstance(v, tuple):
        return len(v) > 0
    if isinstance(v, DictValue):
        return len(v.d) > 0
    try:
        if v.is_const():
            return v.const_value() != 0
    except Exception:  # noqa
        return None
    n = sym_of(v)
    if n == "True":
        return True
    if n in ("False", "None"):
        return False
    s = str_of(v)
    if s is not None:
        return len(s) > 0
    return None


def _scalar_key(v):
    """('c', Fraction) / ('s', str) / ('n', None|True|False) for values two of which can be compared for equality with certainty"""
    if v is None or is_unknown(v) or isinstance(v, (tuple, DictValue)):
        return None
    try:
        if v.is_const():
            return ("c", v.const_value())
    except Exception:  # noqa
        return None
    s = str_of(v)
    if s is not None:
        return ("s", s)
    n = sym_of(v)
    if n in ("None", "True", "False"):
        return ("n", n)
    return None


class PyTuple(tuple):
    """the value of a tuple / list *display* (`(a, b)`, `[a]`): `+` concatenates two of them; what passes through a call (np.array(...)) is a vector"""


class LazySeq(Unknown):
    """a sequence every element of which is one expression of its position: a comprehension or `map(f, X)` over something that cannot be enumerated from the
    source (`[coeffunc(Q, dT, w) for w in wn]`).  `template` is the value of the element at the position `placeholder` (a symbol no source name can
    spell).  For every consumer it is an Unknown - nothing is concluded from it as a whole; only taking its generic element (`for x in seq`,
    `for k, x in enumerate(seq)`, `zip(range(n), seq)`, `seq[k]` with a loop counter) substitutes the position."""

    def __init__(self, why, template, placeholder):
        super().__init__(why)
        self.template = template
        self.placeholder = placeholder

    def element(self, k):
        return subs_value(self.template, self.placeholder, k)


def subs_value(v, name, k):
    """the value v (formula, display, table) with the symbol `name` replaced by the formula k"""
    if v is None or is_unknown(v):
        return v
    if isinstance(v, PyTuple):
        return PyTuple(subs_value(x, name, k) for x in v)
    if isinstance(v, tuple):
        return tuple(subs_value(x, name, k) for x in v)
    if isinstance(v, DictValue):
        return DictValue({q: subs_value(x, name, k) for q, x in v.d.items()})
    return v.subs({name: k}) if depends(v, name) else v


def pykey(v):
    """value -> (True, Python key) when it is a string literal, an integer constant, None, True or False (a key of a literal table), else (False, None)"""
    s = str_of(v)
    if s is not None:
        return True, s
    k = _scalar_key(v)
    if k is None:
        return False, None
    if k[0] == "c":
        return (True, int(k[1])) if k[1].denominator == 1 else (False, None)
    return True, {"None": None, "True": True, "False": False}[k[1]]


def rows_of(v):
    """number of rows (length of axis 0) of an array value, as a formula: rows(vstack((A, B))) = rows(A) + rows(B), rows(zeros((n, H))) = n,
    a sum / difference has the rows of its non-broadcast terms (a single sample `X[0]` and a reduction over axis 0 broadcast), anything else
    is the opaque rows(value).  Unsupported when the terms disagree."""
    if v is None or is_unknown(v) or isinstance(v, (tuple, DictValue)):
        raise Unsupported(f"rows of {v!r}")
    u = unfn(v)
    if u is not None:
        name, args = u
        if name == "vstack":
            return rows_of(args[0]) + rows_of(args[1])
        if name == "lfilt":
            return rows_of(args[1])
        if name.startswith("call:") and name.split(".")[-1] in ("lfilter", "filtfilt") and len(args) >= 3 and not isinstance(args[2], str):
            return rows_of(args[2])         # scipy.signal: the output has the shape of x
        if name in ("zeros", "empty"):
            sh = unfn(args[0]) if not isinstance(args[0], str) else None
            if sh is not None and sh[0] == "tuple":
                return sh[1][0]
            return args[0]
        return F.fn("rows", v)
    if sym_of(v) is not None:
        return F.fn("rows", v)
    # a polynomial in several atoms: element-wise arithmetic with broadcasting
    cands = []
    for a in v.n.atoms() | v.d.atoms():
        d = F.atom_desc(a)
        av = F.Rat(F.Poly.atom(a))
        if d[0] == "fn":
            ua = unfn(av)
            if ua and ua[0] == "idx" and not isinstance(ua[1][1], str) and ua[1][1].is_const():
                continue                      # one sample: broadcast along the rows
            if ua and ua[0] == "idx" and not isinstance(ua[1][1], str):
                us = unfn(ua[1][1])
                if us and us[0] == "slice" and len(us[1]) == 3 and not any(isinstance(q, str) for q in us[1]) and sym_of(us[1][2]) == "None":
                    lo = None if sym_of(us[1][0]) == "None" else (us[1][0].const_value() if us[1][0].is_const() else "?")
                    hi = None if sym_of(us[1][1]) == "None" else (us[1][1].const_value() if us[1][1].is_const() else "?")
                    if (lo == -1 and hi is None) or (lo not in (None, "?") and hi not in (None, "?") and (lo >= 0) == (hi >= 0) and hi - lo == 1):
                        continue              # X[-1:], X[k:k+1]: one row, broadcast
            if ua and ua[0].startswith("red:"):
                continue                      # a reduction over the rows: broadcast
        if d[0] in ("exp", "sin", "cos", "sqrt"):
            continue
        r = rows_of(av)
        if not any(r.equals(c) for c in cands):
            cands.append(r)
    if len(cands) == 1:
        return cands[0]
    raise Unsupported(f"rows of {v!r}: {len(cands)} candidates")


RED = {"max": "max", "amax": "max", "min": "min", "amin": "min", "mean": "mean", "sum": "sum", "nanmax": "nanmax", "nanmin": "nanmin"}
RED_NP = dict(RED, average="mean")          # np.average(x, axis) without weights


def _is_np(d):
    return d is not None and d.startswith(("np.", "numpy."))


def floor_(x):
    return F.fn("floor", x)


def ceil_(x):
    """ceil(x) = -floor(-x): one canonical form for np.ceil, math.ceil and `-(-a // b)`"""
    return -F.fn("floor", -x)


def integer_valued(v):
    """an integer combination of floor(..) / round(..) values and integer constants"""
    if v is None or is_unknown(v) or isinstance(v, (tuple, DictValue)):
        return False
    if not v.d.is_const() or v.d.const_value() != 1:
        return False
    for m, c in v.n.t.items():
        if c.denominator != 1:
            return False
        for a, _e in m:
            d = F.atom_desc(a)
            if not (d[0] == "fn" and (d[1] == "floor" or d[1].startswith("round:") or d[1] in ("int", "rows", "dim"))):
                return False
    return True


STR_METHODS = frozenset("startswith endswith lower upper strip lstrip rstrip find rfind index rindex count replace title capitalize casefold swapcase "
                        "isdigit isalpha isalnum islower isupper zfill removeprefix removesuffix split rsplit partition rpartition format join center "
                        "ljust rjust".split())


def _py_value(r):
    """a Python constant (str, bool, int, None, tuple / list of such) as a value; Unknown otherwise"""
    if isinstance(r, bool) or r is None:
        return {None: NONE, True: TRUE, False: FALSE}[r]
    if isinstance(r, str):
        return S(r)
    if isinstance(r, int):
        return F.const(r)
    if isinstance(r, (tuple, list)):
        return PyTuple(_py_value(x) for x in r)
    return Unknown(f"a constant of type {type(r).__name__}")


# element-wise numpy functions that are spellings of an operator / of a function the algebra knows: np.subtract(a, b) is a - b, np.negative(a) is -a
UFUNC2 = {"add": ast.Add, "subtract": ast.Sub, "multiply": ast.Mult, "divide": ast.Div, "true_divide": ast.Div, "power": ast.Pow, "float_power": ast.Pow}
UFUNC1 = {"negative": lambda x: -x, "positive": lambda x: x, "square": lambda x: x * x, "reciprocal": lambda x: 1 / x,
          "sqrt": F.sqrt, "exp": F.exp, "sin": F.sin, "cos": F.cos, "log": F.log,
          "abs": lambda x: F.fn("abs", x), "absolute": lambda x: F.fn("abs", x), "fabs": lambda x: F.fn("abs", x)}
# keywords of a ufunc call that do not change the element-wise value (`out=` is an effect, handled by the evaluator; `where=` does change it)
UFUNC_KW = {"dtype", "casting", "order", "subok"}


def arith(op, a, b):
    """a <op> b on values (formulas or vectors of formulas); Unknown when it cannot be formed"""
    if is_unknown(a) or is_unknown(b):
        return a if is_unknown(a) else b
    if isinstance(a, DictValue) or isinstance(b, DictValue):
        return Unknown("arithmetic on a table")
    if isinstance(a, tuple) or isinstance(b, tuple):
        return _vec_binop(op, a, b)
    try:
        a, b = need(a), need(b)
        if isinstance(op, ast.Add):
            return a + b
        if isinstance(op, ast.Sub):
            return a - b
        if isinstance(op, (ast.Mult, ast.MatMult)):
            return a * b
        if isinstance(op, ast.Div):
            return Unknown("division by zero") if b.is_zero() else a / b
        if isinstance(op, ast.Pow):
            return a ** b
    except Unsupported as e:
        return Unknown(str(e))
    except Exception as e:  # noqa  (a power the algebra cannot form)
        return Unknown(f"power: {e}")
    return Unknown(f"operator {type(op).__name__}")


def unary(f, a):
    if is_unknown(a) or isinstance(a, DictValue):
        return a if is_unknown(a) else Unknown("function of a table")
    if isinstance(a, tuple):
        return tuple(unary(f, x) for x in a)
    try:
        return f(need(a))
    except Unsupported as e:
        return Unknown(str(e))


def array_call(node, ev):
    """numpy spellings that do not change what is computed (see the module docstring); NotImplemented for everything else"""
    d = dotted(node.func) or ""
    attr = node.func.attr if isinstance(node.func, ast.Attribute) else None
    kw = {k.arg: k.value for k in node.keywords if k.arg is not None}
    # reductions: x.max(axis=0) / np.max(x, axis=0) / np.amax(x, 0) / x.min()
    if (attr in RED or (attr in RED_NP and _is_np(d) and "weights" not in kw and len(node.args) <= 2)) and (not _is_np(d) or node.args):
        if _is_np(d):
            arr, rest = node.args[0], node.args[1:]
        else:
            arr, rest = node.func.value, node.args
        a = ev.ev(arr)
        ax = kw.get("axis", rest[0] if rest else None)
        if is_unknown(a) or isinstance(a, (tuple, DictValue)):
            return NotImplemented
        axv = ev.ev(ax) if ax is not None else NONE
        if is_unknown(axv) or isinstance(axv, tuple) or any(k not in ("axis", "keepdims") for k in kw):
            return NotImplemented                    # keepdims only changes the shape the result broadcasts with
        return F.fn("red:" + RED_NP[attr], need(a), need(axv))
    if d == "len" and len(node.args) == 1:
        a = ev.ev(node.args[0])
        if isinstance(a, DictValue):
            return F.const(len(a.d))
        if is_unknown(a):
            return NotImplemented
        if isinstance(a, tuple):
            return F.const(len(a))
        if str_of(a) is not None:
            return F.const(len(str_of(a)))
        return rows_of(a)
    if _is_np(d) and d.count(".") == 1 and not (set(kw) - UFUNC_KW) and not any(isinstance(a, ast.Starred) for a in node.args):
        last = d.split(".")[1]
        if last in UFUNC2 and len(node.args) == 2:
            r = arith(UFUNC2[last](), ev.ev(node.args[0]), ev.ev(node.args[1]))
            return NotImplemented if is_unknown(r) else r
        if last in UFUNC1 and len(node.args) == 1 and not (last in ("sqrt", "exp", "sin", "cos", "log", "abs", "absolute") and not kw):
            r = unary(UFUNC1[last], ev.ev(node.args[0]))
            return NotImplemented if is_unknown(r) else r
    if d in ("np.matmul", "np.dot", "np.multiply", "numpy.matmul", "numpy.dot", "numpy.multiply") and len(node.args) == 2 and not kw:
        a, b = ev.ev(node.args[0]), ev.ev(node.args[1])
        if is_unknown(a) or is_unknown(b) or isinstance(a, tuple) or isinstance(b, tuple):
            return NotImplemented
        return need(a) * need(b)
    if d in ("np.transpose", "numpy.transpose", "np.ravel", "numpy.ravel", "np.squeeze") and len(node.args) == 1 and not kw:
        return ev.ev(node.args[0])
    if attr in ("reshape", "transpose", "ravel", "flatten", "squeeze", "copy") and not _is_np(d):
        return ev.ev(node.func.value)
    if d in ("np.reshape", "numpy.reshape") and node.args:
        return ev.ev(node.args[0])
    if d in ("np.zeros", "numpy.zeros", "np.empty", "numpy.empty") and (node.args or "shape" in kw):
        sh = ev.ev(node.args[0] if node.args else kw["shape"])
        if is_unknown(sh):
            return NotImplemented
        if isinstance(sh, tuple):
            if any(is_unknown(x) or isinstance(x, tuple) for x in sh):
                return NotImplemented
            sh = F.fn("tuple", *[need(x) for x in sh])
        return F.fn("zeros" if d.endswith("zeros") else "empty", need(sh))
    if (d in ("np.take", "numpy.take") and len(node.args) >= 2) or (attr == "take" and not _is_np(d) and len(node.args) >= 1):
        # np.take(X, i, axis=0) / X.take(i, axis=0): X[i]
        rest = node.args[2:] if _is_np(d) else node.args[1:]
        ax = kw.get("axis", rest[0] if rest else None)
        axv = ev.ev(ax) if ax is not None else None
        if axv is not None and not is_unknown(axv) and not isinstance(axv, (tuple, DictValue)) and axv.is_zero() and not (set(kw) - {"axis"}):
            xs = node.args[0] if _is_np(d) else node.func.value
            ix = node.args[1] if _is_np(d) else node.args[0]
            return ev.ev(ast.copy_location(ast.Subscript(value=xs, slice=ix, ctx=ast.Load()), node))
    if d in ("np.full", "numpy.full") and len(node.args) + ("fill_value" in kw) >= 2 and (node.args or "shape" in kw):
        # np.full(shape, v): zeros of that shape plus v
        sh = ev.ev(node.args[0] if node.args else kw["shape"])
        v = ev.ev(node.args[1] if len(node.args) > 1 else kw["fill_value"])
        if isinstance(sh, tuple) and not any(is_unknown(x) or isinstance(x, tuple) for x in sh) and not is_unknown(v) and not isinstance(v, (tuple, DictValue)):
            return F.fn("zeros", F.fn("tuple", *[need(x) for x in sh])) + need(v)
    if d in ("np.tile", "numpy.tile", "np.broadcast_to", "numpy.broadcast_to") and len(node.args) == 2 and not kw:
        # a row repeated n times: np.tile(row, (n, 1)) / np.broadcast_to(row, (n, H)) is zeros((n, H)) + row
        v, reps = ev.ev(node.args[0]), ev.ev(node.args[1])
        if isinstance(reps, tuple) and len(reps) == 2 and not any(is_unknown(x) or isinstance(x, tuple) for x in reps) and not is_unknown(v) \
                and not isinstance(v, (tuple, DictValue)):
            if d.endswith("tile") and need(reps[1]).equals(1):
                return F.fn("zeros", F.fn("tuple", need(reps[0]), F.fn("rows", need(v)))) + need(v)
            if d.endswith("broadcast_to"):
                return F.fn("zeros", F.fn("tuple", need(reps[0]), need(reps[1]))) + need(v)
    if d in ("np.vstack", "numpy.vstack", "np.concatenate", "numpy.concatenate", "np.row_stack") and node.args \
            and isinstance(node.args[0], (ast.Tuple, ast.List)) and len(node.args[0].elts) == 2:
        if d.endswith("concatenate"):
            ax = kw.get("axis", node.args[1] if len(node.args) > 1 else None)
            if ax is not None:
                axv = ev.ev(ax)
                if is_unknown(axv) or isinstance(axv, tuple) or not axv.is_zero():
                    return NotImplemented
        a, b = (ev.ev(e) for e in node.args[0].elts)
        if is_unknown(a) or is_unknown(b) or isinstance(a, tuple) or isinstance(b, tuple):
            return NotImplemented
        return F.fn("vstack", need(a), need(b))
    if d in ("np.hstack", "numpy.hstack", "np.column_stack", "numpy.column_stack") and node.args \
            and isinstance(node.args[0], (ast.Tuple, ast.List)) and len(node.args[0].elts) == 2:
        a, b = (ev.ev(e) for e in node.args[0].elts)
        if is_unknown(a) or is_unknown(b) or isinstance(a, (tuple, DictValue)) or isinstance(b, (tuple, DictValue)):
            return NotImplemented
        return F.fn("hstack", need(a), need(b))
    if d in ("np.ceil", "numpy.ceil", "math.ceil", "ceil") and len(node.args) == 1:
        a = ev.ev(node.args[0])
        return NotImplemented if is_unknown(a) or isinstance(a, tuple) else ceil_(need(a))
    if d in ("np.floor", "numpy.floor", "math.floor", "floor") and len(node.args) == 1:
        a = ev.ev(node.args[0])
        return NotImplemented if is_unknown(a) or isinstance(a, tuple) else floor_(need(a))
    if d in ("np.round", "numpy.round", "np.rint", "np.around", "round", "np.trunc", "math.trunc", "np.fix") and len(node.args) == 1 and not kw:
        a = ev.ev(node.args[0])               # another rounding rule: a function of its own (it is neither floor nor ceil)
        return NotImplemented if is_unknown(a) or isinstance(a, tuple) else F.fn("round:" + d.split(".")[-1], need(a))
    if d == "bool" and len(node.args) == 1 and not kw:
        t = truth(ev.ev(node.args[0]))
        return NotImplemented if t is None else (TRUE if t else FALSE)
    if d == "int" and len(node.args) == 1:
        a = ev.ev(node.args[0])
        if is_unknown(a) or isinstance(a, tuple):
            return NotImplemented
        if sym_of(a) in ("True", "False"):
            return F.const(1 if sym_of(a) == "True" else 0)
        return a if integer_valued(a) else F.fn("int", need(a))
    # index vectors of a mask
    if attr == "nonzero" and not _is_np(d) and not node.args:
        m = ev.ev(node.func.value)
        return NotImplemented if is_unknown(m) or isinstance(m, tuple) else (F.fn("where", need(m)),)
    if d in ("np.nonzero", "np.where", "numpy.nonzero", "numpy.where") and len(node.args) == 1:
        m = ev.ev(node.args[0])
        return NotImplemented if is_unknown(m) or isinstance(m, tuple) else (F.fn("where", need(m)),)
    if d in ("np.flatnonzero", "numpy.flatnonzero") and len(node.args) == 1:
        m = ev.ev(node.args[0])
        return NotImplemented if is_unknown(m) or isinstance(m, tuple) else F.fn("where", need(m))
    if d == "callable" and len(node.args) == 1:
        v = ev.ev(node.args[0])
        if not is_unknown(v) and not isinstance(v, (tuple, DictValue)):
            if str_of(v) is not None or sym_of(v) == "None":
                return FALSE
            n = sym_of(v)
            if n is not None and ev.inline and n in ev.inline:
                return TRUE
    if attr in STR_METHODS and not _is_np(d) and not kw and isinstance(node.func, ast.Attribute):
        base = ev.ev(node.func.value)
        sv = str_of(base)
        if sv is not None:
            # a method of a string literal on constants: computed (options are strings: `stype.startswith("rel")`, `ic.lower()`)
            args = []
            for a_ in node.args:
                x = ev.ev(a_)
                if isinstance(x, tuple) and all(str_of(q) is not None for q in x):
                    args.append(tuple(str_of(q) for q in x))
                    continue
                ok, k = pykey(x)
                if not ok:
                    args = None
                    break
                args.append(k)
            if args is not None:
                try:
                    r = getattr(sv, attr)(*args)
                except Exception:  # noqa  (the call raises at run time: not a value)
                    return Unknown(f"'{sv}'.{attr}(...) raises")
                return _py_value(r)
    if attr in ("index", "count") and not _is_np(d) and len(node.args) == 1 and not kw:
        base = ev.ev(node.func.value)
        if isinstance(base, tuple):
            ka = _scalar_key(ev.ev(node.args[0]))
            kb = [_scalar_key(x) for x in base]
            if ka is not None and all(k is not None for k in kb):
                if attr == "count":
                    return F.const(kb.count(ka))
                if ka in kb:
                    return F.const(kb.index(ka))
                return Unknown("display.index of a value that is not an element (raises)")
    if attr == "get" and not _is_np(d) and 1 <= len(node.args) <= 2 and not kw:
        base = ev.ev(node.func.value)
        if isinstance(base, DictValue):
            ok, k = pykey(ev.ev(node.args[0]))
            if ok:
                if k in base.d:
                    return base.d[k]
                return ev.ev(node.args[1]) if len(node.args) == 2 else NONE
        elif hasattr(ev, "as_table"):
            t = ev.as_table(base)
            ok, k = pykey(ev.ev(node.args[0]))
            if t is not None and ok:
                if k in t.d:
                    return F.fn("idx", need(base), ev.ev(node.args[0]))       # the entry of the dictionary object, as `d[key]` reads it
                return ev.ev(node.args[1]) if len(node.args) == 2 else NONE
    if d == "isinstance" and len(node.args) == 2:
        v = ev.ev(node.args[0])
        t = dotted(node.args[1])
        if t == "str" and not is_unknown(v) and not isinstance(v, (tuple, DictValue)):
            if str_of(v) is not None:
                return TRUE
            n = sym_of(v)
            if n is not None and (n == "None" or (ev.inline and n in ev.inline)):
                return FALSE
    return NotImplemented


def array_subscript(node, ev):
    """X.shape[k] -> rows / cols, X[mask] and X[where(mask)] -> sel(X, mask), new axes and full slices -> X"""
    sl = node.slice
    v = node.value
    if isinstance(v, ast.Attribute) and v.attr == "shape" or (isinstance(v, ast.Call) and dotted(v.func) in ("np.shape", "numpy.shape") and v.args):
        arr = ev.ev(v.value if isinstance(v, ast.Attribute) else v.args[0])
        if is_unknown(arr) or isinstance(arr, (tuple, DictValue)):
            return NotImplemented

        def dim(k):
            return rows_of(arr) if k == 0 else F.fn("dim", need(arr), F.const(k))
        if isinstance(sl, ast.Constant) and isinstance(sl.value, int) and sl.value >= 0:
            return dim(sl.value)
        if isinstance(sl, ast.Slice) and sl.lower is None and sl.step is None and isinstance(sl.upper, ast.Constant) and isinstance(sl.upper.value, int) \
                and 0 < sl.upper.value <= 3:
            return tuple(dim(k) for k in range(sl.upper.value))
        return NotImplemented
    if not isinstance(sl, ast.Tuple) and not (isinstance(v, ast.Name) and v.id in ev.buffers):
        sv = str_of(ev.ev(v))
        if sv is not None:
            # a character / a slice of a string literal
            try:
                if isinstance(sl, ast.Slice):
                    parts = [None if p_ is None else pykey(ev.ev(p_)) for p_ in (sl.lower, sl.upper, sl.step)]
                    if all(p_ is None or (p_[0] and isinstance(p_[1], int)) for p_ in parts):
                        return S(sv[slice(*[None if p_ is None else p_[1] for p_ in parts])])
                else:
                    ok, k = pykey(ev.ev(sl))
                    if ok and isinstance(k, int) and not isinstance(k, bool):
                        return S(sv[k])
            except Exception:  # noqa
                return Unknown("index of a string literal out of range")
    # the first row, kept as a row: X[:1] / X[0:1] / X[[0]] broadcast like X[0]
    if isinstance(sl, ast.Slice) and sl.step is None and sl.upper is not None and (sl.lower is None or (isinstance(sl.lower, ast.Constant) and sl.lower.value == 0)) \
            and isinstance(sl.upper, ast.Constant) and sl.upper.value == 1 and not (isinstance(v, ast.Name) and v.id in ev.buffers):
        base = ev.ev(v)
        if not is_unknown(base) and not isinstance(base, (tuple, DictValue)) and str_of(base) is None:
            return F.fn("idx", need(base), F.const(0))
    # X[i, :] / X[i, ...]: trailing full slices select everything
    if isinstance(sl, ast.Tuple) and len(sl.elts) >= 2 and all(_full_slice(e) for e in sl.elts[1:]) and not _full_slice(sl.elts[0]) \
            and not (isinstance(sl.elts[0], ast.Constant) and sl.elts[0].value is None) and not isinstance(sl.elts[0], ast.Starred):
        return ev.ev(ast.copy_location(ast.Subscript(value=v, slice=sl.elts[0], ctx=ast.Load()), node))
    # new axes / full slices only: the element-wise value
    elts = sl.elts if isinstance(sl, ast.Tuple) else [sl]
    if elts and all((isinstance(e, ast.Slice) and e.lower is None and e.upper is None and e.step is None)
                    or (isinstance(e, ast.Constant) and e.value is None) or (isinstance(e, ast.Attribute) and dotted(e) in ("np.newaxis", "numpy.newaxis"))
                    for e in elts) and any(not isinstance(e, ast.Slice) for e in elts):
        return ev.ev(v)
    if not isinstance(sl, (ast.Slice, ast.Tuple, ast.Constant)):
        ix = ev.ev(sl)
        if not is_unknown(ix) and not isinstance(ix, (tuple, DictValue)):
            u = unfn(ix)
            base = ev.ev(v)
            if u is not None and not is_unknown(base) and not isinstance(base, (tuple, DictValue)):
                if u[0] == "where":
                    return F.fn("sel", need(base), u[1][0])
                if u[0].startswith(("cmp:", "mask:")):
                    return F.fn("sel", need(base), ix)
    return NotImplemented


def counted_while(st):
    """name of the counter of a counted loop `while k < n:` (any comparison with the bare name on one side) whose body updates k exactly once, by
    `k += c` / `k -= c` / `k = k + c` with a literal c, outside any nested loop or function; else None"""
    t = st.test
    if not (isinstance(t, ast.Compare) and len(t.ops) == 1 and isinstance(t.ops[0], (ast.Lt, ast.LtE, ast.Gt, ast.GtE, ast.NotEq))):
        return None
    for side in (t.left, t.comparators[0]):
        if not isinstance(side, ast.Name):
            continue
        c = side.id
        upd, other = [], []

        def visit(stmts, nested):
            for x in stmts:
                if isinstance(x, (ast.FunctionDef, ast.AsyncFunctionDef, ast.ClassDef, ast.Lambda)):
                    continue
                if isinstance(x, ast.AugAssign) and isinstance(x.target, ast.Name) and x.target.id == c:
                    (upd if isinstance(x.op, (ast.Add, ast.Sub)) and isinstance(x.value, ast.Constant) and not nested else other).append(x)
                elif isinstance(x, ast.Assign) and any(isinstance(n, ast.Name) and n.id == c and isinstance(n.ctx, ast.Store) for tg in x.targets for n in ast.walk(tg)):
                    v = x.value
                    ok = len(x.targets) == 1 and isinstance(x.targets[0], ast.Name) and isinstance(v, ast.BinOp) and isinstance(v.op, (ast.Add, ast.Sub)) \
                        and ((isinstance(v.left, ast.Name) and v.left.id == c and isinstance(v.right, ast.Constant))
                             or (isinstance(v.op, ast.Add) and isinstance(v.right, ast.Name) and v.right.id == c and isinstance(v.left, ast.Constant)))
                    (upd if ok and not nested else other).append(x)
                elif isinstance(x, (ast.For, ast.AsyncFor)) and any(isinstance(n, ast.Name) and n.id == c for n in ast.walk(x.target)):
                    other.append(x)
                for n in ast.walk(x) if not isinstance(x, (ast.If, ast.For, ast.While, ast.With, ast.Try)) else ():
                    if isinstance(n, ast.NamedExpr) and isinstance(n.target, ast.Name) and n.target.id == c:
                        other.append(n)
                for f in ("body", "orelse", "finalbody"):
                    sub = getattr(x, f, None)
                    if isinstance(sub, list):
                        visit(sub, nested or isinstance(x, (ast.For, ast.While)))
                for h in getattr(x, "handlers", []):
                    visit(h.body, nested)
        visit(st.body, False)
        if len(upd) == 1 and not other and upd[0] in st.body:
            return c
    return None


_STORED = {}
_FLOATS = {}
_MATCH_TESTS = {}


def _full_slice(sl):
    """syntactically `...`, `:` or a tuple of these"""
    if isinstance(sl, ast.Tuple):
        return bool(sl.elts) and all(_full_slice(e) for e in sl.elts)
    if isinstance(sl, ast.Constant):
        return sl.value is Ellipsis
    return isinstance(sl, ast.Slice) and sl.lower is None and sl.upper is None and sl.step is None


def effect_targets(call):
    """the expressions a call writes into, by the conventions of numpy: `out=`, the first argument of np.copyto / np.put / np.place / np.putmask /
    np.fill_diagonal, the receiver of `.fill()`"""
    out = []
    for k in call.keywords:
        if k.arg == "out":
            out.extend(k.value.elts if isinstance(k.value, ast.Tuple) else [k.value])
    d = dotted(call.func) or ""
    if _is_np(d) and d.split(".")[-1] in ("copyto", "put", "place", "putmask", "fill_diagonal", "put_along_axis") and call.args:
        out.append(call.args[0])
    if isinstance(call.func, ast.Attribute) and call.func.attr == "fill" and not _is_np(d):
        out.append(call.func.value)
    return out


_CHAIN_TESTS = {}


def chain_test(node):
    """`a < b <= c` as `a < b and b <= c` (cached per node: rules and the path explorer identify tests by node)"""
    k = id(node)
    if k in _CHAIN_TESTS and _CHAIN_TESTS[k][0] is node:
        return _CHAIN_TESTS[k][1]
    parts, left = [], node.left
    for op, right in zip(node.ops, node.comparators):
        parts.append(ast.copy_location(ast.Compare(left=left, ops=[op], comparators=[right]), node))
        left = right
    t = ast.copy_location(ast.BoolOp(op=ast.And(), values=parts), node)
    _CHAIN_TESTS[k] = (node, t)
    return t


def match_test(subject, pattern, guard=None):
    """the test a `case` pattern stands for, as an expression over the subject (cached per pattern node: rules and the path explorer identify tests by node);
    None for patterns that bind or destructure (not modelled)"""
    k = id(pattern)
    if k in _MATCH_TESTS and _MATCH_TESTS[k][0] is pattern:
        return _MATCH_TESTS[k][1]

    def build(p_):
        if isinstance(p_, ast.MatchValue):
            return ast.Compare(left=subject, ops=[ast.Eq()], comparators=[p_.value])
        if isinstance(p_, ast.MatchSingleton):
            return ast.Compare(left=subject, ops=[ast.Is()], comparators=[ast.Constant(value=p_.value)])
        if isinstance(p_, ast.MatchOr):
            parts = [build(q) for q in p_.patterns]
            return None if any(q is None for q in parts) else ast.BoolOp(op=ast.Or(), values=parts)
        if isinstance(p_, ast.MatchAs) and p_.pattern is None and p_.name is None:
            return ast.Constant(value=True)
        return None
    t = build(pattern)
    if t is not None and guard is not None:
        t = ast.BoolOp(op=ast.And(), values=[t, guard])
    if t is not None:
        for n in ast.walk(t):
            if not hasattr(n, "lineno"):
                ast.copy_location(n, pattern)
        ast.fix_missing_locations(t)
    _MATCH_TESTS[k] = (pattern, t)
    return t


def _stored_names(fn):
    """names of `fn` that are the base of a subscript store (`X[i] = v`, `X[i] += v`)"""
    k = id(fn)
    if k not in _STORED:
        _STORED[k] = (fn, frozenset(n.value.id for n in ast.walk(fn) if isinstance(n, ast.Subscript) and isinstance(n.ctx, ast.Store) and isinstance(n.value, ast.Name)))
    return _STORED[k][1]


class Ev3(AutoEvaluator):
    hooks = ()              # call hooks tried in order before array_call
    sub_hooks = ()            # subscript hooks tried before array_subscript
    raise_only = frozenset()  # ids of `if` tests whose true arm only raises

    def __init__(self, fn=None, **kw):
        super().__init__(fn, **kw)
        self.fn_node = fn
        self.deep = []        # stores through a nested subscript target: (value of the container element, index value, stored value, node)
        self.erase_T = True
        self.loop_once = True
        self.inplace = {}
        if fn is not None:
            # also `X[0], X[1] = a, b`, `for X[k] in ...`, `X[i]: float = v`: every subscript store on a bare name
            partial_store = set()
            for n in ast.walk(fn):
                if isinstance(n, ast.Subscript) and isinstance(n.ctx, ast.Store) and isinstance(n.value, ast.Name):
                    self.buffers.add(n.value.id)
                    if not _full_slice(n.slice):
                        partial_store.add(n.value.id)
                if isinstance(n, ast.Call):
                    # a part of an array handed to a call that writes into it: `np.add(x, y, out=A[k])`, `np.copyto(A[:, j], v)`, `A[k].fill(v)`
                    for t in effect_targets(n):
                        if isinstance(t, ast.Subscript) and isinstance(t.value, ast.Name) and not _full_slice(t.slice):
                            self.buffers.add(t.value.id)
                            partial_store.add(t.value.id)
            # a name that is only ever written as a whole (`X[...] = v`, `X[:] += y`) holds a value like any other local - or denotes a row / entry of an
            # array object (`for row in A: row[...] = v`), in which case the store goes there (`_store_full`)
            self.buffers &= partial_store
        self.bufmap = {}      # source name of a buffer of this function -> name of the array object it denotes (itself unless rebound / inlined)
        self.shared = set()   # source names of buffers that currently denote an object of the caller / of a callee / of another name
        self.foreign = set()  # names of array objects created in inlined callees (their stores are in self.cells, their creation in <init:name>)
        self.globals = {}     # module state: values bound to names declared `global` (shared by reference with the evaluators of inlined callees)
        self.global_names = set()
        self.chain = ""       # call sites through which this evaluator was reached: names of callee-local array objects are unique per call path and
                              # the same in every evaluation of the same source (rules compare values of two evaluations with each other)
        self.alias_of = {}    # plain local -> name of the array object it was bound to by `x = X` / `for x in (X, Y)`: an in-place update of x is one of X
        self.lambdas = {}     # symbol of a lambda value -> (Lambda node, evaluator whose scope it closes over | None for a module-level one); shared with callees
        self.arrays = set()   # symbols the rule declares to be numeric arrays (never None; their elements are numbers)
        self.modfuncs = frozenset()   # names of the module-level functions of the module under evaluation
        self.parent = None    # the evaluator of the caller (an inlined callee asks it about the array objects it was handed)
        self.counters = set() # symbols bound as loop counters (integers): `A[k]` with such an index is a view of A
        self.in_template = 0  # > 0 while the generic element of a LazySeq is evaluated (a hook that keeps records of its own must not record there)
        self._cur_stmt = None

    def bname(self, name):
        """name of the array object the buffer `name` of this function denotes"""
        return self.bufmap.get(name, name)

    def is_array_object(self, name):
        """`name` (the symbol a value consists of) is an array / dictionary object filled by subscript stores recorded in this evaluation"""
        return name is not None and (name in self.foreign or any(self.bname(b) == name for b in self.buffers))

    # ------------------------------------------------------------ names / buffers
    def _ev(self, node):
        if isinstance(node, ast.Constant) and isinstance(node.value, float):
            # the exact decimal value of a float literal is read from the source text: once per literal, not once per evaluation
            c = _FLOATS.get(id(node))
            if c is None or c[0] is not node:
                c = _FLOATS[id(node)] = (node, super()._ev(node))
            return c[1]
        if isinstance(node, ast.Name) and node.id in self.buffers:
            b = self.bname(node.id)
            return self.env.get("<cur:%s>" % b, F.sym(b))
        if isinstance(node, ast.Name) and node.id not in self.env and node.id in self.globals:
            return self.globals[node.id]          # a module-level name another function (or the rule) bound: a worker global
        if isinstance(node, ast.Subscript) and _full_slice(node.slice) and isinstance(node.value, (ast.Name, ast.Attribute)):
            base = self.ev(node.value)
            if not isinstance(base, DictValue):
                return base                            # X[...] / X[:]: every element
        if isinstance(node, ast.Subscript):
            if isinstance(node.value, ast.Name) and isinstance(node.ctx, ast.Load) and node.value.id not in self.buffers \
                    and isinstance(self.env.get(node.value.id), LazySeq) and not isinstance(node.slice, (ast.Slice, ast.Tuple)):
                k = self.ev(node.slice)
                if not is_unknown(k) and not isinstance(k, (tuple, DictValue)) and (sym_of(k) in self.counters or (k.is_const() and k.const_value() >= 0
                                                                                                             and k.const_value().denominator == 1)):
                    return self.env[node.value.id].element(k)           # seq[k], k a loop counter / a position counted from the front
            if isinstance(node.value, ast.Name) and isinstance(node.ctx, ast.Load) and node.value.id not in self.buffers:
                cur = self.env.get(node.value.id)
                u = unfn(cur) if (cur is not None and not is_unknown(cur) and not isinstance(cur, (tuple, DictValue))) else None
                if u and u[0] == "empty":
                    self._promote(node.value)         # a view of an array that has not been written yet: taken to write through it
            for h in tuple(self.sub_hooks) + (array_subscript,):
                r = h(node, self)
                if r is not NotImplemented:
                    return r
            # a literal table looked up with a key that is a known string; a tuple / list display indexed by a decided truth value
            if not (isinstance(node.value, ast.Name) and node.value.id in self.buffers):
                base = self._ev(node.value)
                if isinstance(base, tuple) and len(base) == 2 and not isinstance(node.slice, (ast.Slice, ast.Tuple, ast.Constant)):
                    k = sym_of(self.ev(node.slice))
                    if k in ("True", "False"):
                        return base[1 if k == "True" else 0]
                if isinstance(base, DictValue):
                    ok, s = pykey(self.ev(node.slice))
                    if ok:
                        return base.d[s] if s in base.d else Unknown(f"key {s!r} not in the literal table")
                    return Unknown("literal table looked up with an undetermined key")
        if isinstance(node, ast.Compare) and len(node.ops) == 1:
            r = self.compare(node)
            if r is not None:
                return TRUE if r else FALSE
        if isinstance(node, ast.Compare) and len(node.ops) > 1:
            return self._ev(chain_test(node))
        if isinstance(node, ast.BoolOp):
            # short-circuit on decided operands: `flag and x` is x when flag is true, `x or default` is x when x is true
            last = None
            for v in node.values:
                x = self.ev(v)
                t = (len(x) > 0) if isinstance(x, tuple) else ((len(x.d) > 0) if isinstance(x, DictValue) else truth(x))
                if t is None:
                    last = None
                    break
                last = x
                if t is (not isinstance(node.op, ast.And)):
                    return x                        # `and` stops at the first false operand, `or` at the first true one
            if last is not None:
                return last
        if isinstance(node, ast.BinOp) and isinstance(node.op, (ast.Add, ast.Sub, ast.Mult, ast.Div, ast.Pow)) \
                and any(isinstance(x, (ast.Compare, ast.BoolOp)) or (isinstance(x, ast.UnaryOp) and isinstance(x.op, ast.Not))
                        or (isinstance(x, ast.Name) and x.id not in self.buffers and sym_of(self.env.get(x.id)) in ("True", "False")) for x in (node.left, node.right)):
            # a decided truth value in arithmetic: M * (ptr == 2), N - flag  (True is 1, False is 0)
            a, b = self.ev(node.left), self.ev(node.right)
            conv = {"True": F.const(1), "False": F.const(0)}
            if sym_of(a) in conv or sym_of(b) in conv:
                return arith(node.op, conv.get(sym_of(a), a), conv.get(sym_of(b), b))
        if isinstance(node, ast.BinOp) and isinstance(node.op, ast.FloorDiv):
            a, b = self.ev(node.left), self.ev(node.right)
            if not is_unknown(a) and not is_unknown(b) and not isinstance(a, (tuple, DictValue)) and not isinstance(b, (tuple, DictValue)) and not need(b).is_zero():
                q = need(a) / need(b)
                if q.is_const():
                    return F.const(q.const_value().__floor__())
                return floor_(q)                       # a // b
        if isinstance(node, ast.BinOp) and isinstance(node.op, ast.Mod):
            fmt = str_of(self.ev(node.left))
            if fmt is not None:
                # "beta%d" % k with constants: the string (a key of a literal table)
                r = self.ev(node.right)
                ks = [pykey(x) for x in (r if isinstance(r, tuple) else (r,))]
                if all(ok for ok, _k in ks):
                    try:
                        return S(fmt % tuple(k for _ok, k in ks))
                    except Exception:  # noqa
                        pass
        if isinstance(node, ast.JoinedStr):
            parts = []
            for v in node.values:
                if isinstance(v, ast.Constant) and isinstance(v.value, str):
                    parts.append(v.value)
                elif isinstance(v, ast.FormattedValue) and v.format_spec is None and v.conversion == -1:
                    ok, k = pykey(self.ev(v.value))
                    if not ok or isinstance(k, bool) or k is None:
                        parts = None
                        break
                    parts.append(str(k))
                else:
                    parts = None
                    break
            if parts is not None:
                return S("".join(parts))              # an f-string of constants: the string
        if isinstance(node, ast.Lambda):
            # a function value: a symbol of its own (position in the source; a local one also the call path), applied where it is called
            module_level = bool(self._folding)
            name = "<lambda:%d.%d%s>" % (getattr(node, "lineno", 0), getattr(node, "col_offset", 0), "" if module_level else self.chain)
            self.lambdas[name] = (node, None if module_level else self)
            return F.sym(name)
        if isinstance(node, (ast.ListComp, ast.SetComp, ast.GeneratorExp, ast.DictComp)):
            r = self._comprehension(node)
            if r is not NotImplemented:
                return r
            if not isinstance(node, (ast.DictComp, ast.SetComp)):
                r = self._lazy_seq(node)
                if r is not None:
                    return r
        if isinstance(node, ast.Attribute) and node.attr == "__name__":
            n = sym_of(self.ev(node.value))
            if n is not None and n in self.modfuncs and n not in self.buffers:
                return S(n)                      # the name of a module-level function
        if isinstance(node, ast.Dict) and not node.keys:
            return DictValue({})
        if isinstance(node, ast.Dict) and node.keys and not all(isinstance(k, ast.Constant) for k in node.keys) and all(k is not None for k in node.keys):
            keys = [pykey(self.ev(k)) for k in node.keys]          # keys that are names of constants
            if all(ok for ok, _k in keys):
                return DictValue({k: self.ev(v) for (_ok, k), v in zip(keys, node.values)})
        if isinstance(node, (ast.Tuple, ast.List)):
            out = []
            for e in node.elts:
                if isinstance(e, ast.Starred):
                    v = self.ev(e.value)
                    if not isinstance(v, tuple):
                        return Unknown("unpacking of a value that is not a tuple display")
                    out.extend(v)
                else:
                    out.append(self.ev(e))
            return PyTuple(out)
        if isinstance(node, ast.BinOp) and isinstance(node.op, ast.Add) and self._display(node.left) and self._display(node.right):
            a, b = self.ev(node.left), self.ev(node.right)
            if isinstance(a, PyTuple) and isinstance(b, PyTuple):
                return PyTuple(a + b)                 # (x,) + rest
        return super()._ev(node)

    def _display(self, n):
        """syntactically a tuple / list display, a local bound to one, or a sum of such"""
        if isinstance(n, (ast.Tuple, ast.List)):
            return True
        if isinstance(n, ast.Name):
            return n.id not in self.buffers and isinstance(self.env.get(n.id), PyTuple)
        if isinstance(n, ast.BinOp) and isinstance(n.op, ast.Add):
            return self._display(n.left) and self._display(n.right)
        if isinstance(n, ast.IfExp):
            return self._display(n.body) and self._display(n.orelse)
        return False

    def compare(self, node):
        """truth of a comparison both sides of which are constants / string literals / None, else None"""
        op = node.ops[0]
        a = self.ev(node.left)
        b = self.ev(node.comparators[0])
        if isinstance(op, (ast.In, ast.NotIn)):
            sa, sb = str_of(a), str_of(b)
            if sa is not None and sb is not None:
                return (sa in sb) == isinstance(op, ast.In)            # substring test on literals
            t = self.as_table(b) if not isinstance(b, tuple) else None
            if t is not None:
                ok, k = pykey(a)                       # key in table
                if ok:
                    return (k in t.d) == isinstance(op, ast.In)
                return None
            if isinstance(b, tuple):
                ka = _scalar_key(a)
                kb = [_scalar_key(x) for x in b]
                if ka is not None and all(k is not None for k in kb):
                    r = ka in kb
                    return r if isinstance(op, ast.In) else not r
            return None
        ka, kb = _scalar_key(a), _scalar_key(b)
        if isinstance(op, (ast.Eq, ast.Is, ast.NotEq, ast.IsNot)):
            # a tuple / list / dict display is not None, True or False
            for x, k in ((a, kb), (b, ka)):
                if isinstance(x, (tuple, DictValue)) and k is not None and k[0] == "n":
                    return isinstance(op, (ast.NotEq, ast.IsNot))
                if isinstance(x, (PyTuple, DictValue)) and k is not None:
                    return isinstance(op, (ast.NotEq, ast.IsNot))          # a display / table is not a number or a string
                if k == ("n", "None") and self.not_none(x):
                    return isinstance(op, (ast.NotEq, ast.IsNot))
        if ka is None or kb is None:
            return None
        if isinstance(op, (ast.Eq, ast.Is)):
            return ka == kb
        if isinstance(op, (ast.NotEq, ast.IsNot)):
            return ka != kb
        if ka[0] == "c" and kb[0] == "c":
            x, y = ka[1], kb[1]
            return {ast.Lt: x < y, ast.LtE: x <= y, ast.Gt: x > y, ast.GtE: x >= y}.get(type(op))
        return None

    _NUMERIC = ("abs", "zeros", "empty", "vstack", "hstack", "lfilt", "rows", "dim", "floor", "int", "sel", "where", "interp")

    def not_none(self, v, depth=0):
        """the value is certainly not None: a number, a string, a display, a function, an array that is filled by stores, the result of arithmetic
        (None takes part in none), an element of a numeric array.  False means: not known"""
        if v is None or is_unknown(v):
            return False
        if isinstance(v, (tuple, DictValue)):
            return True
        try:
            if v.is_const():
                return True
        except Exception:  # noqa
            return False
        if str_of(v) is not None:
            return True
        n = sym_of(v)
        if n is not None:
            if n in ("True", "False"):
                return True
            if n == "None":
                return False
            return n in self.lambdas or n in self.modfuncs or n in self.arrays or self.is_array_object(n)
        u = unfn(v)
        if u is None:
            return True                 # a sum / product / quotient / exp / sqrt ...
        name, args = u
        if name in self._NUMERIC or name.startswith(("red:", "cmp:", "mask:")):
            return True
        if name == "idx" and len(args) == 2 and not isinstance(args[0], str) and not isinstance(args[1], str) and depth < 4:
            b = args[0]
            bn = sym_of(b)
            if bn is not None and self.is_array_object(bn):
                init, cells, e = None, [], self
                while e is not None:                  # the object may belong to a caller: its creation and its earlier stores are recorded there
                    if init is None:
                        init = e.env.get("<init:%s>" % bn)
                    cells = [c for c in e.cells if c[0] == bn] + cells
                    e = e.parent
                k = str_of(args[1])
                if k is not None or isinstance(init, DictValue):
                    if k is None:
                        return False
                    vals = [init.d[k]] if isinstance(init, DictValue) and k in init.d else []
                    vals += [c[2] for c in cells if not is_unknown(c[1]) and str_of(c[1]) == k]
                    return bool(vals) and self.not_none(vals[-1], depth + 1)
                ui = unfn(init) if init is not None and not is_unknown(init) and not isinstance(init, (tuple, DictValue)) else None
                return bool(ui and ui[0] in ("zeros", "empty"))
            if bn is not None:
                return bn in self.arrays
            ub = unfn(b)
            if ub is None:
                return True             # an element of the result of arithmetic
            return ub[0] in self._NUMERIC or (ub[0] == "idx" and self.not_none(b, depth + 1) and sym_of(ub[1][0]) in self.arrays)
        return False

    # ------------------------------------------------------------ iteration over displays, comprehensions
    def _key_value(self, k):
        if isinstance(k, str):
            return S(k)
        if k is None or isinstance(k, bool):
            return {None: NONE, True: TRUE, False: FALSE}[k]
        return F.const(k)

    def _iter_items(self, it, ranges=True):
        """the elements of an iterable that is enumerable from the source - a display, a local or a module-level constant bound to one, a literal
        table, enumerate / zip / reversed of such, range of constants - as [(value, element node | None)]; None when it is not"""
        if isinstance(it, (ast.Tuple, ast.List, ast.Set)):
            if any(isinstance(e, ast.Starred) for e in it.elts):
                v = self.ev(it)
                return [(x, None) for x in v] if isinstance(v, PyTuple) else None
            return [(self.ev(e), e) for e in it.elts]
        if isinstance(it, ast.IfExp):
            c = self.decide(it.test)
            return None if c is None else self._iter_items(it.body if c else it.orelse, ranges)
        if isinstance(it, ast.Call) and not any(isinstance(a, ast.Starred) for a in it.args):
            d = dotted(it.func)
            if d in ("enumerate", "zip", "range", "reversed", "tuple", "list", "sorted") and (d in self.env or d in self.buffers):
                return None
            if d == "enumerate" and 1 <= len(it.args) + len(it.keywords) <= 2 and it.args:
                inner = self._iter_items(it.args[0], ranges)
                if inner is None:
                    return None
                start = 0
                if len(it.args) == 2 or it.keywords:
                    sv = self.ev(it.args[1] if len(it.args) == 2 else it.keywords[0].value)
                    ok, start = pykey(sv)
                    if not ok or not isinstance(start, int) or isinstance(start, bool):
                        return None
                return [(PyTuple((F.const(start + k), v)), None) for k, (v, _e) in enumerate(inner)]
            if d == "zip" and it.args and not it.keywords:
                cols = [self._iter_items(a, ranges) for a in it.args]
                if any(c is None for c in cols):
                    return None
                return [(PyTuple(tuple(c[k][0] for c in cols)), None) for k in range(min(len(c) for c in cols))]
            if d == "reversed" and len(it.args) == 1 and not it.keywords:
                inner = self._iter_items(it.args[0], ranges)
                return None if inner is None else inner[::-1]
            if d in ("tuple", "list") and len(it.args) == 1 and not it.keywords:
                return self._iter_items(it.args[0], ranges)
            if d == "range" and ranges and 1 <= len(it.args) <= 3 and not it.keywords:
                ks = [pykey(self.ev(a)) for a in it.args]
                if all(ok and isinstance(k, int) and not isinstance(k, bool) for ok, k in ks):
                    r = range(*[k for _ok, k in ks])
                    return [(F.const(k), None) for k in r] if len(r) <= 64 else None
                return None
            if isinstance(it.func, ast.Attribute) and it.func.attr in ("items", "keys", "values") and not it.args and not it.keywords:
                base = self.as_table(self.ev(it.func.value))
                if isinstance(base, DictValue):
                    if it.func.attr == "keys":
                        return [(self._key_value(k), None) for k in base.d]
                    if it.func.attr == "values":
                        return [(v, None) for v in base.d.values()]
                    return [(PyTuple((self._key_value(k), v)), None) for k, v in base.d.items()]
                return None
        if isinstance(it, (ast.Name, ast.BinOp, ast.Subscript)) and not (isinstance(it, ast.Name) and it.id in self.buffers):
            v = self.ev(it)
            if isinstance(v, PyTuple):
                return [(x, None) for x in v]
            if isinstance(v, DictValue):
                return [(self._key_value(k), None) for k in v.d]
        return None

    def _mentions_lazy(self, it):
        """the iterable is, or is enumerate / zip / list / tuple / iter of, a comprehension, a map(...) call or a local bound to a LazySeq"""
        if isinstance(it, (ast.ListComp, ast.GeneratorExp)):
            return True
        if isinstance(it, ast.Name):
            return it.id not in self.buffers and isinstance(self.env.get(it.id), LazySeq)
        if isinstance(it, ast.Call) and isinstance(it.func, ast.Name) and it.func.id not in self.env and it.func.id not in self.buffers and not it.keywords:
            if it.func.id == "map":
                return len(it.args) >= 2
            if it.func.id in ("enumerate", "zip", "list", "tuple", "iter"):
                return any(self._mentions_lazy(a) for a in it.args)
        return False

    def _lazy_seq(self, node):
        """a list comprehension / generator expression / map(...) call over a sequence that is not enumerable from the source -> LazySeq (None when the
        generic element cannot be formed)"""
        ph = "<i:%d.%d%s>" % (getattr(node, "lineno", 0), getattr(node, "col_offset", 0), self.chain)
        self.in_template += 1
        try:
            tmpl = self._generic_element(node, F.sym(ph))
        except Unsupported:
            tmpl = None
        finally:
            self.in_template -= 1
        if tmpl is None:
            return None
        return LazySeq("a sequence built element by element from one that is not enumerable from the source", tmpl, ph)

    def _generic_element(self, it, k):
        """value of the element at position k (a formula: a loop counter, a placeholder) of the iterable `it` (a node); None when it is not known"""
        plain = lambda v: v is not None and not is_unknown(v) and not isinstance(v, (tuple, DictValue))      # noqa: E731
        if isinstance(it, (ast.ListComp, ast.GeneratorExp)):
            if len(it.generators) != 1 or it.generators[0].ifs or it.generators[0].is_async:
                return None
            g = it.generators[0]
            names = {n.id for n in ast.walk(g.target) if isinstance(n, ast.Name)}
            if names & (self.buffers | set(self.pinned)):
                return None
            x = self._generic_element(g.iter, k)
            if x is None:
                return None
            missing = object()
            saved = {n: self.env.get(n, missing) for n in names}
            saved_alias = dict(self.alias_of)
            try:
                self._assign(g.target, x, it)
                return self.ev(it.elt)
            finally:
                for n, o in saved.items():
                    if o is missing:
                        self.env.pop(n, None)
                    else:
                        self.env[n] = o
                self.alias_of = saved_alias
        if isinstance(it, ast.Call) and not any(isinstance(a, ast.Starred) for a in it.args) and not it.keywords:
            d = dotted(it.func) or ""
            if d.split(".")[0] in self.env or d.split(".")[0] in self.buffers:
                d = ""
            if d == "range" and len(it.args) in (1, 2):
                vs = [self.ev(a) for a in it.args]
                if all(plain(v) for v in vs):
                    return k if len(vs) == 1 else need(vs[0]) + k
                return None
            if d == "enumerate" and len(it.args) in (1, 2):
                x = self._generic_element(it.args[0], k)
                start = self.ev(it.args[1]) if len(it.args) == 2 else F.const(0)
                return PyTuple((k + need(start), x)) if x is not None and plain(start) else None
            if d == "zip" and it.args:
                xs = [self._generic_element(a, k) for a in it.args]
                return None if any(x is None for x in xs) else PyTuple(xs)
            if d in ("list", "tuple", "iter") and len(it.args) == 1:
                return self._generic_element(it.args[0], k)
            if d in ("it.repeat", "itertools.repeat", "repeat") and len(it.args) in (1, 2):
                return self.ev(it.args[0])
            if d == "map" and len(it.args) >= 2:
                xs = [self._generic_element(a, k) for a in it.args[1:]]
                if any(x is None for x in xs):
                    return None
                # f(element of A, element of B, ...): the call is evaluated like any other (a lambda is applied, a module-level function followed)
                missing = object()
                tmp = ["<elem%d:%d.%d>" % (i, getattr(it, "lineno", 0), getattr(it, "col_offset", 0)) for i in range(len(xs))]
                saved = {n: self.env.get(n, missing) for n in tmp}
                call = ast.copy_location(ast.Call(func=it.args[0], args=[ast.copy_location(ast.Name(id=n, ctx=ast.Load()), it) for n in tmp], keywords=[]), it)
                try:
                    self.env.update(dict(zip(tmp, xs)))
                    return self.ev(call)
                finally:
                    for n, o in saved.items():
                        if o is missing:
                            self.env.pop(n, None)
                        else:
                            self.env[n] = o
            return None
        if isinstance(it, (ast.Name, ast.Attribute, ast.Subscript, ast.BinOp)):
            v = self.ev(it)
            if isinstance(v, LazySeq):
                return v.element(k)
            if plain(v):
                return F.fn("idx", need(v), k)
        return None

    def _comprehension(self, node):
        """a comprehension over iterables that are enumerable from the source: the display / literal table it builds; NotImplemented otherwise"""
        gens = node.generators
        names = {n.id for g in gens for n in ast.walk(g.target) if isinstance(n, ast.Name)}
        if any(g.is_async for g in gens) or names & (self.buffers | set(self.pinned)):
            return NotImplemented
        saved = {n: self.env.get(n) for n in names}
        saved_alias = dict(self.alias_of)
        out = []

        def rec(i):
            if i == len(gens):
                out.append((self.ev(node.key), self.ev(node.value)) if isinstance(node, ast.DictComp) else self.ev(node.elt))
                return True
            items = self._iter_items(gens[i].iter)
            if items is None or len(items) > 64:
                return False
            for v, _e in items:
                self._assign(gens[i].target, v, node)
                keep = True
                for c in gens[i].ifs:
                    t = self.decide(c)
                    if t is None:
                        return False
                    if not t:
                        keep = False
                        break
                if keep and not rec(i + 1):
                    return False
            return True
        try:
            ok = rec(0)
        finally:
            for n, o in saved.items():
                if o is None:
                    self.env.pop(n, None)
                else:
                    self.env[n] = o
            self.alias_of = saved_alias
        if not ok:
            return NotImplemented
        if isinstance(node, ast.DictComp):
            keys = [pykey(k) for k, _v in out]
            if not all(okk for okk, _k in keys):
                return Unknown("comprehension of a table with keys that are not constants")
            return DictValue({k: v for (_ok, k), (_kv, v) in zip(keys, out)})
        return PyTuple(out)

    def decide(self, test):
        r = self.cond(test, self)
        if r is not None:
            return r
        if id(test) in self.raise_only:
            return False
        if isinstance(test, ast.Compare) and len(test.ops) > 1:
            return self.decide(chain_test(test))
        if isinstance(test, ast.UnaryOp) and isinstance(test.op, ast.Not):
            r = self.decide(test.operand)
            return None if r is None else (not r)
        if isinstance(test, ast.BoolOp):
            out = True if isinstance(test.op, ast.And) else False
            for v in test.values:               # short circuit, left to right
                r = self.decide(v)
                if r is None:
                    return None
                if isinstance(test.op, ast.And) and r is False:
                    return False
                if isinstance(test.op, ast.Or) and r is True:
                    return True
            return out
        if isinstance(test, ast.Compare) and len(test.ops) == 1:
            r = self.compare(test)
            if r is not None:
                return r
        else:
            v = self.ev(test)
            r = truth(v)
            if r is not None:
                return r
            n = sym_of(v)
            if n is not None and self.inline and n in self.inline:
                return True            # a module-level function object
        return self.undecided(test)

    explore_hook = None

    def undecided(self, test):
        return self.explore_hook(test, self) if self.explore_hook is not None else None

    # ------------------------------------------------------------ statements
    def stmt(self, st):
        if self.done:
            return
        self._cur_stmt = st
        if isinstance(st, ast.For):
            self._for(st)
            return
        if isinstance(st, ast.Assign) and len(st.targets) == 1 and isinstance(st.targets[0], ast.Name) and isinstance(st.value, ast.Name) \
                and st.targets[0].id not in self.buffers and st.targets[0].id not in self.pinned:
            # x = X with X an array that is filled by stores (or a name bound to one): x denotes the same array object
            b = self.bname(st.value.id) if st.value.id in self.buffers else self.alias_of.get(st.value.id)
            super().stmt(st)
            if b is not None:
                self.alias_of[st.targets[0].id] = b
            return
        if isinstance(st, ast.While) and not st.orelse:
            ctr = counted_while(st)
            if ctr is not None and ctr not in self.buffers and ctr not in self.pinned:
                # `k = a; while k < n: ...; k += 1`: evaluated once for a generic iteration, like `for k in range(a, n)`
                self.ev(st.test)
                self.env[ctr] = F.sym(ctr)
                self.counters.add(ctr)
                self.run(st.body)
                return
        if isinstance(st, ast.Global):
            self.global_names.update(st.names)
            return
        if isinstance(st, (ast.FunctionDef,)) and self.fn_node is not None and st is not self.fn_node:
            # a nested function: a function value that closes over this scope; applied where it is called
            name = "<def:%s@%d.%d%s>" % (st.name, st.lineno, st.col_offset, self.chain)
            self.lambdas[name] = (st, self)
            if st.name not in self.pinned:
                self.buffers.discard(st.name)
                self.env[st.name] = F.sym(name)
            return
        if isinstance(st, ast.Match):
            self.ev(st.subject)
            for case in st.cases:
                t = match_test(st.subject, case.pattern, case.guard)
                c = None if t is None else (True if isinstance(t, ast.Constant) and t.value is True else self.decide(t))
                if c is True:
                    self.run(case.body)
                    return
                if c is None:
                    from .e2_eval import _assigned_names
                    for n in _assigned_names(st):
                        if n not in self.pinned and n not in self.buffers:
                            self.env[n] = Unknown("assigned under an undecided `case`")
                    for n in _assigned_names(st):
                        if n in self.buffers:
                            self.seq += 1
                            self.cell_seq.append(self.seq)
                            self.cells.append((self.bname(n), Unknown("a store under an undecided `case`"), Unknown("a store under an undecided `case`"), st))
                    return
            return
        if isinstance(st, ast.Try):
            # the path on which nothing is raised: body, else, finally (the handlers belong to the exceptional paths)
            self.run(st.body)
            self.run(st.orelse)
            self.run(st.finalbody)
            return
        if isinstance(st, ast.With):
            for it in st.items:
                v = self.ev(it.context_expr)
                if it.optional_vars is not None:
                    self._assign(it.optional_vars, v, st)
            self.run(st.body)
            return
        if isinstance(st, ast.If):
            c = self.decide(st.test)
            if c is True:
                self.run(st.body)
                return
            if c is False:
                self.run(st.orelse)
                return
        if isinstance(st, ast.AugAssign) and isinstance(st.target, ast.Name) and isinstance(st.op, ast.Add) and st.target.id not in self.buffers \
                and isinstance(self.env.get(st.target.id), PyTuple):
            v = self.ev(st.value)
            if isinstance(v, PyTuple):
                self._assign(st.target, PyTuple(self.env[st.target.id] + v), st)      # result += (x,)
                return
        if isinstance(st, ast.AugAssign) and isinstance(st.target, ast.Name) and st.target.id not in self.buffers and st.target.id in self.alias_of:
            # x op= v on a local that denotes an array object of this evaluation: an in-place update of that object
            self.inplace[st.target.id] = self.inplace.get(st.target.id, 0) + 1
            b = self.alias_of[st.target.id]
            super().stmt(st)
            self._store_full(ast.copy_location(ast.Name(id=st.target.id, ctx=ast.Load()), st), self.env.get(st.target.id), st, alias=b)
            return
        if isinstance(st, ast.AugAssign) and isinstance(st.target, ast.Name):
            self.inplace[st.target.id] = self.inplace.get(st.target.id, 0) + 1
            # `h = d["k"]; h /= Q` on an array: an in-place update of the element of the container
            cur = self.env.get(st.target.id) if st.target.id not in self.buffers else None
            u = unfn(cur) if cur is not None and not is_unknown(cur) and not isinstance(cur, (tuple, DictValue)) else None
            if u and u[0] == "idx" and len(u[1]) == 2 and not isinstance(u[1][0], str) and self.is_array_object(sym_of(u[1][0])):
                super().stmt(st)
                nv = self.env.get(st.target.id)
                self.seq += 1
                self.cell_seq.append(self.seq)
                self.cells.append((sym_of(u[1][0]), u[1][1], nv, st))
                self.env[st.target.id] = cur
                return
        return super().stmt(st)

    def _for(self, st):
        it = st.iter
        d = dotted(it.func) if isinstance(it, ast.Call) else None
        t = st.target
        for a in ([it] if isinstance(it, ast.Name) else (it.args if isinstance(it, ast.Call) and d in ("zip", "enumerate") else [])):
            self._promote(a)

        def bind(tg, v):
            self._assign(tg, v, st)
        # a loop over a display (`for arr in (SRSmax, hist):`, `for k, x in enumerate((a, b)):`): executed element by element; a loop variable bound
        # to an array object denotes that object
        if not st.orelse and (self._display(it) or (isinstance(it, ast.Call) and d in ("enumerate", "zip", "reversed") and it.args
                                                     and all(self._display(a) for a in it.args))):
            items = self._iter_items(it, ranges=False)
            if items is not None and len(items) <= 16 and not any(isinstance(n, (ast.Break, ast.Continue)) for x in st.body for n in ast.walk(x)):
                for v, e in items:
                    bind(t, v)
                    if isinstance(t, ast.Name) and t.id not in self.buffers and isinstance(e, ast.Name):
                        b = self.bname(e.id) if e.id in self.buffers else self.alias_of.get(e.id)
                        if b is not None:
                            self.alias_of[t.id] = b
                    self.run(st.body)
                    if self.done:
                        break
                return
        if self._mentions_lazy(it):
            # a loop over a sequence built element by element (a comprehension, map(...), enumerate / zip of one): one generic iteration on its generic
            # element; the position is the loop's own counter where it has one (enumerate, zip with a range)
            cname = None
            if d == "enumerate" and len(it.args) == 1 and isinstance(t, (ast.Tuple, ast.List)) and len(t.elts) == 2 and isinstance(t.elts[0], ast.Name):
                cname = t.elts[0].id
            elif d == "zip" and isinstance(t, (ast.Tuple, ast.List)) and len(t.elts) == len(it.args):
                cname = next((e.id for e, a in zip(t.elts, it.args) if isinstance(e, ast.Name) and isinstance(a, ast.Call) and dotted(a.func) == "range"
                              and len(a.args) == 1), None)
            if cname is not None and cname not in self.buffers:
                k = F.sym(cname)
            else:
                cname = None
                k = F.sym("<k:%s>" % next((n.id for n in ast.walk(t) if isinstance(n, ast.Name)), "seq"))
            try:
                x = self._generic_element(it, k)
            except Unsupported:
                x = None
            if x is not None:
                if cname is not None:
                    self.counters.add(cname)
                bind(t, x)
                self.run(st.body)
                return
        if d == "enumerate" and len(it.args) == 1 and isinstance(t, (ast.Tuple, ast.List)) and len(t.elts) == 2 and isinstance(t.elts[0], ast.Name):
            arr = self.ev(it.args[0])
            k = F.sym(t.elts[0].id)
            self.counters.add(t.elts[0].id)
            bind(t.elts[0], k)
            if isinstance(arr, LazySeq):
                bind(t.elts[1], arr.element(k))
            elif is_unknown(arr) or isinstance(arr, (tuple, DictValue)):
                bind(t.elts[1], Unknown("loop over an undetermined sequence"))
            else:
                bind(t.elts[1], F.fn("idx", need(arr), k))
        elif d == "range" and isinstance(t, ast.Name):
            for a in it.args:
                self.ev(a)
            bind(t, F.sym(t.id))
            self.counters.add(t.id)
        elif d == "zip" and isinstance(t, (ast.Tuple, ast.List)) and len(t.elts) == len(it.args) and not it.keywords \
                and all(isinstance(e, ast.Name) for e in t.elts):
            # for k, x in zip(range(n), X): the elements with one common index - the counter itself when one of the sequences is a range
            cnt = [e.id for e, a in zip(t.elts, it.args) if isinstance(a, ast.Call) and dotted(a.func) in ("range", "it.count", "itertools.count", "count")]
            k = F.sym(cnt[0]) if cnt else F.sym("<k:%s>" % t.elts[0].id)
            self.counters.update(cnt)
            for e, a in zip(t.elts, it.args):
                if isinstance(a, ast.Call) and dotted(a.func) in ("range", "it.count", "itertools.count", "count"):
                    for x in a.args:
                        self.ev(x)
                    bind(e, F.sym(e.id) if e.id != (cnt[0] if cnt else None) else k)
                    continue
                arr = self.ev(a)
                if isinstance(arr, LazySeq):
                    bind(e, arr.element(k))
                elif is_unknown(arr) or isinstance(arr, (tuple, DictValue)):
                    bind(e, F.sym(e.id))
                else:
                    bind(e, F.fn("idx", need(arr), k))
        elif isinstance(t, ast.Name) and isinstance(it, (ast.Name, ast.Attribute)):
            arr = self.ev(it)
            if is_unknown(arr) or isinstance(arr, (tuple, DictValue)):
                bind(t, F.sym(t.id))
            else:
                bind(t, F.fn("idx", need(arr), F.sym("<k:%s>" % t.id)))
        else:
            self.ev(it)

            def gen(tg):
                if isinstance(tg, ast.Name):
                    bind(tg, F.sym(tg.id))
                elif isinstance(tg, (ast.Tuple, ast.List)):
                    for e in tg.elts:
                        gen(e)
            gen(t)
        self.run(st.body)

    def _assign(self, target, v, st, aug=False):
        if isinstance(target, (ast.Tuple, ast.List)) and not isinstance(v, tuple) and not is_unknown(v) and not isinstance(v, DictValue) \
                and not any(isinstance(e, ast.Starred) for e in target.elts):
            for k, e in enumerate(target.elts):
                self._assign(e, F.fn("idx", need(v), F.const(k)), st)
            return
        if isinstance(target, ast.Name):
            self.alias_of.pop(target.id, None)
        if isinstance(target, ast.Name) and target.id in self.global_names:
            self.globals[target.id] = v
        if isinstance(target, ast.Name) and target.id in self.buffers:
            b = self.bname(target.id)
            other = sym_of(v)
            if other is not None and other != b and self.is_array_object(other):
                self.bufmap[target.id] = other                 # X = helper(...) / X = Y: the name now denotes that array object
                self.shared.add(target.id)
            elif not is_unknown(v) and not isinstance(v, (tuple, DictValue)) and depends(v, b):
                self.env["<cur:%s>" % b] = v                   # X = X.ravel() / X /= Q : the same array, transformed
            else:
                if target.id in self.shared or any(self.bname(o) == b for o in self.buffers if o != target.id):
                    # the name denoted an object shared with the caller, a callee or another name: from here on it denotes a new one
                    b = "%s@%s/%s" % (target.id, self.chain, getattr(st, "lineno", 0))
                    self.bufmap[target.id] = b
                    self.shared.discard(target.id)
                self.env.pop("<cur:%s>" % b, None)
                self.env["<init:%s>" % b] = v
            return
        if isinstance(target, ast.Subscript) and isinstance(target.value, ast.Name) and target.value.id in self.buffers:
            try:
                ix = self._index_value(target.slice)
            except Unsupported as e:
                ix = Unknown(str(e))
            b = self.bname(target.value.id)
            view = self._view_of(self.env.get("<init:%s>" % b)) if ("<cur:%s>" % b) not in self.env else None
            if view is not None and view[0] != b:
                # the name denotes a row / slab / entry of another array object (`for row in A:`, `h = d["k"]`): a store into it is a store into that object
                b, ix = view[0], (view[1] if self._full_index(ix) else Unknown("a store through a view under a partial index"))
            self.seq += 1
            self.cell_seq.append(self.seq)
            self.cells.append((b, ix, v, st))
            return
        if isinstance(target, ast.Subscript) and isinstance(target.value, ast.Name) and target.value.id not in self.buffers and _full_slice(target.slice):
            self._store_full(target.value, v, st)          # X[...] = v on a local that holds a value or denotes a row of an array object
            return
        if isinstance(target, ast.Subscript) and isinstance(target.value, ast.Name) and target.value.id not in self.buffers:
            self._promote(target.value)                    # a store into part of a freshly allocated array: from here on an array object
            if target.value.id in self.buffers:
                return self._assign(target, v, st, aug)
        if isinstance(target, ast.Subscript) and not (isinstance(target.value, ast.Name) and target.value.id in self.buffers) \
                and isinstance(target.value, (ast.Subscript, ast.Attribute, ast.Name)):
            base = self.ev(target.value)
            if not is_unknown(base) and not isinstance(base, (tuple, DictValue)):
                try:
                    ix = self._index_value(target.slice)
                except Unsupported as e:
                    ix = Unknown(str(e))
                self.seq += 1
                self.deep.append((base, ix, v, st))
                if isinstance(target.value, ast.Name):
                    return
        return super()._assign(target, v, st, aug)

    # ------------------------------------------------------------ effects on arrays: views, out=, in-place methods
    def _promote(self, node):
        """`A = np.empty(shape)` held by a plain local that is now iterated over / sliced for writing (`for row in A:`, `row = A[k]`): from here on the
        name denotes an array object of its own, so that stores through the rows are stores into it"""
        if isinstance(node, ast.Name) and node.id not in self.buffers and node.id not in self.pinned and node.id in self.env:
            cur = self.env[node.id]
            u = unfn(cur) if (cur is not None and not is_unknown(cur) and not isinstance(cur, (tuple, DictValue))) else None
            if u and u[0] in ("empty", "zeros"):
                self.buffers.add(node.id)
                self.env["<init:%s>" % node.id] = cur
                del self.env[node.id]
                for m, val in list(self.env.items()):
                    if val is cur and not m.startswith("<") and m not in self.pinned and m not in self.buffers:
                        self.alias_of[m] = node.id

    def as_table(self, v):
        """a literal table, or a dictionary object of this evaluation that was created from one and filled under constant keys only: its contents as
        a DictValue (entry order = creation, then stores); None otherwise"""
        if isinstance(v, DictValue):
            return v
        n = sym_of(v) if (v is not None and not is_unknown(v) and not isinstance(v, tuple)) else None
        if n is None or not self.is_array_object(n):
            return None
        init, cells, e = None, [], self
        while e is not None:
            if init is None:
                init = e.env.get("<init:%s>" % n)
            cells = [c for c in e.cells if c[0] == n and c not in cells] + cells
            e = e.parent
        if not isinstance(init, DictValue) or ("<cur:%s>" % n) in self.env:
            return None
        d = dict(init.d)
        for _nm, ix, val, _st in cells:
            ok, k = pykey(ix) if not is_unknown(ix) else (False, None)
            if not ok:
                return None
            d[k] = val
        return DictValue(d)

    def _view_of(self, v):
        """idx(A, key) with A an array object of this evaluation -> (name of A, key) else None"""
        u = unfn(v) if (v is not None and not is_unknown(v) and not isinstance(v, (tuple, DictValue))) else None
        if u and u[0] == "idx" and len(u[1]) == 2 and not isinstance(u[1][0], str) and not isinstance(u[1][1], str) and self.is_array_object(sym_of(u[1][0])):
            return sym_of(u[1][0]), u[1][1]
        return None

    @staticmethod
    def _full_index(ix):
        """`...`, `:` or a tuple of these: every element"""
        if ix is None or is_unknown(ix):
            return False
        u = unfn(ix)
        parts = u[1] if (u and u[0] == "tuple") else [ix]
        for p_ in parts:
            if isinstance(p_, str):
                return False
            if sym_of(p_) == "Ellipsis":
                continue
            up = unfn(p_)
            if not (up and up[0] == "slice" and all(not isinstance(q, str) and sym_of(q) == "None" for q in up[1])):
                return False
        return True

    def index_kind(self, sl):
        """'view' when `A[sl]` is basic indexing (slices, `...`, new axes, integers: constants and loop counters) - a view of A, so that writing through it
        (out=, .fill, np.copyto) writes A; 'copy' when an index is a mask / an index vector / a list (advanced indexing gives a copy: the write is lost);
        None when the evaluator cannot tell"""
        kind = "view"
        for e in (sl.elts if isinstance(sl, ast.Tuple) else [sl]):
            if isinstance(e, ast.Slice) or (isinstance(e, ast.Constant) and (e.value is None or e.value is Ellipsis or (isinstance(e.value, int) and not isinstance(e.value, bool)))) \
                    or (isinstance(e, ast.Attribute) and dotted(e) in ("np.newaxis", "numpy.newaxis")):
                continue
            if isinstance(e, (ast.List, ast.ListComp)):
                return "copy"
            v = self.ev(e)
            if isinstance(v, tuple):
                return "copy"
            if is_unknown(v) or isinstance(v, DictValue):
                kind = None
                continue
            if v.is_const() and v.const_value().denominator == 1:
                continue
            n = sym_of(v)
            if n is not None and (n in self.counters or n.startswith("<k:") or n == "<task>"):
                continue
            u = unfn(v)
            if u and (u[0].startswith(("cmp:", "mask:")) or u[0] in ("invert", "not", "where", "sel") or u[0].split(".")[-1] in
                      ("logical_not", "logical_and", "logical_or", "nonzero", "flatnonzero", "argsort", "isnan", "isfinite", "ix_", "arange")):
                return "copy"
            if n is None and u is None:
                continue                  # arithmetic on integers (k + 1)
            kind = None
        return kind

    def _store_full(self, tgt, v, st, alias=None):
        """the effect `tgt[...] = v` of a call that writes its result into an existing array (`out=tgt`, `tgt.fill(v)`, `np.copyto(tgt, v)`) or of an
        in-place operator on a local that denotes an array object.  What the target denotes decides where the store goes: an array object of this
        evaluation, a row / entry of one (a view), or a local that holds a value (then every local bound to the very same value follows)."""
        if isinstance(v, PyTuple):
            v = tuple(v)
        if isinstance(tgt, ast.Subscript):
            k = self.index_kind(tgt.slice)
            if k == "copy":
                return                    # A[mask] is a copy: what is written into it never reaches A
            if k is None:
                v = Unknown("written through an index that may be a view or a copy")
        if isinstance(tgt, (ast.Subscript, ast.Attribute)):
            t = copy.copy(tgt)
            t.ctx = ast.Store()
            self._assign(t, v, st)
            return
        if not isinstance(tgt, ast.Name) or tgt.id in self.pinned:
            return
        n = tgt.id
        plainv = v is not None and not is_unknown(v) and not isinstance(v, (tuple, DictValue))

        def whole(b):
            if plainv and depends(v, b):
                self.env["<cur:%s>" % b] = v           # the same array, transformed in place
            else:
                self.seq += 1
                self.cell_seq.append(self.seq)
                self.cells.append((b, F.sym("Ellipsis"), v, st))
        if n in self.buffers:
            b = self.bname(n)
            view = self._view_of(self.env.get("<init:%s>" % b)) if ("<cur:%s>" % b) not in self.env else None
            if view is not None and view[0] != b:
                self.seq += 1
                self.cell_seq.append(self.seq)
                self.cells.append((view[0], view[1], v, st))
            else:
                whole(b)
            return
        if alias is None:
            alias = self.alias_of.get(n)
        if alias is not None:
            whole(alias)
            self.env[n] = v
            self.alias_of[n] = alias
            return
        cur = self.env.get(n)
        view = self._view_of(cur)
        if view is not None:
            self.seq += 1
            self.cell_seq.append(self.seq)
            self.cells.append((view[0], view[1], v, st))
            return
        uc = unfn(cur) if (cur is not None and not is_unknown(cur) and not isinstance(cur, (tuple, DictValue))) else None
        if uc and uc[0] in ("empty", "zeros") and plainv and not isinstance(uc[1][0], str) and v.is_const():
            v = F.fn("zeros", uc[1][0]) + v          # a freshly allocated array filled with one number: its shape stays known
        self.env[n] = v
        if cur is not None:
            for m, val in list(self.env.items()):
                if val is cur and m != n and not m.startswith("<") and m not in self.pinned:
                    self.env[m] = v                   # another local bound to the very same array

    _LIST_UNKNOWN = ("pop", "remove", "clear", "reverse", "sort")
    _ARRAY_UNKNOWN = ("resize", "put", "itemset", "partition", "setfield", "byteswap")
    _NP_WRITERS = ("put", "place", "putmask", "fill_diagonal", "put_along_axis")

    def _effects(self, node):
        """calls that change an existing object instead of (or besides) returning a value; NotImplemented for every other call"""
        f = node.func
        d = dotted(f) or ""
        st = self._cur_stmt if self._cur_stmt is not None else node
        kws = {k.arg: k.value for k in node.keywords if k.arg is not None}
        if "out" in kws and not (isinstance(kws["out"], ast.Constant) and kws["out"].value is None):
            tgt = kws["out"]
            bare = copy.copy(node)
            bare.keywords = [k for k in node.keywords if k.arg != "out"]
            v = Unknown("a ufunc call with where=") if "where" in kws else self.ev(bare)
            if isinstance(tgt, ast.Tuple):
                for e in tgt.elts:
                    self._store_full(e, Unknown("one of several out= arrays"), st)
                return v
            self._store_full(tgt, v, st)
            return self.ev(tgt) if isinstance(tgt, (ast.Name, ast.Subscript, ast.Attribute)) else v
        if _is_np(d) and d.count(".") == 1 and node.args:
            last = d.split(".")[1]
            if last == "copyto" and len(node.args) >= 2 and not (set(kws) - {"casting"}):
                self._store_full(node.args[0], self.ev(node.args[1]), st)
                return NONE
            if last in self._NP_WRITERS or last == "copyto":
                self._store_full(node.args[0], Unknown(f"np.{last} writes into the array"), st)
                return NONE
        if isinstance(f, ast.Attribute) and isinstance(f.value, (ast.Name, ast.Subscript)) and not _is_np(d):
            attr = f.attr
            if attr == "fill" and len(node.args) == 1 and not node.keywords:
                self._store_full(f.value, self.ev(node.args[0]), st)
                return NONE
            if attr in self._ARRAY_UNKNOWN and isinstance(f.value, ast.Name) and (f.value.id in self.buffers or f.value.id in self.env):
                self._store_full(f.value, Unknown(f"in-place .{attr}()"), st)
                return NONE
            if isinstance(f.value, ast.Name) and f.value.id not in self.pinned:
                n = f.value.id
                if n in self.buffers:
                    if attr == "update" and isinstance(self.env.get("<init:%s>" % self.bname(n)), DictValue):
                        items = self._update_items(node)
                        for k, val in (items if items is not None else [(Unknown("dict.update with arguments that are not literal"), Unknown("dict.update"))]):
                            self.seq += 1
                            self.cell_seq.append(self.seq)
                            self.cells.append((self.bname(n), k, val, st))
                        return NONE
                    if attr == "sort" and not node.args:
                        self._store_full(f.value, F.fn("call:np.sort", need(self.ev(f.value))), st)
                        return NONE
                    return NotImplemented
                cur = self.env.get(n)
                if isinstance(cur, PyTuple):
                    new, ret = None, NONE
                    if attr == "append" and len(node.args) == 1 and not node.keywords:
                        new = PyTuple(cur + (self.ev(node.args[0]),))
                    elif attr == "extend" and len(node.args) == 1 and not node.keywords:
                        y = self.ev(node.args[0])
                        new = PyTuple(cur + tuple(y)) if isinstance(y, tuple) else Unknown("list.extend with a value that is not a display")
                    elif attr == "insert" and len(node.args) == 2 and not node.keywords:
                        ok, k = pykey(self.ev(node.args[0]))
                        if ok and isinstance(k, int) and not isinstance(k, bool):
                            lst = list(cur)
                            lst.insert(k, self.ev(node.args[1]))
                            new = PyTuple(lst)
                        else:
                            new = Unknown("list.insert at a position that is not constant")
                    elif attr == "pop" and not node.args and not node.keywords and len(cur):
                        new, ret = PyTuple(cur[:-1]), cur[-1]
                    elif attr in self._LIST_UNKNOWN:
                        new = Unknown(f"list.{attr}()")
                    if new is not None:
                        self.env[n] = new
                        for m, val in list(self.env.items()):
                            if val is cur and m != n and not m.startswith("<") and m not in self.pinned:
                                self.env[m] = new
                        return ret
                    return NotImplemented
                if isinstance(cur, DictValue):
                    if attr == "update":
                        items = self._update_items(node)
                        if items is None or any(not pykey(k)[0] for k, _v in items):
                            self.env[n] = Unknown("dict.update with arguments that are not literal")
                        else:
                            dnew = dict(cur.d)
                            dnew.update({pykey(k)[1]: val for k, val in items})
                            self.env[n] = DictValue(dnew)
                        return NONE
                    if attr == "setdefault" and 1 <= len(node.args) <= 2 and not node.keywords:
                        ok, k = pykey(self.ev(node.args[0]))
                        if ok and k in cur.d:
                            return cur.d[k]
                        if ok:
                            dnew = dict(cur.d)
                            dnew[k] = self.ev(node.args[1]) if len(node.args) == 2 else NONE
                            self.env[n] = DictValue(dnew)
                            return dnew[k]
                        self.env[n] = Unknown("dict.setdefault with a key that is not constant")
                        return Unknown("dict.setdefault")
                    if attr in ("pop", "popitem", "clear"):
                        self.env[n] = Unknown(f"dict.{attr}()")
                        return Unknown(f"dict.{attr}()")
                    return NotImplemented
                if attr == "sort" and not node.args and cur is not None and not is_unknown(cur) and not isinstance(cur, (tuple, DictValue)) and sym_of(cur) is None:
                    self._store_full(f.value, F.fn("call:np.sort", need(cur)), st)
                    return NONE
        return NotImplemented

    def _update_items(self, node):
        """[(key value, value)] of d.update({...}, k=v) / d.update(k=v); None when an argument is not a literal table"""
        out = []
        if len(node.args) > 1 or any(k.arg is None for k in node.keywords):
            return None
        if node.args:
            a = self.ev(node.args[0])
            if not isinstance(a, DictValue):
                return None
            out += [(self._key_value(k), v) for k, v in a.d.items()]
        out += [(S(k.arg), self.ev(k.value)) for k in node.keywords]
        return out

    def _apply_lambda(self, name, node):
        """the value of calling the lambda `name` with the arguments of the call `node`"""
        entry = self.lambdas[name]
        if entry[0] == "partial":
            # functools.partial(f, *bound, **boundkw)(args): f(*bound, *args, **boundkw, **kw)
            fname = sym_of(entry[1])
            if fname is not None and fname not in self.lambdas and self.inline and fname in self.inline:
                return self._inline_call(node, fn=self.inline[fname], name=fname, pre_pos=entry[2], pre_kw=entry[3])
            return NotImplemented
        lam, owner = entry
        if isinstance(lam, ast.FunctionDef):
            # a nested function called in the scope that defines it: its free names are read there, at the time of the call
            if owner is not self or any(isinstance(n, (ast.Nonlocal, ast.Global, ast.Yield, ast.YieldFrom, ast.Await)) for n in ast.walk(lam)):
                return NotImplemented
            bound = {x.arg for x in lam.args.posonlyargs + lam.args.args + lam.args.kwonlyargs}
            bound |= {n.id for n in ast.walk(lam) if isinstance(n, ast.Name) and isinstance(n.ctx, ast.Store)}
            bound |= {n.name for n in ast.walk(lam) if isinstance(n, ast.FunctionDef) and n is not lam}
            implicit = {}
            for n in sorted({n.id for n in ast.walk(lam) if isinstance(n, ast.Name)} - bound):
                if n in self.buffers:
                    # an array object of this scope: the object itself where the nested function stores into it, its current value where it only reads it
                    implicit[n] = F.sym(self.bname(n)) if n in _stored_names(lam) else self.ev(ast.copy_location(ast.Name(id=n, ctx=ast.Load()), lam))
                elif n in self.env:
                    implicit[n] = self.env[n]
            return self._inline_call(node, fn=lam, name=lam.name, implicit=implicit)
        a = lam.args
        params = [x.arg for x in a.posonlyargs + a.args]
        if a.vararg or a.kwarg or a.kwonlyargs or any(isinstance(x, ast.Starred) for x in node.args) or any(k.arg is None for k in node.keywords) \
                or len(node.args) > len(params):
            return NotImplemented
        env = {}
        for p_, x in zip(params, node.args):
            env[p_] = self.ev(x)
        for k in node.keywords:
            if k.arg not in params or k.arg in env:
                return NotImplemented
            env[k.arg] = self.ev(k.value)
        dflt = dict(zip(params[::-1], (a.defaults or [])[::-1]))
        for p_ in params:
            if p_ not in env:
                if p_ not in dflt:
                    return NotImplemented
                env[p_] = (owner or self).ev(dflt[p_])
        if owner is None:
            # a module-level lambda: its free names are module-level names
            sub = type(self)(None, env=env, cond=self.cond, src=self.src, funcs=None, subscript=self.subscript, call=self.call_hook, binop=self.binop_hook)
            self._share(sub, node)
            v = sub.ev(lam.body)
            self._merge(sub)
            return v
        if set(params) & (owner.buffers | set(owner.pinned)):
            return NotImplemented
        missing = object()
        saved = {p_: owner.env.get(p_, missing) for p_ in params}
        owner.env.update(env)
        try:
            return owner.ev(lam.body)
        finally:
            for p_, o in saved.items():
                if o is missing:
                    owner.env.pop(p_, None)
                else:
                    owner.env[p_] = o

    def _share(self, sub, node):
        """what an evaluator of a callee has in common with its caller"""
        sub.inline = self.inline
        sub.inline_depth = self.inline_depth + 1
        sub.module_consts = self.module_consts
        sub.hooks, sub.sub_hooks, sub.raise_only, sub.explore_hook = self.hooks, self.sub_hooks, self.raise_only, self.explore_hook
        sub.loop_unroll, sub.loop_once, sub.forward_stores, sub.erase_T = self.loop_unroll, self.loop_once, self.forward_stores, self.erase_T
        sub.seq = self.seq
        sub.globals = self.globals
        sub.lambdas, sub.arrays, sub.modfuncs, sub.parent = self.lambdas, self.arrays, self.modfuncs, self
        sub.chain = "%s/%s.%s" % (self.chain, getattr(node, "lineno", 0), getattr(node, "col_offset", 0))
        sub.in_template = self.in_template
        sub.foreign = set(self.foreign) | {self.bname(b) for b in self.buffers}

    def _merge(self, sub):
        self.calls.extend(sub.calls)
        self.call_seq.extend(sub.call_seq)
        self.cells.extend(sub.cells)
        self.cell_seq.extend(sub.cell_seq)
        self.deep.extend(sub.deep)
        self.seq = sub.seq

    # ------------------------------------------------------------ calls
    def _record_call(self, node):
        """as in the base class, with `*display` and `**table` spliced into the recorded positional and keyword values"""
        name = dotted(node.func)
        if name is None and isinstance(node.func, ast.Attribute):
            name = "." + node.func.attr
        if name is None:
            return
        pos, kws = [], {}
        for a in node.args:
            if isinstance(a, ast.Starred):
                v = self.ev(a.value)
                if isinstance(v, tuple):
                    pos.extend(v)
                else:
                    pos.append(Unknown("unpacking of a value that is not a display"))
            else:
                pos.append(self.ev(a))
        for k in node.keywords:
            if k.arg is None:
                v = self.as_table(self.ev(k.value))
                if isinstance(v, DictValue):
                    kws.update({q: e for q, e in v.d.items() if isinstance(q, str)})
            else:
                kws[k.arg] = self.ev(k.value)
        self.seq += 1
        self.call_seq.append(self.seq)
        self.calls.append((name, pos, kws, node))

    def _call(self, node):
        r = self._call3(node)
        if isinstance(r, PyTuple) and not (isinstance(node.func, ast.Name) and node.func.id in ("tuple", "list") and "tuple" not in self.env):
            return tuple(r)               # np.array((a, b)) is a vector, not a display
        return r

    def _call3(self, node):
        if isinstance(node.func, ast.Name) and node.func.id in ("tuple", "list") and len(node.args) == 1 and not node.keywords and node.func.id not in self.env:
            v = self.ev(node.args[0])
            if isinstance(v, PyTuple):
                return v
        if isinstance(node.func, ast.Name) and node.func.id == "dict" and len(node.args) == 1 and not node.keywords and "dict" not in self.env \
                and isinstance(node.args[0], ast.Call) and dotted(node.args[0].func) == "zip" and len(node.args[0].args) == 2 and "zip" not in self.env:
            ks, vs = (self.ev(a) for a in node.args[0].args)          # dict(zip(KEYS, VALUES)) on two displays of literal keys / values
            if isinstance(ks, tuple) and isinstance(vs, tuple) and len(ks) == len(vs):
                keys = [pykey(k) for k in ks]
                if all(ok for ok, _k in keys):
                    return DictValue({k: v for (_ok, k), v in zip(keys, vs)})
        if isinstance(node.func, ast.Name) and node.func.id == "dict" and not node.args and node.keywords and all(k.arg is not None for k in node.keywords) \
                and "dict" not in self.env:
            return DictValue({k.arg: self.ev(k.value) for k in node.keywords})
        if isinstance(node.func, ast.Name) and node.func.id == "dict" and len(node.args) == 1 and not node.keywords and "dict" not in self.env:
            v = self.ev(node.args[0])               # dict(pairs) on a display of (key, value) displays; dict(table)
            if isinstance(v, DictValue):
                return DictValue(dict(v.d))
            if isinstance(v, PyTuple) and all(isinstance(x, tuple) and len(x) == 2 for x in v):
                keys = [pykey(x[0]) for x in v]
                if all(ok for ok, _k in keys):
                    return DictValue({k: x[1] for (_ok, k), x in zip(keys, v)})
        if isinstance(node.func, ast.Name) and node.func.id not in self.env and node.func.id not in self.buffers and node.func.id in (self.module_consts or {}):
            fields = _namedtuple_fields(self.module_consts[node.func.id])
            if fields is not None and not any(isinstance(x, ast.Starred) for x in node.args) and all(k.arg in fields for k in node.keywords) \
                    and len(node.args) + len(node.keywords) == len(fields) and not any(k.arg in fields[:len(node.args)] for k in node.keywords):
                # NAME = namedtuple("NAME", "f1 f2") at module level: NAME(x, y) / NAME(f2=y, f1=x) is the display (x, y)
                got = dict(zip(fields, [self.ev(x) for x in node.args]))
                got.update({k.arg: self.ev(k.value) for k in node.keywords})
                if len(got) == len(fields):
                    return PyTuple(got[f] for f in fields)
        if isinstance(node.func, ast.Name) and node.func.id == "slice" and 1 <= len(node.args) <= 3 and not node.keywords and "slice" not in self.env \
                and "slice" not in self.buffers and not any(isinstance(x, ast.Starred) for x in node.args):
            # the builtin slice object is the value `lo:hi:step` denotes inside a subscript: X[slice(a, b)] is X[a:b], slice(b) is `:b`
            parts = []
            for x in node.args:
                v = self.ev(x)
                if is_unknown(v):
                    return v
                if isinstance(v, (tuple, DictValue)):
                    parts = None
                    break
                parts.append(need(v))
            if parts is not None:
                if len(parts) == 1:
                    parts = [F.sym("None"), parts[0]]
                while len(parts) < 3:
                    parts.append(F.sym("None"))
                return F.fn("slice", *parts)
        if isinstance(node.func, ast.Name) and node.func.id == "map" and len(node.args) >= 2 and not node.keywords and "map" not in self.env \
                and "map" not in self.buffers and not any(isinstance(x, ast.Starred) for x in node.args):
            r = self._lazy_seq(node)
            if r is not None:
                return r
        r = self._effects(node)
        if r is not NotImplemented:
            return r
        if dotted(node.func) in ("partial", "functools.partial", "ft.partial") and node.args and not any(isinstance(x, ast.Starred) for x in node.args) \
                and all(k.arg is not None for k in node.keywords) and "partial" not in self.env:
            fv = self.ev(node.args[0])
            if not is_unknown(fv) and not isinstance(fv, (tuple, DictValue)) and sym_of(fv) is not None:
                name = "<partial:%d.%d%s>" % (getattr(node, "lineno", 0), getattr(node, "col_offset", 0), self.chain)
                self.lambdas[name] = ("partial", fv, tuple(self.ev(x) for x in node.args[1:]), {k.arg: self.ev(k.value) for k in node.keywords})
                return F.sym(name)
        for h in self.hooks:
            r = h(node, self)
            if r is not NotImplemented:
                return r
        if self.inline:
            r = self._inline_call(node)
            if r is not NotImplemented:
                return r
        r = array_call(node, self)
        if r is not NotImplemented:
            self._record_call(node)
            return r
        # a call through a local that holds a value, or through an expression that selects one (`TABLE[key](x)`, `(f if c else g)(x)`): apply(value, arguments)
        fv = None
        if isinstance(node.func, ast.Name) and node.func.id in self.env and node.func.id not in self.buffers:
            fv = self.env[node.func.id]
        elif isinstance(node.func, (ast.Subscript, ast.IfExp, ast.Lambda, ast.Call)):
            fv = self.ev(node.func)
            if is_unknown(fv):
                return fv
        if fv is not None:
            if not is_unknown(fv) and not isinstance(fv, (tuple, DictValue)):
                fname = sym_of(fv)
                if fname is not None and fname in self.lambdas:
                    r = self._apply_lambda(fname, node)
                    if r is not NotImplemented:
                        return r
                if fname is not None and self.inline and fname in self.inline:
                    r = self._inline_call(node, fn=self.inline[fname], name=fname)     # a local that holds a module-level function
                    if r is not NotImplemented:
                        return r
                self._record_call(node)
                args = [fv]
                for a in node.args:
                    v = self.ev(a)
                    if is_unknown(v):
                        return v
                    if isinstance(v, tuple):
                        if any(is_unknown(x) or isinstance(x, tuple) for x in v):
                            return Unknown("nested tuple argument")
                        v = F.fn("tuple", *[need(x) for x in v])
                    if isinstance(v, DictValue):
                        return Unknown("table argument")
                    args.append(need(v))
                for k in node.keywords:
                    if k.arg is None:
                        return Unknown("**kwargs")
                    v = self.ev(k.value)
                    if is_unknown(v) or isinstance(v, (tuple, DictValue)):
                        return Unknown(f"keyword {k.arg}")
                    args.append(F.fn("kw:" + k.arg, need(v)))
                return F.fn("apply", *args)
        return super()._call(node)

    def _inline_call(self, node, fn=None, name=None, pre_pos=(), pre_kw=None, implicit=None):
        """evaluate the call `node` of the function `fn` on the values of its arguments.  `pre_pos` / `pre_kw`: values bound ahead of the call's own arguments
        (functools.partial); `implicit`: values of the free names of a nested function (its closure)"""
        if fn is None:
            name = dotted(node.func)
            fn = self.inline.get(name) if (self.inline and name) else None
            if fn is not None and isinstance(node.func, ast.Name) and (name in self.env or name in self.buffers):
                return NotImplemented          # a local shadows the module-level function
        if fn is None or self.inline_depth >= 6:
            return NotImplemented
        a = fn.args
        params = [x.arg for x in a.posonlyargs + a.args]
        kwonly = [x.arg for x in a.kwonlyargs]
        if a.vararg or a.kwarg:
            return NotImplemented
        # the arguments in order, as (value, None) or (None, node): `*display` and `**table` are spliced
        pos = [(v, None) for v in pre_pos]
        for x in node.args:
            if isinstance(x, ast.Starred):
                v = self.ev(x.value)
                if not isinstance(v, tuple):
                    return NotImplemented
                pos.extend((e, None) for e in v)
            else:
                pos.append((None, x))
        kws = {k: (v, None) for k, v in (pre_kw or {}).items()}
        for k in node.keywords:
            if k.arg is None:
                v = self.as_table(self.ev(k.value))
                if not isinstance(v, DictValue) or not all(isinstance(q, str) for q in v.d):
                    return NotImplemented
                for q, e in v.d.items():
                    kws[q] = (e, None)
            else:
                kws[k.arg] = (None, k.value)
        if len(pos) > len(params) or any(k not in params and k not in kwonly for k in kws) or any(k in params[:len(pos)] for k in kws):
            return NotImplemented
        pairs = list(zip(params, pos)) + list(kws.items())
        env = dict(implicit or {})
        # a freshly allocated local array of the caller that the callee fills through its parameter (`a = np.empty(...); helper(..., a)`): from here on the
        # caller's name denotes an array object of its own, so that the callee's stores are stores into it
        filled = _stored_names(fn)
        for p_, (_v, x) in pairs:
            if p_ in filled and isinstance(x, ast.Name) and x.id not in self.buffers and x.id not in self.pinned and x.id in self.env:
                cur = self.env[x.id]
                u = unfn(cur) if (cur is not None and not is_unknown(cur) and not isinstance(cur, (tuple, DictValue))) else None
                if u and u[0] in ("empty", "zeros"):
                    self.buffers.add(x.id)
                    self.env["<init:%s>" % x.id] = cur
                    del self.env[x.id]
        for p_, (v, x) in pairs:
            env[p_] = v if x is None else self.ev(x)
        dflt = dict(zip(params[::-1], (a.defaults or [])[::-1]))
        for p_ in params:
            if p_ not in env:
                if p_ in dflt:
                    env[p_] = self.ev(dflt[p_])
                else:
                    return NotImplemented
        for p_, d in zip(kwonly, a.kw_defaults):
            if p_ not in env and d is not None:
                env[p_] = self.ev(d)
        sub = type(self)(fn, env=env, cond=self.cond, src=self.src, funcs=None, subscript=self.subscript, call=self.call_hook, binop=self.binop_hook)
        sub.inline = self.inline
        sub.inline_depth = self.inline_depth + 1
        sub.module_consts = self.module_consts
        sub.hooks, sub.sub_hooks, sub.raise_only, sub.explore_hook = self.hooks, self.sub_hooks, self.raise_only, self.explore_hook
        sub.loop_unroll, sub.loop_once, sub.forward_stores, sub.erase_T = self.loop_unroll, self.loop_once, self.forward_stores, self.erase_T
        sub.seq = self.seq
        sub.globals = self.globals
        sub.lambdas, sub.arrays, sub.modfuncs, sub.parent = self.lambdas, self.arrays, self.modfuncs, self
        sub.chain = "%s/%s.%s" % (self.chain, getattr(node, "lineno", 0), getattr(node, "col_offset", 0))
        sub.in_template = self.in_template
        sub.foreign = set(self.foreign) | {self.bname(b) for b in self.buffers}
        # the arrays the callee fills by subscript stores: a parameter is the caller's array object when the argument is one symbol (the stores are
        # recorded under the caller's name, whatever the callee calls it), otherwise an object of its own whose current value is the argument;
        # a local is a new object with a name no other evaluation of this or any other function uses
        through = {}
        for b in sorted(sub.buffers):
            pv = env.get(b) if (b in params or b in kwonly or (implicit and b in implicit)) else None
            cn = sym_of(pv) if pv is not None else None
            if cn is not None and cn not in ("None", "True", "False") and str_of(pv) is None:
                sub.bufmap[b] = cn
                sub.shared.add(b)
                for k in ("<cur:%s>" % cn, "<init:%s>" % cn):
                    if k in self.env:
                        sub.env[k] = self.env[k]
            else:
                sub.bufmap[b] = "%s@%s%s" % (b, fn.name, sub.chain)
                if pv is not None and not is_unknown(pv) and not isinstance(pv, (tuple, DictValue)):
                    sub.env["<cur:%s>" % sub.bufmap[b]] = pv
                    through[sub.bufmap[b]] = pv
        vm = getattr(fn, "_vmod", None)
        if vm is not None and self.src is not None and hasattr(self.src, "funcs_consulted"):
            self.src.funcs_consulted.add(f"{vm.rel}:{getattr(fn, '_vqual', fn.name)}")      # evidence: helpers the rules followed
        sub.run(fn.body)
        self.calls.extend(sub.calls)
        self.call_seq.extend(sub.call_seq)
        for nm, ix, val, st in sub.cells:
            self.cells.append((nm, ix, val, st))
            if nm in through:
                self.deep.append((through[nm], ix, val, st))       # a store into an element of a container of the caller
        self.cell_seq.extend(sub.cell_seq)
        self.deep.extend(sub.deep)
        self.seq = sub.seq
        self.foreign |= {sub.bname(b) for b in sub.buffers} | sub.foreign
        for k, v in sub.env.items():
            if k.startswith(("<init:", "<cur:")) and k[k.index(":") + 1:-1] not in through:
                self.env[k] = v
        # x += v on an array parameter updates the caller's array
        plain = {t.id for n in ast.walk(fn) if isinstance(n, ast.Assign) for t in n.targets if isinstance(t, ast.Name)}
        for p_, x in [(q, nd) for q, (_v, nd) in pairs if nd is not None]:
            if sub.inplace.get(p_) and p_ not in plain and p_ in sub.env and isinstance(x, ast.Name) and x.id not in self.pinned and p_ not in sub.buffers:
                if x.id in self.buffers:
                    self.env["<cur:%s>" % self.bname(x.id)] = sub.env[p_]
                else:
                    self.env[x.id] = sub.env[p_]
                self.inplace[x.id] = self.inplace.get(x.id, 0) + 1
        if not sub.returns:
            if any(isinstance(n, ast.Return) and n.value is not None for n in ast.walk(fn)):
                return Unknown(f"no return reached in inlined {name}")       # a construct the evaluator skipped holds the return
            return NONE
        if len(sub.returns) != 1:
            return Unknown(f"several returns in inlined {name}")
        v = sub.returns[0][0]
        if v is None:
            return NONE
        return v


_CONST_NODES = (ast.Constant, ast.Tuple, ast.List, ast.Dict, ast.Set, ast.Name, ast.UnaryOp, ast.unaryop, ast.BinOp, ast.operator, ast.Attribute, ast.Subscript,
                ast.Slice, ast.Call, ast.keyword, ast.JoinedStr, ast.FormattedValue, ast.expr_context, ast.Starred,
                # tables built by an expression: comprehensions over displays, conditional expressions, lambdas as entries
                ast.ListComp, ast.SetComp, ast.DictComp, ast.GeneratorExp, ast.comprehension, ast.IfExp, ast.Compare, ast.cmpop, ast.BoolOp, ast.boolop,
                ast.Lambda, ast.arguments, ast.arg)


def _namedtuple_fields(node):
    """the value node of a module-level constant is `namedtuple("X", "f1 f2")` / `collections.namedtuple("X", ["f1", "f2"])` -> the field names (else None)"""
    if not (isinstance(node, ast.Call) and dotted(node.func) in ("namedtuple", "collections.namedtuple") and len(node.args) == 2 and not node.keywords):
        return None
    spec = node.args[1]
    if isinstance(spec, ast.Constant) and isinstance(spec.value, str):
        names = spec.value.replace(",", " ").split()
    elif isinstance(spec, (ast.Tuple, ast.List)) and all(isinstance(e, ast.Constant) and isinstance(e.value, str) for e in spec.elts):
        names = [e.value for e in spec.elts]
    else:
        return None
    return names if names and len(set(names)) == len(names) and all(n.isidentifier() for n in names) else None


def module_consts3(ctx, rel):
    """{name: value node} for the module-level names of `rel` bound exactly once, at top level, to an expression without control flow (literals, names,
    displays, arithmetic and calls such as `dict(abs=_absmeth, ...)`, `np.array((...))`, `"...".format(...)`) and never declared `global` in a function:
    constants, messages and lookup tables that a clean-up may have moved out of a function.  A name is folded where it is read (a local or a parameter
    of the same name wins); what the evaluator cannot lower stays the opaque application it is."""
    m = ctx.src.mod(rel)
    globs = {g for n in ast.walk(m.tree) if isinstance(n, ast.Global) for g in n.names}
    count, val = {}, {}
    # every binding at module scope counts (also those under a top-level `if` / `try` / `with` / loop); function and class bodies do not
    todo = list(m.tree.body)
    while todo:
        st = todo.pop(0)
        if isinstance(st, (ast.FunctionDef, ast.AsyncFunctionDef, ast.ClassDef)):
            count[st.name] = count.get(st.name, 0) + 1
            continue
        if isinstance(st, (ast.Import, ast.ImportFrom)):
            for a in st.names:
                nm = (a.asname or a.name).split(".")[0]
                count[nm] = count.get(nm, 0) + 1
            continue
        nested = [x for f in ("body", "orelse", "finalbody") for x in getattr(st, f, [])] + [x for h in getattr(st, "handlers", []) for x in h.body]
        if nested:
            for x in nested:
                for n in ast.walk(x):
                    if isinstance(n, ast.Name) and isinstance(n.ctx, ast.Store):
                        count[n.id] = count.get(n.id, 0) + 2          # bound conditionally: never folded
                    if isinstance(n, (ast.FunctionDef, ast.ClassDef)):
                        count[n.name] = count.get(n.name, 0) + 2
            for n in ast.walk(st):
                if isinstance(n, ast.Name) and isinstance(n.ctx, ast.Store):
                    count[n.id] = count.get(n.id, 0) + 2
            continue
        tg = []
        if isinstance(st, ast.Assign):
            tg = st.targets
        elif isinstance(st, (ast.AnnAssign, ast.AugAssign)):
            tg = [st.target]
        for t in tg:
            for x in ast.walk(t):
                if isinstance(x, ast.Name):
                    count[x.id] = count.get(x.id, 0) + (2 if isinstance(st, ast.AugAssign) else 1)
        if isinstance(st, (ast.Assign, ast.AnnAssign)) and st.value is not None and len(tg) == 1 and isinstance(tg[0], ast.Name):
            if all(isinstance(x, _CONST_NODES) for x in ast.walk(st.value)):
                val[tg[0].id] = st.value
    return {k: v for k, v in val.items() if count.get(k) == 1 and k not in globs}


def raise_only_tests(funcs):
    """ids of the tests of `if` statements whose true arm does nothing but raise (the function continues only when the test is false) or
    only issues a warning (no value depends on it)"""
    out = set()
    for fn in funcs:
        for n in ast.walk(fn):
            if isinstance(n, ast.If) and n.body and not n.orelse and all(
                    isinstance(s, ast.Raise) or (isinstance(s, ast.Expr) and isinstance(s.value, ast.Call)
                                                 and (dotted(s.value.func) or "").split(".")[-1] == "warn") for s in n.body):
                out.add(id(n.test))
    return frozenset(out)


class Sem3:
    """one evaluation of `fn` on symbols (see sem.Sem); parameters are symbols of their own names unless `env` says otherwise"""

    def __init__(self, ctx, fn, rel, cond=None, env=None, hooks=(), sub_hooks=(), explore_hook=None, inline=True, run=True, stmts=None, seed_params=True,
                 exclude=(), module_state=None, arrays=(), binop=None):
        self.ctx = ctx
        self.fn = fn
        e = {}
        if seed_params:
            a = fn.args
            for x in a.posonlyargs + a.args + a.kwonlyargs:
                e[x.arg] = F.sym(x.arg)
        e.update(env or {})
        self.ev = Ev3(fn, src=ctx.src, cond=cond, env=e, binop=binop)
        cache = ctx.__dict__.setdefault("_c03_tables", {})
        if rel not in cache:
            table = module_funcs(ctx, rel)
            cache[rel] = (table, module_consts3(ctx, rel), raise_only_tests(list(table.values())))
        table, consts, ro = cache[rel]
        self.ev.inline = {k: v for k, v in table.items() if v is not fn and k not in exclude} if inline else None
        self.ev.module_consts = consts
        self.ev.modfuncs = frozenset(table)
        self.ev.arrays = set(arrays)
        self.ev.hooks = tuple(hooks)
        self.ev.sub_hooks = tuple(sub_hooks)
        self.ev.explore_hook = explore_hook
        self.ev.globals = dict(module_state or {})       # values of module-level names (worker globals), visible in the helpers the function calls too
        self.ev.raise_only = ro if fn in table.values() else ro | raise_only_tests([fn])
        if run:
            self.ev.run(fn.body if stmts is None else stmts)

    def E(self, text):
        return self.ev.expr(text)

    def ret(self):
        return self.ev.returns[-1][0] if self.ev.returns else None

    def ret_node(self):
        return self.ev.returns[-1][1] if self.ev.returns else self.fn

    def cells(self, name=None):
        return [(nm, ix, val, st) for nm, ix, val, st in self.ev.cells if name is None or nm == name]


def explore(ctx, fn, rel, fixed=None, limit=64, **kw):
    """Evaluate `fn` once per path through the tests that neither the values nor `fixed(test, ev)` decide (each such test is taken both
    ways; no feasibility reasoning).  Yields (decisions, Sem3) with decisions = [(test node, bool)]."""
    work = [[]]
    n = 0
    while work:
        prefix = work.pop()
        n += 1
        if n > limit:
            raise Unsupported(f"more than {limit} paths through {fn.name}")
        taken = []
        cache = {}

        def hook(test, ev, prefix=prefix, taken=taken, cache=cache):
            k = id(test)
            if k in cache:
                return cache[k]
            v = ev.ev(test)
            if is_unknown(v):
                # exactly one way is feasible and the evaluator does not know which: exploring both would judge a path that cannot occur
                raise Unsupported(f"a test on a value the evaluator could not determine: `{ast.unparse(test)}` ({v.why})"[:300])
            if v is not None and not isinstance(v, (tuple, DictValue)) and input_free(v):
                raise Unsupported(f"a test on a constant the evaluator cannot compute: `{ast.unparse(test)}` = {v!r}"[:300])
            i = len(taken)
            if i < len(prefix):
                v = prefix[i]
            else:
                v = True
                work.append([d for _, d in taken] + [False])
            taken.append((test, v))
            cache[k] = v
            return v

        S_ = Sem3(ctx, fn, rel, cond=fixed, explore_hook=hook, **kw)
        yield list(taken), S_
