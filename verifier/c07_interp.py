"""C07 helper engine: a small symbolic interpreter for the functions of one module.

The C07 rules decide on *values*: a function of /repo is evaluated on symbols (matrices are symbols or, in the scalar image, formulas in one
symbol), with everything a static evaluator with constant folding can honestly resolve being resolved the way Python would:

  * locals, temporaries, tuple packing/unpacking, conditional expressions, early returns, `not`/`and`/`or`, comparisons of constants;
  * module-level constants (numbers, strings, tuples, dicts of those), subscripts and strided slices of constant tuples, `%`/`format` on
    literal strings, `getattr(obj, "literal")`, `next(generator over a literal tuple)`, `zip`, `enumerate`, `range(literal)`;
  * calls to functions, closures, lambdas, classes, methods and properties of the same module are *followed* (their bodies are evaluated on
    the argument values), so extracting or inlining a helper does not change what is computed;
  * `for` over a known finite sequence is unrolled; a loop with a symbolic trip count is summarised by one symbolic pass over its body
    (`LoopRec`: trip count / test value, value of every carried variable after one pass as a function of its value before);
  * an `if` whose test neither constant folding nor the rule's oracle decides is evaluated on both arms and merged (variables that differ
    become Unknown); an undecided test that guards a `return`/`raise`/`break` is an `Unsupported` (-> ANALYSIS-ERROR), except that an arm which
    only raises is taken to be the error exit and is not followed;
  * in-place updates of arrays (`P /= 2`, `I += I.dot(E)`, `U[:n] += X`) update the *object*, so every alias sees them, as in numpy;
    counters (`j += 1.0`) are rebound.  Such an update on an object reachable from a protected root (the model `self`) is recorded;
  * an expression that raises for certain on the path evaluated (index beyond a literal tuple, key missing from a literal dict, a name
    nothing defines) is a `Crash` value: it ends the path, and the rules report it as a violation rather than as an analysis error.

  * an index is the set of rows / columns it selects in an array of known shape (`Interp.shape_of`, supplied by the rule): unit-step
    slices become intervals `sel(start, stop)` with the bounds resolved as numpy resolves them, missing axes are completed, a subscript
    of a view is a subscript of the array viewed (section "selections" below); `np.s_[...]`, `slice(...)` objects are the same values;
  * class-level constants (`THETA = {...}` in a class body, read through the instance, the class or `type(obj)`), `staticmethod` /
    `classmethod` helpers, `type(self)(...)` / `self.__class__(...)` / `cls(...)` as constructors, attributes set on a result after
    construction, the walrus operator, and `match` on literal / dotted-name patterns (`|`, capture, wildcard, guards) are evaluated;
  * a library object is named by the dotted path its import resolves to, abbreviated as in `STD_NAMES` (np, la, mf, ...), whatever alias
    the module (or a function-level import) gives it; `super().m(...)` is `Base.m(self, ...)`; `functools.partial`, `functools.reduce`,
    the functions of `operator`, `divmod` are evaluated.

Pass 4 -- a value produced through a construct the evaluator does not follow is never a partially evaluated value:

  * the module is evaluated *as written* (RawModule: the shared source model's canonicalisation -- renamed locals, inlined temporaries,
    rewritten `enumerate` loops -- is made for shape-matching rules and is not applied);
  * iterators have state: zip / map / filter / enumerate / reversed / iter / generator expressions / itertools.* are IterV objects that
    produce items on demand (`next()` advances them, a `for` over one takes what is left); a function with `yield` is a generator whose
    body runs when items are asked for (`_gen_run`); `itertools.repeat(x, n)` with a symbolic n is a counted loop;
  * a Python list is a mutable object shared by its aliases (append / extend / pop / insert / item stores / `+=`; elements that are arrays
    are updated in place through the list); dicts likewise (a method that is not followed poisons the dict); tuples are immutable;
  * every mutation is journalled (`begin` / `rollback` / `commit`): both arms of an undecided `if` are run from the same state and what
    they leave is compared location by location (locals, arrays, list / dict / attribute slots); a loop is unrolled by constant folding
    in a trial and, when a test in it turns out undecided, rolled back and summarised by one symbolic pass;
  * loop normal form: an `if <undecided>: break` in the single pass is an *exit* of the loop (`while True: if not c: break` is
    `while c:`); a counted loop leaves <name>@out<k>, a loop whose number of passes depends on data leaves <name>@exit<k>, which the
    rules treat as not evaluated; arrays updated in place by the pass without the name being assigned (`np.add(.., out=X)`,
    a closure with `nonlocal`) are discovered by a first pass and carried; anything else the pass changes is not known afterwards;
  * `f(..., out=X)`, `np.copyto`, `X.fill`, `operator.iadd` update the array object; a library call written as a statement that the
    evaluator has no model of clobbers the arrays it is given (opaque `call:not-followed`, reported as not evaluated);
  * `try` runs the handler that catches an exception raised for certain in the body (builtin hierarchy), `finally` always;
    `nonlocal` / `global` / `del`; decorators of the module are applied (memoisation / marker decorators are transparent, anything else
    makes the call Unknown); defaults are evaluated at definition time; module-defined base classes (methods, class constants,
    `super()`); dataclasses, typing.NamedTuple / collections.namedtuple, objects with __call__ / __iter__ / __getitem__ / __len__.

Nothing of /repo is imported or executed; there is no numeric sampling: numbers are exact rationals read from the literals' decimal text.
"""
from __future__ import annotations

import ast
from fractions import Fraction

from . import e2_formula as F
from .core import AnchorError, Unsupported
from .e2_eval import Unknown, is_unknown, const_from_node

OPERATOR_FUNCS = {"operator.add": ast.Add, "operator.sub": ast.Sub, "operator.mul": ast.Mult, "operator.truediv": ast.Div,
                  "operator.floordiv": ast.FloorDiv, "operator.mod": ast.Mod, "operator.pow": ast.Pow, "operator.matmul": ast.MatMult,
                  "operator.iadd": ast.Add, "operator.imul": ast.Mult, "operator.isub": ast.Sub, "operator.itruediv": ast.Div, "operator.and_": ast.BitAnd, "operator.or_": ast.BitOr,
                  "operator.lshift": ast.LShift, "operator.rshift": ast.RShift, "operator.neg": None, "operator.pos": None}
NP_ARITH = {"np.add": (ast.Add, 2), "np.subtract": (ast.Sub, 2), "np.multiply": (ast.Mult, 2), "np.divide": (ast.Div, 2), "np.true_divide": (ast.Div, 2),
            "np.power": (ast.Pow, 2), "np.negative": (None, 1)}
# library calls that, written as a statement, leave their arguments as they are
NO_EFFECT_STATEMENTS = ("warnings.", "logging.", "print", "np.testing.", "np.seterr", "np.errstate", "np.set_printoptions", "gc.", "time.", "sys.std")
MAX_DEPTH = 24
MAX_UNROLL = 400


# ------------------------------------------------------------------------------------------------------------------ values
class Ref:
    """a global name the module does not define (np, mf, la, len, float, ...) or an attribute chain on one"""
    __slots__ = ("name",)

    def __init__(self, name):
        self.name = name

    def __repr__(self):
        return f"Ref({self.name})"


class ClassV:
    def __init__(self, name, node, mod):
        self.name, self.node, self.mod = name, node, mod
        self.methods = {}
        for n in node.body:
            if isinstance(n, (ast.FunctionDef, ast.AsyncFunctionDef)):
                if any(isinstance(d, ast.Attribute) and d.attr in ("setter", "deleter") for d in n.decorator_list):
                    continue                     # (the setter / deleter of a property: not what a read of the attribute runs)
                self.methods[n.name] = n
        self.consts = {}
        self.bases = None                        # module-defined base classes, resolved on first use
        self.closure = None                      # the frame a class defined inside a function sees

    def __repr__(self):
        return f"<class {self.name}>"


class FuncV:
    def __init__(self, node, mod, closure=None, self_obj=None, cls=None, qual=None):
        self.node, self.mod, self.closure, self.self_obj, self.cls = node, mod, closure, self_obj, cls
        self.qual = qual or getattr(node, "_vqual", None) or getattr(node, "name", "<lambda>")
        self.attrs = {}          # attributes set on the function object

    def bind(self, obj):
        g = FuncV(self.node, self.mod, self.closure, obj, self.cls, self.qual)
        g.attrs = self.attrs
        g.decorated = getattr(self, "decorated", False)
        if hasattr(self, "defaults"):
            g.defaults, g.kw_defaults = self.defaults, self.kw_defaults
        return g

    def __repr__(self):
        return f"<func {self.qual}>"


class Obj:
    _n = 0

    def __init__(self, cls, attrs=None):
        self.cls = cls
        self.attrs = dict(attrs or {})
        Obj._n += 1
        self.serial = Obj._n

    def __repr__(self):
        return f"<{self.cls.name if self.cls else 'object'}#{self.serial}>"


class DictV:
    def __init__(self):
        self.d = {}          # key -> (key value, value)
        self.poisoned = None  # why its content is not known any more (a method that was not followed)

    def __repr__(self):
        return "DictV(%r)" % ({k: v[1] for k, v in self.d.items()},)


class PartialMethodV:
    """functools.partialmethod(f, *args, **kw) bound at class level: read through an instance it is f(instance, *args, ...)"""

    def __init__(self, f, pos, kw):
        self.f, self.pos, self.kw = f, list(pos), dict(kw)


class PropV:
    """property(fget): read through an instance it is fget(instance)"""

    def __init__(self, fget):
        self.fget = fget


class ObjDictV(DictV):
    """vars(obj) / obj.__dict__ of an object of the module: stores go to the object's attributes"""

    def __init__(self, obj):
        super().__init__()
        self.obj = obj
        for k, v in obj.attrs.items():
            self.d[("py", k)] = (k, v)


class RangeV:
    """range() with a symbolic bound"""

    def __init__(self, lo, hi, step=1):
        self.lo, self.hi, self.step = lo, hi, step      # step is +1 or -1


class RepeatV:
    """itertools.repeat(value, n) with a symbolic count"""

    def __init__(self, value, count):
        self.value, self.count = value, count


SEQ = (tuple, list)        # a Python tuple is a host tuple, a Python list a host list (mutable, shared by its aliases)


class _Stop(Exception):
    """the iterator is exhausted"""


class IterV:
    """an iterator (zip, map, enumerate, iter, reversed, a generator expression, a generator function, itertools.*): it has *state*.
    Items are produced on demand by a host generator and kept, `pos` is the consumer's position (restored when a trial evaluation is
    rolled back)."""

    def __init__(self, gen, what="iterator"):
        self.gen, self.what = gen, what
        self.buf = []
        self.pos = 0
        self.done = False
        self.broken = None          # why the producer could not be followed (once set, asking for an item is not lowered)

    def __repr__(self):
        return f"<{self.what}>"


class NamedT(tuple):
    """an instance of a collections.namedtuple class: a tuple whose items also have names"""
    _names = ()


class PoisonedSeq(Unknown):
    """the only item of a list whose content (and length) is not known any more"""


class Native:
    """a callable supplied by a rule's hook (e.g. a method inherited from a library base class)"""

    def __init__(self, name, fn):
        self.name, self.fn = name, fn

    def __repr__(self):
        return f"<native {self.name}>"


class Crash(Unknown):
    """evaluating this raises for certain: an index beyond the end of a literal sequence, a key missing from a literal dict, a name that
    nothing defines.  Rules report it as a violation (the path the rule evaluates is a path of the property's domain), not as an
    analysis error."""

    def __repr__(self):
        return f"Crash({self.why})"


def is_crash(v):
    return isinstance(v, Crash)


class _CrashSig(Exception):
    def __init__(self, crash):
        self.crash = crash


class Raised:
    """result of a call whose path ends in a `raise`"""

    def __init__(self, node):
        self.node = node

    def __repr__(self):
        return f"Raised(line {getattr(self.node, 'lineno', '?')})"


class _Return(Exception):
    def __init__(self, v, node):
        self.v, self.node = v, node


class _Break(Exception):
    pass


class _Continue(Exception):
    pass


class _Raise(Exception):
    def __init__(self, node, kind=None, value=None):
        self.node = node
        self.kind = kind          # class of an exception the evaluator raises itself (StopIteration of an exhausted iterator)
        self.value = value        # ... and what it carries (the generator's return value)


class CallRec:
    __slots__ = ("name", "callee", "pos", "kw", "bound", "result", "node", "seq")

    def __init__(self, name, callee, pos, kw, bound, node, seq):
        self.name, self.callee, self.pos, self.kw, self.bound, self.node, self.seq = name, callee, pos, kw, bound, node, seq
        self.result = None

    def ordered(self):
        """argument values in the order of the callee's own parameters (self first for a method); None where a default applies
        and the call was intercepted by a hook; for a library callable: the positional values"""
        f = self.callee
        if not isinstance(f, FuncV):
            return list(self.pos)
        a = f.node.args
        params = [p.arg for p in a.posonlyargs + a.args]
        if self.bound is not None:
            return [self.bound.get(p) for p in params]
        out = dict(zip(params, self.pos))
        for k, v in self.kw.items():
            if k in params:
                out[k] = v
        return [out.get(p) for p in params]

    def __repr__(self):
        return f"CallRec({self.name}, {self.pos}, {self.kw})"


class LoopRec:
    def __init__(self, node, kind):
        self.node, self.kind = node, kind
        self.trip = None          # value of the trip count (for-range) or None
        self.test = None          # value of a while test on the carried symbols
        self.carried = []         # names of the carried variables
        self.init = {}            # name -> value before the loop
        self.out = {}             # name -> value after one pass, over the symbols  <name>@in<k>
        self.k = 0
        self.exits = []           # (test value, leaves when the test is true?, stands before anything carried is updated?, node) of every
        #                           `if test: break` in the body: the loop goes on while its own test holds and no exit applies
        self.exit_assigned = set()   # names an arm assigns just before it leaves

    def in_sym(self, name):
        return F.sym(f"{name}@in{self.k}")

    def out_sym(self, name):
        return F.sym(f"{name}@out{self.k}")


class Frame:
    def __init__(self, func=None, parent=None, mod=None):
        self.vars = {}
        self.func = func
        self.parent = parent      # enclosing frame (closures)
        self.mod = mod
        self.outer = {}           # names declared `nonlocal` / `global` -> the dict they are bound in
        self.gen = False          # the frame of a generator function
        self.comp = False         # the scope of a comprehension / generator expression


_MISSING = object()


class _ClassScope(dict):
    """the names a class body has bound before the statement `upto` (methods as plain functions, constants evaluated on demand)"""

    def __init__(self, it, c, upto):
        super().__init__()
        self._it, self._c, self._upto = it, c, upto

    def _find(self, name):
        c = self._c
        for st in c.node.body:
            if st is self._upto:
                break
            if isinstance(st, (ast.FunctionDef, ast.AsyncFunctionDef)) and st.name == name:
                return "func"
            if isinstance(st, ast.ClassDef) and st.name == name:
                return st
            if isinstance(st, (ast.Assign, ast.AnnAssign)) and getattr(st, "value", None) is not None and \
                    any(isinstance(x, ast.Name) and x.id == name for t in (st.targets if isinstance(st, ast.Assign) else [st.target]) for x in ast.walk(t)):
                return "const"
            if isinstance(st, (ast.Import, ast.ImportFrom)):
                for a in st.names:
                    if (a.asname or a.name.split(".")[0] if isinstance(st, ast.Import) else a.asname or a.name) == name:
                        return (st, a)
            elif not isinstance(st, (ast.FunctionDef, ast.AsyncFunctionDef, ast.ClassDef, ast.Assign, ast.AnnAssign, ast.Expr, ast.Pass)):
                # any other statement of the class body that binds the name (a loop, a `with`, an `if` ...): bound, value not followed
                if any(isinstance(x, ast.Name) and x.id == name and isinstance(x.ctx, (ast.Store, ast.Del)) for x in ast.walk(st)):
                    return "opaque"
        return None

    def __contains__(self, name):
        return dict.__contains__(self, name) or self._find(name) is not None

    def __getitem__(self, name):
        if dict.__contains__(self, name):
            return dict.__getitem__(self, name)
        kind = self._find(name)
        c = self._c
        if kind == "func":
            return FuncV(c.methods[name], c.mod, c.closure, None, c, f"{c.name}.{name}") if name in c.methods else Unknown(f"class-level function {name}")
        if kind == "const":
            v = self._it._class_const(c, name)
            return v if v is not None else Unknown(f"class-level name {name} bound more than once")
        if kind == "opaque":
            return Unknown(f"class-level name {name} bound by a statement the evaluator does not follow")
        if isinstance(kind, tuple):
            st_, a_ = kind
            full = _import_full(st_, a_, c.mod.rel)
            return Ref(canon_dotted(full) or full)
        if isinstance(kind, ast.ClassDef):
            key = ("class", name)
            if key not in c.consts:
                inner = ClassV(name, kind, c.mod)
                inner.closure = c.closure
                c.consts[key] = inner
            return c.consts[key]
        raise KeyError(name)

    def get(self, name, default=None):
        return self[name] if name in self else default


class _AttrsView:
    """the attributes of a function object addressed like a DictV (for undo records)"""

    def __init__(self, f):
        self.d = f.attrs


class _ConstsView:
    """the class-level constants of a ClassV addressed like a DictV (for undo records)"""

    def __init__(self, c):
        self.d = c.consts


# ------------------------------------------------------------------------------------------------------------------ helpers
def is_rat(v):
    return isinstance(v, F.Rat)


def is_const(v):
    return isinstance(v, F.Rat) and v.is_const()


def cval(v):
    return v.const_value()


def clone(v):
    """a distinct object with the same value (what `.copy()` returns; also used to snapshot records)"""
    if isinstance(v, F.Rat):
        r = F.Rat.__new__(F.Rat)
        r.n, r.d = v.n, v.d
        return r
    if isinstance(v, SEQ):
        return tuple(clone(x) for x in v)          # (a list is snapshot as a tuple: records do not follow later mutation)
    return v


def freeze(v):
    """the value with every list in it as a tuple (what the rules are handed)"""
    if isinstance(v, SEQ):
        return tuple(freeze(x) for x in v)
    return v


def sym_name(v):
    """name of a value that is exactly one symbol, else None"""
    if not isinstance(v, F.Rat):
        return None
    try:
        if not v.d.is_const() or v.d.const_value() != 1 or len(v.n.t) != 1:
            return None
        (m, c), = v.n.t.items()
        if c != 1 or len(m) != 1 or m[0][1] != 1:
            return None
        d = F.atom_desc(m[0][0])
    except Exception:  # noqa
        return None
    return d[1] if d[0] == "s" else None


def fn_parts(v):
    """a value that is exactly one opaque application -> (name, [args]) else None"""
    if not isinstance(v, F.Rat):
        return None
    try:
        if not v.d.is_const() or v.d.const_value() != 1 or len(v.n.t) != 1:
            return None
        (m, c), = v.n.t.items()
        if c != 1 or len(m) != 1 or m[0][1] != 1:
            return None
        d = F.atom_desc(m[0][0])
    except Exception:  # noqa
        return None
    if d[0] != "fn":
        return None
    args = []
    for k in d[2]:
        args.append(k if isinstance(k, str) else F.Rat(F._poly_from_key(k[1]), F._poly_from_key(k[2])))
    return d[1], args


def atoms_named(v, prefix):
    """all opaque applications whose name starts with prefix occurring anywhere in v (descends into arguments)"""
    out = []
    seen = set()

    def walk_poly(p):
        for m in p.t:
            for a, _e in m:
                if a in seen:
                    continue
                seen.add(a)
                d = F.atom_desc(a)
                if d[0] == "fn":
                    args = [k if isinstance(k, str) else F.Rat(F._poly_from_key(k[1]), F._poly_from_key(k[2])) for k in d[2]]
                    if d[1].startswith(prefix):
                        out.append((d[1], args))
                    for x in args:
                        if isinstance(x, F.Rat):
                            walk_poly(x.n)
                            walk_poly(x.d)
                elif d[0] in ("exp", "sin", "cos", "sqrt"):
                    walk_poly(F._poly_from_key(d[1]))

    if isinstance(v, F.Rat):
        walk_poly(v.n)
        walk_poly(v.d)
    elif isinstance(v, SEQ):
        for x in v:
            out.extend(atoms_named(x, prefix))
    return out


def to_rat(v):
    """coerce a value to a formula (for arithmetic and for arguments of opaque applications); Unknown passes through"""
    if isinstance(v, F.Rat) or is_unknown(v):
        return v
    if v is None:
        return F.sym("None")
    if v is True or v is False:
        return F.sym(str(v))
    if v is Ellipsis:
        return F.sym("Ellipsis")
    if isinstance(v, str):
        return F.sym(repr(v))
    if isinstance(v, Ref):
        return F.sym("@" + v.name)
    if isinstance(v, SEQ):
        xs = [to_rat(x) for x in v]
        for x in xs:
            if is_unknown(x):
                return x
        return F.fn("tuple", *xs)
    if isinstance(v, Obj):
        return F.sym(repr(v))
    if isinstance(v, (FuncV, ClassV, Native)):
        return F.sym(repr(v))
    if isinstance(v, DictV):
        return Unknown("dict used as a number")
    if isinstance(v, RangeV):
        return F.fn("call:range", to_rat(v.hi))
    return Unknown(f"value {type(v).__name__}")


def key_of(v):
    """hashable key of a value (dict keys, membership tests) or None"""
    if isinstance(v, F.Rat):
        if v.is_const():
            return ("num", v.const_value())
        return ("rat", v.n.key(), v.d.key())
    if v is None or isinstance(v, (bool, str)):
        return ("py", v)
    if isinstance(v, Ref):
        return ("ref", v.name)
    if isinstance(v, SEQ):
        ks = tuple(key_of(x) for x in v)
        return None if any(k is None for k in ks) else ("tuple", ks)
    if isinstance(v, (Obj, FuncV, ClassV)):
        return ("id", id(v))
    return None


def same_value(a, b):
    if a is b:
        return True
    if is_unknown(a) or is_unknown(b):
        return False
    if isinstance(a, F.Rat) and isinstance(b, F.Rat):
        try:
            return a.equals(b)
        except Unsupported:
            return False
    if isinstance(a, SEQ) and isinstance(b, SEQ):
        return len(a) == len(b) and all(same_value(x, y) for x, y in zip(a, b))
    if isinstance(a, Ref) and isinstance(b, Ref):
        return a.name == b.name
    if isinstance(a, (str, bool)) or a is None:
        return type(a) is type(b) and a == b
    return False


def py_number(v):
    """constant formula -> int if integral else Fraction (for string formatting and indexing)"""
    c = cval(v)
    return int(c) if c.denominator == 1 else c


def _iroot(n, k):
    """the exact integer k-th root of n >= 1, else None"""
    if n == 1:
        return 1
    r = round(n ** (1.0 / k))
    for c in (r - 1, r, r + 1):
        if c >= 1 and c ** k == n:
            return c
    return None


def pow_const_base(base, expo):
    """base ** expo for a positive rational base and a polynomial exponent with integer coefficients: the multiplicative homomorphism
    base**(sum c_i m_i) = prod (base^m_i)**c_i with one symbol per monomial m_i (a single symbol s gives the symbol `base^s`)"""
    if not expo.d.is_const():
        raise Unsupported(f"power with exponent {expo}")
    sc = 1 / expo.d.const_value()
    # one symbol per *root* of the base: 4**s, 0.5**s, 2**(-s) are all powers of the symbol 2^s
    base = Fraction(base)
    mult = 1
    if base < 1:
        base, mult = 1 / base, -1
    for k in range(62, 1, -1):
        rn, rd = _iroot(base.numerator, k), _iroot(base.denominator, k)
        if rn is not None and rd is not None:
            base, mult = Fraction(rn, rd), mult * k
            break
    if base == 1:
        return F.const(1)
    sc = sc * mult
    out = F.const(1)
    for m, c in expo.n.t.items():
        c = c * sc
        if c.denominator != 1:
            raise Unsupported(f"power with exponent {expo}")
        c = int(c)
        if m == ():
            out = out * (F.const(base) ** c)
            continue
        mono = F.Rat(F.Poly({m: Fraction(1)}))
        nm = sym_name(mono)
        label = nm if nm is not None else "[" + repr(mono) + "]"
        out = out * (F.sym(f"{base}^{label}") ** c)
    return out


# ------------------------------------------------------------------------------------------------------------------ library names
# A reference to a library object is named by *what it is* (the dotted path the import statements resolve it to), written with the
# abbreviations below, whatever alias the module binds it to:  `import numpy`, `import numpy as xp`, `from numpy import dot` all give
# np / np.dot;  `mf = spla._matfuncs` (also under try/except) gives mf.
STD_NAMES = (("scipy.sparse.linalg._matfuncs", "mf"), ("scipy.sparse.linalg.matfuncs", "mf"), ("scipy.sparse.linalg", "spla"),
             ("scipy.sparse.isspmatrix", "isspmatrix"), ("scipy.sparse.issparse", "isspmatrix"), ("scipy.sparse", "scipy.sparse"), ("scipy.linalg", "la"), ("scipy.signal", "signal"),
             ("numpy", "np"), ("pyyeti.expmint", "expmint"), ("functools", "functools"), ("operator", "operator"), ("math", "math"),
             ("itertools", "itertools"), ("warnings", "warnings"), ("collections", "collections"), ("copy", "copy"), ("dataclasses", "dataclasses"),
             ("typing", "typing"), ("contextlib", "contextlib"), ("enum", "enum"))


def canon_dotted(full):
    """canonical name of a dotted library path, or None when it is under none of the known roots"""
    for pre, short in STD_NAMES:
        if full == pre or full.startswith(pre + "."):
            return short + full[len(pre):]
    return None


def extend_ref(name, attr):
    """canonical name of <reference>.attr"""
    for pre, short in STD_NAMES:
        if name == short or name.startswith(short + "."):
            full = pre + name[len(short):] + "." + attr
            return canon_dotted(full) or (name + "." + attr)
    return name + "." + attr


def _import_full(st, a, rel):
    """dotted path an `import` / `from ... import` alias resolves to"""
    if isinstance(st, ast.Import):
        return a.name if a.asname else a.name.split(".")[0]
    base = st.module or ""
    if st.level:
        pkg = rel.replace("\\", "/").split("/")[:-1]
        pkg = pkg[:len(pkg) - (st.level - 1)] if st.level > 1 else pkg
        base = ".".join(pkg + ([base] if base else []))
    return f"{base}.{a.name}".lstrip(".")


# ------------------------------------------------------------------------------------------------------------------ selections
# An index is decided by *which rows / columns it selects*, not by how its bounds are spelled.  On an axis of known length L a unit-step
# slice is the interval sel(start, stop) with both bounds resolved the way numpy resolves them (missing lower bound 0, missing upper bound
# L, a negative bound counted from the end, a bound beyond the end clipped):  `:n`, `0:n`, `slice(None, n)`, `slice(0, n, 1)` are one
# selection, and so are `n:`, `n:n + i`, `-i:` on an axis of length n + i.  An index with fewer entries than the array has axes (or with an
# Ellipsis) is completed with whole axes.  A subscript of a view is the subscript of the array the view was taken from.
def sign_of(v):
    """sign of a value whose symbols all stand for positive integers (array dimensions): 1, 0, -1; None when its terms have mixed signs"""
    if not isinstance(v, F.Rat) or is_unknown(v):
        return None
    try:
        if not v.d.is_const():
            return None
        dc = v.d.const_value()
        pos = neg = False
        for m, c in v.n.t.items():
            if any(e < 0 for _a, e in m) or any(a == F.I_ATOM for a, _e in m):
                return None
            if c / dc > 0:
                pos = True
            elif c / dc < 0:
                neg = True
    except Exception:  # noqa
        return None
    if pos and neg:
        return None
    return 1 if pos else (-1 if neg else 0)


def _named(v, name):
    return sym_name(v) == name


def _sel_parts(s):
    p = fn_parts(s)
    if p is not None and p[0] == "sel" and len(p[1]) == 2:
        return p[1][0], p[1][1]
    return None


def _bound(b, L, default):
    if _named(b, "None"):
        return default
    sg = sign_of(b)
    if sg is None:
        return None
    if sg < 0:
        if L is None:
            return None
        b = b + L
        sg = sign_of(b)
        if sg is None:
            return None
        return F.const(0) if sg < 0 else b
    if L is not None and sign_of(b - L) == 1:
        return L
    return b


def _canon_axis(s, L):
    """one entry of an index on an axis of length L (None: not known)"""
    p = fn_parts(s)
    if p is not None and p[0] == "slice" and len(p[1]) == 3:
        lo, hi, st = p[1]
        if not (_named(st, "None") or (is_const(st) and cval(st) == 1)):
            return s                                    # strided: not an interval
        lo = _bound(lo, L, F.const(0))
        hi = _bound(hi, L, L if L is not None else F.sym("@end"))
        if lo is None or hi is None:
            return s
        return F.fn("sel", lo, hi)
    if p is None and isinstance(s, F.Rat) and L is not None and sign_of(s) == -1:
        return s + L
    return s


def _index_items(ix):
    p = fn_parts(ix)
    if p is not None and p[0] == "tuple":
        return list(p[1]), True
    return [ix], False


def canon_index(ix, shape):
    """the index with every unit-step slice as an interval; with a known shape (tuple of lengths) always one entry per axis"""
    if not isinstance(ix, F.Rat) or is_unknown(ix):
        return ix
    items, was_tuple = _index_items(ix)
    if any(not isinstance(s, F.Rat) for s in items):
        return ix
    if shape is None:
        out = [_canon_axis(s, None) for s in items]
        return F.fn("tuple", *out) if was_tuple else out[0]
    nd = len(shape)
    n_ell = sum(1 for s in items if _named(s, "Ellipsis"))
    n_real = len(items) - n_ell
    if n_ell > 1 or n_real > nd or any(_named(s, "None") for s in items):
        return ix                                       # np.newaxis, too many indices: not lowered
    full = F.fn("slice", F.sym("None"), F.sym("None"), F.sym("None"))
    flat = []
    for s in items:
        if _named(s, "Ellipsis"):
            flat.extend([full] * (nd - n_real))
        else:
            flat.append(s)
    flat.extend([full] * (nd - len(flat)))
    return F.fn("tuple", *[_canon_axis(s, shape[k]) for k, s in enumerate(flat)])


def index_is_canonical(ix):
    """every entry is an interval or a single position (nothing strided, no bound the sign of which is open, no new axis)"""
    items, _t = _index_items(ix)
    for s in items:
        if not isinstance(s, F.Rat):
            return False
        if _sel_parts(s) is not None:
            continue
        p = fn_parts(s)
        if p is not None and p[0] in ("slice", "tuple"):
            return False
        if _named(s, "None") or _named(s, "Ellipsis"):
            return False
        if atoms_named(s, "call:") or atoms_named(s, "idx") or atoms_named(s, "tuple") or atoms_named(s, "attr:"):
            return False                                # an index array, a mask, np.ix_(...): not a single position
    return True


def view_shape(ix):
    """shape of X[ix] for a canonical index with one entry per axis: an interval keeps its axis, a position drops it"""
    items, _t = _index_items(ix)
    out = []
    for s in items:
        sp = _sel_parts(s)
        if sp is not None:
            out.append(sp[1] - sp[0])
    return tuple(out)


def compose_index(ix1, ix2):
    """index into X of X[ix1][ix2]: ix1 canonical with one entry per axis of X, ix2 canonical with one entry per axis of the view"""
    items1, _t = _index_items(ix1)
    items2, _t = _index_items(ix2)
    out = []
    k = 0
    for s in items1:
        sp = _sel_parts(s)
        if sp is None:
            out.append(s)
            continue
        if k >= len(items2):
            return None
        t = items2[k]
        k += 1
        tp = _sel_parts(t)
        if tp is not None:
            out.append(F.fn("sel", sp[0] + tp[0], sp[0] + tp[1]))
        else:
            out.append(sp[0] + t)
    if k != len(items2):
        return None
    return F.fn("tuple", *out)


def noncanonical_indices(v):
    """the indices occurring in a value (or a tuple of values) that could not be resolved to selections"""
    out = []
    for _nm, args in atoms_named(v, "idx"):
        if len(args) == 2 and isinstance(args[1], F.Rat) and not index_is_canonical(args[1]):
            out.append(args[1])
    return out


def intervals_disjoint(a, b):
    """True when the two canonical indices select no common element for certain (an axis on which one interval ends where or before the
    other begins); False when one axis cannot separate them"""
    ia, _t = _index_items(a)
    ib, _t = _index_items(b)
    if len(ia) != len(ib):
        return False
    for s, t in zip(ia, ib):
        sp, tp = _sel_parts(s), _sel_parts(t)
        if sp is None:
            sp = (s, s + 1) if fn_parts(s) is None or fn_parts(s)[0] not in ("slice", "tuple") else None
        if tp is None:
            tp = (t, t + 1) if fn_parts(t) is None or fn_parts(t)[0] not in ("slice", "tuple") else None
        if sp is None or tp is None:
            continue
        if sign_of(tp[0] - sp[1]) in (0, 1) or sign_of(sp[0] - tp[1]) in (0, 1):
            return True
    return False


def _assigned_names(stmts):
    out = []
    for st in stmts:
        for n in ast.walk(st):
            tg = []
            if isinstance(n, ast.Assign):
                tg = n.targets
            elif isinstance(n, (ast.AugAssign, ast.AnnAssign)):
                tg = [n.target]
            elif isinstance(n, (ast.For, ast.comprehension)):
                tg = [n.target]
            for t in tg:
                for x in ast.walk(t):
                    if isinstance(x, ast.Name) and isinstance(x.ctx, ast.Store) and x.id not in out:
                        out.append(x.id)
    return out


def _scan_own(node, kinds):
    """nodes of the given kinds in the body of a function / statement, not looking into nested functions, lambdas or classes"""
    stack = list(ast.iter_child_nodes(node))
    while stack:
        n = stack.pop()
        if isinstance(n, kinds):
            return True
        if isinstance(n, (ast.FunctionDef, ast.AsyncFunctionDef, ast.Lambda, ast.ClassDef)):
            continue
        stack.extend(ast.iter_child_nodes(n))
    return False


def _is_generator(fn):
    r = getattr(fn, "_v_gen", None)
    if r is None:
        r = fn._v_gen = _scan_own(fn, (ast.Yield, ast.YieldFrom))
    return r


def _has_yield(st):
    if isinstance(st, (ast.FunctionDef, ast.AsyncFunctionDef, ast.ClassDef)):
        return False
    return isinstance(st, (ast.Yield, ast.YieldFrom)) or _scan_own(st, (ast.Yield, ast.YieldFrom))


TRANSPARENT_DECORATORS = {"contextlib.contextmanager", "contextmanager", "staticmethod", "classmethod", "property", "functools.lru_cache", "functools.cache", "lru_cache", "cache", "functools.wraps",
                          "abstractmethod", "abc.abstractmethod", "typing.final", "final", "override", "typing.override", "typing.no_type_check"}


def _transparent_decorator(d):
    """a decorator that leaves what the function computes as it is (memoisation, markers)"""
    if isinstance(d, ast.Call):
        d = d.func
    try:
        return ast.unparse(d) in TRANSPARENT_DECORATORS
    except Exception:  # noqa
        return False


def _loc(e):
    """the location an undo record is about (None: not a location)"""
    k = e[0]
    if k == "var":
        return ("var", id(e[1]), e[2])
    if k == "rat":
        return ("rat", id(e[1]))
    if k == "attr":
        return ("attr", id(e[1]), e[2])
    if k == "dict":
        return ("dict", id(e[1]), e[2])
    if k == "list":
        return ("list", id(e[1]))
    return None


def _old_of(e):
    k = e[0]
    if k == "rat":
        r = F.Rat.__new__(F.Rat)
        r.n, r.d = e[2], e[3]
        return r
    if k == "list":
        return tuple(e[2])
    if k == "dict":
        return e[3] if e[3] is _MISSING else e[3][1]
    return e[3]


def _current(e):
    k = e[0]
    if k == "var":
        return e[1].get(e[2], _MISSING)
    if k == "rat":
        return e[1]
    if k == "attr":
        return e[1].attrs.get(e[2], _MISSING)
    if k == "dict":
        v = e[1].d.get(e[2], _MISSING)
        return v if v is _MISSING else v[1]
    if k == "list":
        return e[1]
    return None


def _snapshot(v):
    return v if v is _MISSING else clone(v)


def _exc_kind(r):
    """class name of the exception a _Raise stands for"""
    return r.kind or _raised_class(r.node)


def _raised_class(node):
    """name of the exception class a `raise` statement raises (`raise X`, `raise X(...)`, `raise m.X(...)`), else None"""
    e = getattr(node, "exc", None)
    if isinstance(e, ast.Call):
        e = e.func
    if isinstance(e, ast.Name):
        return e.id
    if isinstance(e, ast.Attribute):
        return e.attr
    return None


def _catches(handler, kind):
    """does `except <types>` catch an exception of class `kind`: True / False / None (not decidable: classes outside the builtin hierarchy)"""
    import builtins
    if handler.type is None:
        return True
    names = []
    for t_ in (handler.type.elts if isinstance(handler.type, ast.Tuple) else [handler.type]):
        names.append(t_.id if isinstance(t_, ast.Name) else (t_.attr if isinstance(t_, ast.Attribute) else None))
    kc = getattr(builtins, kind, None)
    kc = kc if isinstance(kc, type) and issubclass(kc, BaseException) else None
    undecided = False
    for nm in names:
        if nm is None:
            undecided = True
            continue
        if nm == kind or nm in ("Exception", "BaseException") and (kc is None or issubclass(kc, getattr(builtins, nm))):
            return True
        hc = getattr(builtins, nm, None)
        hc = hc if isinstance(hc, type) and issubclass(hc, BaseException) else None
        if kc is not None and hc is not None:
            if issubclass(kc, hc):
                return True
        elif kc is None and hc is None:
            undecided = True           # two classes the evaluator knows nothing about
        elif kc is None:
            undecided = True           # a user / library class may derive from the builtin named in the handler
        # a builtin exception is never an instance of a library class
    return None if undecided else False


def _no_effect_expr(st):
    """an expression statement that changes nothing the evaluator follows: a docstring / constant, a call of warnings.* / print / logging.*"""
    v = st.value
    if isinstance(v, ast.Constant):
        return True
    if isinstance(v, ast.Call):
        try:
            name = ast.unparse(v.func)
        except Exception:  # noqa
            return False
        return name.startswith(NO_EFFECT_STATEMENTS) and not any(isinstance(x, (ast.NamedExpr, ast.Yield, ast.YieldFrom, ast.Await)) for x in ast.walk(v))
    return False


def _surely_differ(a, b):
    """two sequences of known items with different content"""
    if len(a) != len(b):
        return True
    for x, y in zip(a, b):
        if isinstance(x, SEQ) and isinstance(y, SEQ):
            if _surely_differ(x, y):
                return True
        elif is_const(x) and is_const(y):
            if cval(x) != cval(y):
                return True
        elif isinstance(x, str) and isinstance(y, str):
            if x != y:
                return True
    return False


def _only_raises(stmts):
    """an arm that can do nothing but raise"""
    if not stmts:
        return False
    has = False
    for st in stmts:
        if isinstance(st, ast.Raise):
            has = True
        elif isinstance(st, (ast.Pass, ast.Assert)) or (isinstance(st, ast.Expr) and _no_effect_expr(st)):
            continue
        elif isinstance(st, ast.If):
            # nested test whose arms only raise / do nothing
            a, b = _only_raises(st.body), (not st.orelse or _only_raises(st.orelse))
            if not (a or all(isinstance(x, ast.Pass) or (isinstance(x, ast.Expr) and _no_effect_expr(x)) for x in st.body)) or not b:
                return False
            continue
        else:
            return False
    return has


def _may_only_raise_or_pass(stmts):
    """no effect on values: nothing but raise / pass / expression statements / such ifs"""
    for st in stmts:
        if isinstance(st, (ast.Raise, ast.Pass, ast.Assert)):
            continue
        if isinstance(st, ast.Expr) and _no_effect_expr(st):
            continue
        if isinstance(st, ast.If) and _may_only_raise_or_pass(st.body) and _may_only_raise_or_pass(st.orelse):
            continue
        return False
    return True


# ------------------------------------------------------------------------------------------------------------------ the program evaluated
class RawModule:
    """the module exactly as written.  The shared source model hands the rules a *canonicalised* tree (locals renamed back to reference
    names, single-use temporaries inlined, `enumerate` loops rewritten, polarity of tests normalised): transformations made for rules that
    match shapes.  An evaluator needs none of them, and one of them is wrong for it (a temporary used once inside a lambda / a nested
    function is inlined away at its definition but not at its use).  Same indexing and node annotations as e1_srcmodel.Module."""

    def __init__(self, m):
        from . import e1_srcmodel
        self.rel, self.path, self.source, self.digest = m.rel, m.path, m.source, m.digest
        self.tree = ast.parse(self.source, filename=self.path)
        self.funcs = {}
        self.classes = {}
        e1_srcmodel.Module._index(self, self.tree, "", None)

    def _index(self, node, prefix, parent):
        from . import e1_srcmodel
        e1_srcmodel.Module._index(self, node, prefix, parent)

    def seg(self, node):
        return ast.get_source_segment(self.source, node)


def raw_module(src, rel):
    cache = src.__dict__.setdefault("_c07_raw", {})
    m = cache.get(rel)
    if m is None:
        m = cache[rel] = RawModule(src.mod(rel))
    return m


# ------------------------------------------------------------------------------------------------------------------ interpreter
class Interp:
    def __init__(self, ctx, rel, hook=None, oracle=None, erase=True, protect=None):
        self.ctx = ctx
        self.src = ctx.src
        self.rel = rel
        self.mod = raw_module(ctx.src, rel)
        self.hook = hook                 # hook(interp, name, pos, kw, node) -> value | NotImplemented
        self.oracle = oracle             # oracle(interp, value, node) -> True | False | None
        self.erase = erase               # scalar image: X[i] is X ; otherwise X[i] is idx(X, i) and subscript stores are recorded
        self.calls = []
        self.loops = []
        self.cells = []                  # (base object snapshot, index value, stored value, node, aug)
        self.inplace = []                # (node, text) in-place updates of objects reachable from a protected root
        self.protected = list(protect or [])
        self.shape_of = None             # shape_of(value) -> tuple of axis lengths | None : the rule's knowledge of array shapes
        self.depth = 0
        self.seq = 0
        self._globals = {}
        self._evaluating = set()
        self._classes = {}
        self._names = {}
        self._journals = []              # trial evaluations: undo records of every mutation (see `begin` / `rollback` / `commit`)
        self._loopmode = []              # innermost loop activations of the frame being run: LoopRec (summarised) | "fold" | None (a call)
        self._merges = 0
        self._loopk = 0
        self._modvars = {}               # module rel -> {name: value} for names rebound through a `global` declaration

    # ------------------------------------------------------------------ trial evaluation
    # Every mutation the evaluator makes (a local bound, an array / list / dict / object updated in place, a record appended) goes through
    # the methods below.  `begin()` opens a trial, `rollback()` restores the state it was opened in, `commit()` keeps it.  Used to (1) run
    # both arms of an undecided `if` from the same state, (2) unroll a loop by constant folding and fall back to a one-pass summary when
    # a test in it turns out undecided.
    def begin(self):
        j = {"undo": [], "marks": (len(self.calls), len(self.loops), len(self.cells), len(self.inplace), self.seq),
             "oracle": self.oracle.save() if hasattr(self.oracle, "save") else None, "loopmode": len(self._loopmode), "depth": self.depth}
        self._journals.append(j)
        return j

    def _log(self, *entry):
        if self._journals:
            self._journals[-1]["undo"].append(entry)

    def _close(self, j):
        """pop the trial j (and any trial opened inside it that an exception left open); its undo records in chronological order"""
        inner = []
        while self._journals and self._journals[-1] is not j:
            inner.append(self._journals.pop())
        assert self._journals and self._journals[-1] is j
        self._journals.pop()
        undo = j["undo"]
        for x in reversed(inner):
            undo = undo + x["undo"]
        return undo

    def commit(self, j):
        undo = self._close(j)
        if self._journals:
            self._journals[-1]["undo"].extend(undo)

    def rollback(self, j, keep_calls=False):
        """restore the state `begin()` saw; returns the call records made since (so a caller may keep them as `maybe` records)"""
        for e in reversed(self._close(j)):
            self._undo(e)
        nc, nl, ncell, nin, seq = j["marks"]
        made = self.calls[nc:]
        del self.calls[nc:]
        del self.loops[nl:]
        del self.cells[ncell:]
        del self.inplace[nin:]
        if not keep_calls:
            self.seq = seq
        del self._loopmode[j["loopmode"]:]
        self.depth = j["depth"]
        if j["oracle"] is not None:
            self.oracle.load(j["oracle"])
        return made

    @staticmethod
    def _undo(e):
        k = e[0]
        if k == "var":
            _k, d, name, old = e
            if old is _MISSING:
                d.pop(name, None)
            else:
                d[name] = old
        elif k == "rat":
            _k, obj, n_, d_ = e
            obj.n, obj.d = n_, d_
        elif k == "attr":
            _k, obj, name, old = e
            if old is _MISSING:
                obj.attrs.pop(name, None)
            else:
                obj.attrs[name] = old
        elif k == "dict":
            _k, d, key, old = e
            if old is _MISSING:
                d.d.pop(key, None)
            else:
                d.d[key] = old
        elif k == "list":
            _k, lst, old = e
            lst[:] = old
        elif k == "iter":
            _k, itv, pos = e
            itv.pos = pos
        elif k == "dictflag":
            e[1].poisoned = e[2]

    def _set_var(self, fr, name, v):
        d = fr.outer.get(name, fr.vars)          # (a name declared nonlocal / global is bound where it lives)
        self._log("var", d, name, d.get(name, _MISSING))
        d[name] = v

    def _set_rat(self, obj, new):
        self._log("rat", obj, obj.n, obj.d)
        obj.n, obj.d = new.n, new.d

    def _set_attr(self, obj, name, v):
        self._log("attr", obj, name, obj.attrs.get(name, _MISSING))
        obj.attrs[name] = v

    def _set_item(self, d, key, val):
        self._log("dict", d, key, d.d.get(key, _MISSING))
        d.d[key] = val
        if isinstance(d, ObjDictV) and key[0] == "py" and isinstance(key[1], str):
            self._set_attr(d.obj, key[1], val[1])

    def _touch_list(self, lst):
        self._log("list", lst, list(lst))

    # ------------------------------------------------------------------ module level
    def cls(self, name, mod=None):
        mod = mod or self.mod
        k = (mod.rel, name)
        c = self._classes.get(k)
        if c is None:
            node = mod.classes.get(name)
            if node is None:
                raise AnchorError(f"class {name} not found in {mod.rel}")
            c = self._classes[k] = ClassV(name, node, mod)
            self._init_subclasses(mod)
        return c

    def _init_subclasses(self, mod):
        """class creation has effects when a base class defines __init_subclass__ (registries): run them once, in source order, for the
        classes defined at module level"""
        k = ("init_subclass", mod.rel)
        if k in self._names:
            return
        self._names[k] = True
        if "__init_subclass__" not in mod.source:
            return
        for st in mod.tree.body:
            if not isinstance(st, ast.ClassDef):
                continue
            sub = self.cls(st.name, mod)
            owner = None
            for b in self._bases(sub):
                o = self._owner(b, "__init_subclass__")
                if "__init_subclass__" in o.methods:
                    owner = o
                    break
            if owner is None:
                continue
            fn = owner.methods["__init_subclass__"]
            try:
                kw = {k_.arg: self.ev(k_.value, Frame(None, None, mod)) for k_ in st.keywords if k_.arg not in (None, "metaclass")}
                self._invoke(FuncV(fn, owner.mod, owner.closure, sub, owner, f"{owner.name}.__init_subclass__"), [], kw, st)
            except (Unsupported, _Raise, _CrashSig) as e:
                # what the hook would have registered is not known: the class-level state of the hook's owner is not either
                for nm in list(owner.consts):
                    owner.consts[nm] = Unknown(f"__init_subclass__ of {owner.name} could not be followed for {st.name}: {e}")
                owner.poisoned_by_hook = True

    def func(self, qual, mod=None):
        """FuncV of a module-level function `f` or a method `Class.m`"""
        mod = mod or self.mod
        node = mod.funcs.get(qual)
        if node is None:
            raise AnchorError(f"function {qual} not found in {mod.rel}")
        self.src.funcs_consulted.add(f"{mod.rel}:{qual}")
        c = None
        if "." in qual:
            head = qual.rsplit(".", 1)[0]
            if head in mod.classes:
                c = self.cls(head, mod)
        return FuncV(node, mod, None, None, c, qual)

    def _global(self, name, mod):
        k = (mod.rel, name)
        if k in self._globals:
            return self._globals[k]
        if k in self._evaluating:
            return Unknown(f"recursive module constant {name}")
        found = None
        for st in mod.tree.body:
            if isinstance(st, (ast.FunctionDef, ast.AsyncFunctionDef)) and st.name == name:
                found = ("func", st)
            elif isinstance(st, ast.ClassDef) and st.name == name:
                found = ("class", st)
            elif isinstance(st, ast.Assign):
                for t in st.targets:
                    if any(isinstance(x, ast.Name) and x.id == name and isinstance(x.ctx, ast.Store) for x in ast.walk(t)):
                        found = ("assign", st)
            elif isinstance(st, ast.AnnAssign) and isinstance(st.target, ast.Name) and st.target.id == name and st.value is not None:
                found = ("assign", st)
        if found is None:
            return None
        kind, st = found
        if kind == "func":
            self.src.funcs_consulted.add(f"{mod.rel}:{st.name}")
            v = self._decorate(FuncV(st, mod, None, None, None, st.name), Frame(None, None, mod))
        elif kind == "class":
            v = self.cls(st.name, mod)
        else:
            self._evaluating.add(k)
            try:
                fr = Frame(None, None, mod)
                try:
                    val = self.ev(st.value, fr)
                except Unsupported as e:
                    val = Unknown(str(e))
                tmp = Frame(None, None, mod)
                for t in (st.targets if isinstance(st, ast.Assign) else [st.target]):
                    self._bind_target(t, val, tmp, st)
                for nm, vv in tmp.vars.items():
                    self._globals[(mod.rel, nm)] = vv
                v = tmp.vars.get(name, Unknown(f"module constant {name}"))
            finally:
                self._evaluating.discard(k)
        self._globals[k] = v
        return v

    # ------------------------------------------------------------------ public entry points
    def call(self, f, pos=(), kw=None, self_obj=None):
        """evaluate a function of the module on argument values; returns its value, or Raised"""
        if isinstance(f, str):
            f = self.func(f)
        if self_obj is not None:
            f = f.bind(self_obj)
        try:
            return freeze(self._invoke(f, [clone(p) for p in pos], {k: clone(v) for k, v in (kw or {}).items()}, f.node))
        except _Raise as r:
            return Raised(r.node)
        except _CrashSig as c:
            return c.crash

    def method(self, obj, name, pos=(), kw=None):
        f = self._getattr(obj, name, None)
        if not isinstance(f, FuncV):
            raise AnchorError(f"{obj!r} has no method {name}")
        try:
            return freeze(self._invoke(f, [clone(p) for p in pos], {k: clone(v) for k, v in (kw or {}).items()}, f.node))
        except _Raise as r:
            return Raised(r.node)
        except _CrashSig as c:
            return c.crash

    def attr(self, obj, name, node=None):
        """value of obj.name (a property of the module's class is evaluated)"""
        try:
            return freeze(self._getattr(obj, name, node))
        except _Raise as r:
            return Raised(r.node)
        except _CrashSig as c:
            return c.crash

    def instantiate(self, clsname, pos=(), kw=None):
        c = self.cls(clsname)
        try:
            return self._construct(c, [clone(p) for p in pos], {k: clone(v) for k, v in (kw or {}).items()}, c.node)
        except _Raise as r:
            return Raised(r.node)
        except _CrashSig as c:
            return c.crash

    def expr(self, text, env=None):
        """value of a Python expression over `env` (the expected side of an obligation), evaluated by the same machinery"""
        fr = Frame(None, None, self.mod)
        fr.vars.update({short: Ref(short) for _pre, short in STD_NAMES})      # the rules' own vocabulary, whatever the module calls its imports
        fr.vars.update(env or {})
        saved = (self.calls, self.loops, self.cells, self.inplace)
        self.calls, self.loops, self.cells, self.inplace = [], [], [], []
        try:
            return freeze(self.ev(ast.parse(text, mode="eval").body, fr))
        except _CrashSig as c:
            return c.crash
        finally:
            self.calls, self.loops, self.cells, self.inplace = saved

    def calls_named(self, *names):
        return [c for c in self.calls if c.name in names]

    # ------------------------------------------------------------------ array shapes, selections
    def shape(self, v):
        """shape of an array value as a tuple of lengths, or None: a view X[ix] with a resolved index has the shape the index selects,
        anything else has the shape the rule's `shape_of` knows"""
        if not isinstance(v, F.Rat) or is_unknown(v):
            return None
        p = fn_parts(v)
        if p is not None and p[0] == "idx" and len(p[1]) == 2 and isinstance(p[1][1], F.Rat):
            root = self.shape(p[1][0]) if isinstance(p[1][0], F.Rat) else None
            if root is not None and index_is_canonical(p[1][1]) and len(_index_items(p[1][1])[0]) == len(root):
                return tuple(clone(x) for x in view_shape(p[1][1]))
            return None
        if self.shape_of is None:
            return None
        sh = self.shape_of(v)
        if isinstance(sh, tuple) and all(isinstance(x, F.Rat) and not is_unknown(x) for x in sh):
            return tuple(clone(x) for x in sh)
        return None

    def subscript(self, base, ix):
        """(array, index) of base[ix] with the index resolved to the rows / columns it selects; a subscript of a view becomes a
        subscript of the array viewed"""
        if not isinstance(ix, F.Rat) or is_unknown(ix):
            return base, ix
        ixc = canon_index(ix, self.shape(base))
        p = fn_parts(base)
        if p is not None and p[0] == "idx" and len(p[1]) == 2 and isinstance(p[1][0], F.Rat) and isinstance(p[1][1], F.Rat) \
                and self.shape(base) is not None and index_is_canonical(ixc):
            both = compose_index(p[1][1], ixc)
            if both is not None:
                return p[1][0], both
        return base, ixc

    # ------------------------------------------------------------------ truth
    def truth(self, v, node=None):
        if isinstance(v, list) and any(isinstance(x, PoisonedSeq) for x in v):
            return None
        if v is None or v is False:
            return False
        if v is True:
            return True
        if isinstance(v, (str, tuple, list)):
            return len(v) > 0
        if isinstance(v, DictV):
            return len(v.d) > 0
        if isinstance(v, (Obj, FuncV, ClassV, Ref, Native, IterV)):
            return True
        if is_const(v):
            return cval(v) != 0
        if self.oracle is not None:
            r = self.oracle(self, v, node)
            if r is not None:
                return bool(r)
        if isinstance(v, F.Rat):
            p = fn_parts(v)
            if p is not None and p[0] == "not":
                r = self.truth(p[1][0], node)
                return None if r is None else (not r)
        return None

    def decide(self, test, fr):
        if isinstance(test, ast.UnaryOp) and isinstance(test.op, ast.Not):
            r = self.decide(test.operand, fr)
            return None if r is None else (not r)
        if isinstance(test, ast.BoolOp):
            res = True if isinstance(test.op, ast.And) else False
            for v in test.values:
                r = self.decide(v, fr)
                if isinstance(test.op, ast.And):
                    if r is False:
                        return False
                    if r is None:
                        res = None
                else:
                    if r is True:
                        return True
                    if r is None:
                        res = None
            return res
        try:
            v = self.ev(test, fr)
        except Unsupported as e:
            v = Unknown(str(e))
        if is_crash(v):
            raise _CrashSig(v)
        return self.truth(v, test)

    # ------------------------------------------------------------------ expressions
    def ev(self, node, fr):
        m = getattr(self, "_e_" + type(node).__name__, None)
        if m is None:
            return Unknown(f"node {type(node).__name__}")
        return m(node, fr)

    def _e_Constant(self, node, fr):
        v = node.value
        if v is None or isinstance(v, (bool, str)) or v is Ellipsis:
            return v
        if isinstance(v, complex):
            return F.I * F.const(Fraction(repr(v.imag)))
        if isinstance(v, (int, float)):
            c = getattr(node, "_v_exact", None)
            if c is None:
                c = node._v_exact = const_from_node(node, self.src)       # (the literal's decimal text, read once per node)
            return F.const(c)
        return Unknown(f"constant {v!r}")

    def _lookup(self, name, fr):
        f = fr
        while f is not None:
            if name in f.vars:
                return f.vars[name]
            f = f.parent
        mod = fr.mod or self.mod
        mv = self._modvars.get(mod.rel)
        if mv is not None and name in mv:
            return mv[name]
        v = self._global(name, mod)
        if v is not None:
            return v
        known = self._known_names(mod)
        if known is not None and name not in known:
            return Crash(f"NameError: name '{name}' is not defined")
        return Ref(self._aliases(mod).get(name, name))

    def _aliases(self, mod):
        """module-level name -> canonical library name, from the import statements and from aliases of imported objects bound at module
        level (`mf = spla._matfuncs`), wherever they stand (try / if)"""
        k = ("aliases", mod.rel)
        if k in self._names:
            return self._names[k]
        shared = mod.__dict__.setdefault("_v_cache", {})
        if "aliases" in shared:
            self._names[k] = shared["aliases"]
            return shared["aliases"]
        full = {}

        def dotted(e):
            if isinstance(e, ast.Name):
                return full.get(e.id)
            if isinstance(e, ast.Attribute):
                b = dotted(e.value)
                return None if b is None else b + "." + e.attr
            return None

        def walk(stmts):
            for st in stmts:
                if isinstance(st, (ast.Import, ast.ImportFrom)):
                    for a in st.names:
                        if a.name != "*":
                            full[a.asname or (a.name.split(".")[0] if isinstance(st, ast.Import) else a.name)] = _import_full(st, a, mod.rel)
                elif isinstance(st, ast.Assign) and len(st.targets) == 1 and isinstance(st.targets[0], ast.Name):
                    d = dotted(st.value)
                    if d is not None:
                        full[st.targets[0].id] = d
                elif isinstance(st, (ast.If, ast.Try, ast.With)):
                    walk(st.body)
                    walk(getattr(st, "orelse", []) or [])
                    for h_ in getattr(st, "handlers", []) or []:
                        walk(h_.body)
                    walk(getattr(st, "finalbody", []) or [])
        walk(mod.tree.body)
        out = {}
        for nm, f in full.items():
            c = canon_dotted(f)
            if c is not None:
                out[nm] = c
        self._names[k] = out
        shared["aliases"] = out
        return out

    def _known_names(self, mod):
        """names a module-level lookup can find: imports, module-level bindings (also under try / if / with / for), builtins;
        None when a star import makes that unknowable"""
        k = mod.rel
        if k in self._names:
            return self._names[k]
        shared = mod.__dict__.setdefault("_v_cache", {})
        if "known" in shared:
            self._names[k] = shared["known"]
            return shared["known"]
        import builtins
        names = set(dir(builtins)) | {"__name__", "__file__", "__doc__", "__package__", "__spec__"}
        star = False

        def walk(node):
            """every name the module's top level can bind: all binding forms, not looking into function / class bodies"""
            nonlocal star
            for ch in ast.iter_child_nodes(node):
                if isinstance(ch, ast.Import):
                    for a in ch.names:
                        names.add(a.asname or a.name.split(".")[0])
                elif isinstance(ch, ast.ImportFrom):
                    for a in ch.names:
                        if a.name == "*":
                            star = True
                        names.add(a.asname or a.name)
                elif isinstance(ch, (ast.FunctionDef, ast.AsyncFunctionDef, ast.ClassDef)):
                    names.add(ch.name)
                    for d in ch.decorator_list:
                        walk(d)
                    continue
                elif isinstance(ch, ast.Lambda):
                    continue
                elif isinstance(ch, ast.Name) and isinstance(ch.ctx, (ast.Store, ast.Del)):
                    names.add(ch.id)
                elif isinstance(ch, ast.ExceptHandler) and ch.name:
                    names.add(ch.name)
                elif isinstance(ch, (ast.MatchAs, ast.MatchStar)) and ch.name:
                    names.add(ch.name)
                elif isinstance(ch, ast.MatchMapping) and ch.rest:
                    names.add(ch.rest)
                walk(ch)
        walk(mod.tree)
        for st in ast.walk(mod.tree):
            if isinstance(st, ast.Global):
                names.update(st.names)
            # a module that binds names dynamically: which names exist cannot be read off the source
            if isinstance(st, ast.Call) and isinstance(st.func, ast.Name) and st.func.id in ("globals", "exec", "eval", "vars", "locals", "__import__"):
                star = True
        self._names[k] = None if star else names
        shared["known"] = self._names[k]
        return self._names[k]

    def _e_Name(self, node, fr):
        return self._lookup(node.id, fr)

    def _e_Attribute(self, node, fr):
        base = self.ev(node.value, fr)
        return self._getattr(base, node.attr, node)

    def _getattr(self, base, name, node):
        if is_unknown(base):
            return base
        if base is None:
            return Crash(f"AttributeError: 'NoneType' object has no attribute '{name}'")
        if isinstance(base, Ref):
            return Ref(extend_ref(base.name, name))
        if isinstance(base, Obj):
            if name in base.attrs:
                return base.attrs[name]
            c = base.cls
            if name == "__class__" and c is not None:
                return c
            if name == "__dict__":
                return ObjDictV(base)
            c = self._owner(c, name) if c is not None else None          # the class (or module-defined base class) that defines it
            if c is not None and name not in c.methods:
                cv = self._class_const(c, name)
                if cv is not None:
                    if isinstance(cv, FuncV) and cv.self_obj is None:
                        return cv.bind(base)             # (a function stored in the class namespace is a method of its instances)
                    if isinstance(cv, PropV):
                        return self.apply(cv.fget, [base], {}, node or c.node)
                    if isinstance(cv, PartialMethodV):
                        pm, obj_ = cv, base
                        return Native("partialmethod", lambda it_, p_, k_, nd_: it_.apply(pm.f, [obj_] + pm.pos + list(p_), {**pm.kw, **k_}, nd_))
                    if isinstance(cv, Obj) and cv.cls is not None and cv is not base and "__get__" in self._owner(cv.cls, "__get__").methods:
                        # a descriptor: the attribute is what its __get__(instance, owner) returns
                        return self.apply(self._getattr(cv, "__get__", node), [base, base.cls], {}, node or cv.cls.node)
                    return cv
            if c is not None and name in c.methods:
                fn = c.methods[name]
                self.src.funcs_consulted.add(f"{c.mod.rel}:{c.name}.{name}")
                deco = {d.id for d in fn.decorator_list if isinstance(d, ast.Name)}
                if "staticmethod" in deco:
                    return FuncV(fn, c.mod, c.closure, None, c, f"{c.name}.{name}")
                if "classmethod" in deco:
                    return FuncV(fn, c.mod, c.closure, c, c, f"{c.name}.{name}")
                f = FuncV(fn, c.mod, c.closure, base, c, f"{c.name}.{name}")
                if "property" in deco:
                    return self._invoke(f, [], {}, node or fn)
                return f
            if self.hook is not None:
                r = self.hook(self, "getattr", [base, name], {}, node)
                if r is not NotImplemented:
                    return r
            if base.cls is not None and self._closed(base.cls) and not name.startswith("__") and not getattr(base, "escaped", False):
                # every class the object derives from is defined in the module and none defines __getattr__: there is no such attribute
                return Crash(f"AttributeError: '{base.cls.name}' object has no attribute '{name}'")
            return Unknown(f"attribute {name} of {base!r}")
        if isinstance(base, F.Rat):
            if name in ("T", "real"):
                return base
            if self.hook is not None:
                r = self.hook(self, "getattr", [base, name], {}, node)
                if r is not NotImplemented:
                    return r
            return F.fn("attr:" + name, base)
        if isinstance(base, FuncV):
            if name in base.attrs:
                return base.attrs[name]
            if name in ("__name__", "__qualname__"):
                return getattr(base.node, "name", "<lambda>") if name == "__name__" else base.qual
            if name == "__doc__":
                return ast.get_docstring(base.node) if not isinstance(base.node, ast.Lambda) else None
            fname = getattr(base.node, "name", None)
            if fname is not None and base.closure is None and base.self_obj is None:
                # an attribute given to a module-level function by a module-level statement `f.attr = value`
                found = [st for st in base.mod.tree.body if isinstance(st, ast.Assign) and len(st.targets) == 1
                         and isinstance(st.targets[0], ast.Attribute) and st.targets[0].attr == name
                         and isinstance(st.targets[0].value, ast.Name) and st.targets[0].value.id == fname]
                if len(found) == 1:
                    key = (base.mod.rel, fname + "." + name)
                    if key not in self._globals:
                        self._globals[key] = Unknown(f"recursive function attribute {fname}.{name}")
                        try:
                            self._globals[key] = self.ev(found[0].value, Frame(None, None, base.mod))
                        except Unsupported as e:
                            self._globals[key] = Unknown(str(e))
                    return self._globals[key]
                if found:
                    return Unknown(f"function attribute {fname}.{name} bound more than once")
            return Unknown(f"attribute {name} of a function")
        if isinstance(base, NamedT):
            if name in base._names:
                return base[base._names.index(name)]
            c = getattr(base, "_cls", None)
            if name == "_fields":
                return tuple(base._names)
            if name == "_replace":
                b_ = base

                def repl(it_, p_, k_, nd_):
                    if p_ or any(k not in b_._names for k in k_):
                        return Crash("TypeError: _replace() got unexpected arguments")
                    t = NamedT(k_.get(n_, v_) for n_, v_ in zip(b_._names, b_))
                    t._names = b_._names
                    if c is not None:
                        t._cls = c
                    return t
                return Native("namedtuple._replace", repl)
            if c is not None and name in c.methods:
                fn = c.methods[name]
                deco = {d.id for d in fn.decorator_list if isinstance(d, ast.Name)}
                if "staticmethod" in deco:
                    return FuncV(fn, c.mod, c.closure, None, c, f"{c.name}.{name}")
                if "classmethod" in deco:
                    return FuncV(fn, c.mod, c.closure, c, c, f"{c.name}.{name}")
                f = FuncV(fn, c.mod, c.closure, base, c, f"{c.name}.{name}")
                if "property" in deco:
                    return self._invoke(f, [], {}, node or fn)
                return f
            if c is not None:
                cv = self._class_const(c, name)
                if cv is not None:
                    return cv
            return Unknown(f"attribute {name} of a namedtuple")
        if isinstance(base, ClassV) and name in ("_make", "_fields") and self._record_class(base) == "namedtuple" and name not in base.methods:
            if name == "_fields":
                return tuple(n for n, _d in self._fields(base))
            c_ = base

            def make(it_, p_, k_, nd_):
                xs = it_._iterable(p_[0]) if len(p_) == 1 and not k_ else None
                return it_._construct(c_, xs, {}, nd_) if xs is not None else Unknown("namedtuple._make of an unknown sequence")
            return Native(f"{base.name}._make", make)
        if isinstance(base, ClassV) and name == "__dict__":
            d = DictV()
            for st in base.node.body:
                if isinstance(st, (ast.FunctionDef, ast.AsyncFunctionDef)) and st.name in base.methods:
                    d.d[("py", st.name)] = (st.name, FuncV(base.methods[st.name], base.mod, base.closure, None, base, f"{base.name}.{st.name}"))
                elif isinstance(st, (ast.Assign, ast.AnnAssign)) and getattr(st, "value", None) is not None:
                    for t in (st.targets if isinstance(st, ast.Assign) else [st.target]):
                        for x in ast.walk(t):
                            if isinstance(x, ast.Name) and isinstance(x.ctx, ast.Store):
                                cv = self._class_const(base, x.id)
                                d.d[("py", x.id)] = (x.id, cv if cv is not None else Unknown(f"class-level name {x.id}"))
            return d
        if isinstance(base, ClassV):
            cls0 = base
            base = self._owner(base, name)
            if name in base.methods:
                fn = base.methods[name]
                self.src.funcs_consulted.add(f"{base.mod.rel}:{base.name}.{name}")
                bound = cls0 if any(isinstance(d, ast.Name) and d.id == "classmethod" for d in fn.decorator_list) else None
                return FuncV(fn, base.mod, base.closure, bound, base, f"{base.name}.{name}")
            if name == "__name__":
                return cls0.name
            cv = self._class_const(base, name)
            if cv is not None:
                return cv
            return Unknown(f"class attribute {name}")
        if isinstance(base, (DictV, list, tuple, str)) and not name.startswith("_") or (isinstance(base, (DictV, list, tuple)) and name in ("__getitem__", "__contains__", "__len__")):
            b_, nm_ = base, name
            return Native(f"{type(base).__name__}.{name}", lambda it_, p_, k_, nd_: it_._call_value_method(b_, nm_, list(p_), k_, nd_, None))
        return Unknown(f"attribute {name} of {type(base).__name__}")

    def _bases(self, c):
        if c.bases is None:
            c.bases = []
            for b in c.node.bases:
                try:
                    bv = self.ev(b, Frame(None, c.closure, c.mod))
                except Unsupported:
                    continue
                if isinstance(bv, ClassV) and bv is not c:
                    c.bases.append(bv)
        return c.bases

    def _closed(self, c, depth=0):
        """the class and all its ancestors are classes of the module (or `object`) and none defines __getattr__ / __getattribute__"""
        if depth > 8 or "__getattr__" in c.methods or "__getattribute__" in c.methods or c.node.keywords:
            return False
        for b in c.node.bases:
            try:
                bv = self.ev(b, Frame(None, c.closure, c.mod))
            except Unsupported:
                return False
            if isinstance(bv, Ref) and bv.name == "object":
                continue
            if not isinstance(bv, ClassV) or not self._closed(bv, depth + 1):
                return False
        return True

    def _owner(self, c, name, depth=0):
        """the first class in c's (module-defined) ancestry whose body binds `name`; c itself when none does"""
        def binds(k):
            if name in k.methods:
                return True
            return any(isinstance(st, (ast.Assign, ast.AnnAssign)) and getattr(st, "value", None) is not None
                       and any(isinstance(x, ast.Name) and x.id == name for t in (st.targets if isinstance(st, ast.Assign) else [st.target]) for x in ast.walk(t))
                       for st in k.node.body)
        if binds(c) or depth > 8:
            return c
        for b in self._bases(c):
            o = self._owner(b, name, depth + 1)
            if binds(o):
                return o
        return c

    def _class_const(self, c, name):
        """value of a name bound once at class level (a constant table of the class), else None"""
        if name in c.consts:
            return c.consts[name]
        found = [st for st in c.node.body if isinstance(st, (ast.Assign, ast.AnnAssign)) and getattr(st, "value", None) is not None
                 and any(isinstance(x, ast.Name) and x.id == name for t in (st.targets if isinstance(st, ast.Assign) else [st.target]) for x in ast.walk(t))]
        if len(found) != 1:
            return None
        st = found[0]
        c.consts[name] = Unknown(f"recursive class constant {name}")
        try:
            scope = Frame(None, c.closure, c.mod)
            scope.vars = _ClassScope(self, c, st)           # (the class body is a scope: names bound earlier in it are visible)
            val = self.ev(st.value, scope)
        except Unsupported as e:
            val = Unknown(str(e))
        tmp = Frame(None, None, c.mod)
        for t in (st.targets if isinstance(st, ast.Assign) else [st.target]):
            self._bind_target(t, val, tmp, st)
        for nm, v in tmp.vars.items():
            # descriptors are told the name they are bound to (object.__set_name__)
            if isinstance(v, Obj) and v.cls is not None and "__set_name__" in self._owner(v.cls, "__set_name__").methods:
                try:
                    self.apply(self._getattr(v, "__set_name__", st), [c, nm], {}, st)
                except (_Raise, _CrashSig):
                    tmp.vars[nm] = Unknown(f"__set_name__ of the descriptor bound to {nm} raises")
        c.consts.update(tmp.vars)
        return c.consts.get(name)

    def _e_NamedExpr(self, node, fr):
        v = self.ev(node.value, fr)
        if is_crash(v):
            return v
        f = fr
        while f.comp and f.parent is not None:
            f = f.parent                       # (`:=` inside a comprehension binds in the scope that contains the comprehension)
        self._bind_target(node.target, v, f, node)
        return v

    def _e_UnaryOp(self, node, fr):
        if isinstance(node.op, ast.Not):
            r = self.decide(node.operand, fr)
            if r is not None:
                return not r
            v = to_rat(self.ev(node.operand, fr))
            return v if is_unknown(v) else F.fn("not", v)
        v = self.ev(node.operand, fr)
        if is_unknown(v):
            return v
        v = to_rat(v)
        if is_unknown(v):
            return v
        if isinstance(node.op, ast.USub):
            return -v
        if isinstance(node.op, ast.UAdd):
            return v
        if isinstance(node.op, ast.Invert):
            return F.fn("invert", v)
        return Unknown("unary operator")

    def _e_BinOp(self, node, fr):
        a = self.ev(node.left, fr)
        b = self.ev(node.right, fr)
        return self.binop(node.op, a, b, node)

    def binop(self, op, a, b, node=None):
        if is_unknown(a):
            return a
        if is_unknown(b):
            return b
        if self.hook is not None:
            r = self.hook(self, "binop:" + type(op).__name__, [a, b], {}, node)
            if r is not NotImplemented:
                return r
        # strings and sequences
        if isinstance(a, str):
            if isinstance(op, ast.Mod):
                return self._format_percent(a, b)
            if isinstance(op, ast.Add) and isinstance(b, str):
                return a + b
            if isinstance(op, ast.Mult) and is_const(b):
                return a * int(cval(b))
            return Unknown("string operator")
        if isinstance(a, SEQ) and isinstance(b, SEQ) and isinstance(op, ast.Add):
            if isinstance(a, list) != isinstance(b, list):
                return Crash("TypeError: can only concatenate a list to a list, a tuple to a tuple")
            return a + b
        if isinstance(a, SEQ) and is_const(b) and isinstance(op, ast.Mult) and cval(b).denominator == 1:
            return a * int(cval(b))
        if isinstance(b, SEQ) and is_const(a) and isinstance(op, ast.Mult) and cval(a).denominator == 1:
            return b * int(cval(a))
        if isinstance(a, (IterV, RepeatV, RangeV, DictV)) or isinstance(b, (IterV, RepeatV, RangeV, DictV)):
            return Unknown("arithmetic on an iterator / dict")
        if isinstance(a, bool):
            a = F.const(int(a))                 # True is 1 in arithmetic
        if isinstance(b, bool):
            b = F.const(int(b))
        a, b = to_rat(a), to_rat(b)
        if is_unknown(a):
            return a
        if is_unknown(b):
            return b
        try:
            if isinstance(op, ast.Add):
                return a + b
            if isinstance(op, ast.Sub):
                return a - b
            if isinstance(op, (ast.Mult, ast.MatMult)):
                return a * b
            if isinstance(op, ast.Div):
                if b.is_zero():
                    return Unknown("division by zero")
                return a / b
            if isinstance(op, ast.Pow):
                if not b.is_const() and a.is_const() and cval(a) > 0:
                    return pow_const_base(cval(a), b)
                return a ** b
            if a.is_const() and b.is_const():
                x, y = cval(a), cval(b)
                if isinstance(op, ast.FloorDiv) and y != 0:
                    return F.const(x // y)
                if isinstance(op, ast.Mod) and y != 0:
                    return F.const(x % y)
                if x.denominator == 1 and y.denominator == 1:
                    x, y = int(x), int(y)
                    if isinstance(op, ast.BitAnd):
                        return F.const(x & y)
                    if isinstance(op, ast.BitOr):
                        return F.const(x | y)
                    if isinstance(op, ast.BitXor):
                        return F.const(x ^ y)
                    if isinstance(op, ast.LShift) and y >= 0:
                        return F.const(x << y)
                    if isinstance(op, ast.RShift) and y >= 0:
                        return F.const(x >> y)
            return F.fn("op:" + type(op).__name__, a, b)
        except Unsupported as e:
            return Unknown(str(e))

    def _format_percent(self, fmt, arg):
        def py(v):
            if is_const(v):
                return py_number(v)
            if isinstance(v, str):
                return v
            raise Unsupported("format argument is not a constant")
        try:
            args = tuple(py(x) for x in arg) if isinstance(arg, tuple) else py(arg)
            if isinstance(arg, list):
                return Unknown("format of a list")
            if isinstance(args, Fraction):
                args = float(args)
            elif isinstance(args, tuple):
                args = tuple(float(x) if isinstance(x, Fraction) else x for x in args)
            return fmt % args
        except Unsupported as e:
            return Unknown(str(e))
        except (TypeError, ValueError) as e:
            return Unknown(f"format: {e}")

    def _e_BoolOp(self, node, fr):
        vals = []
        undecided = False
        for v in node.values:
            val = self.ev(v, fr)
            vals.append(val)
            t = self.truth(val, v)
            if t is None:
                undecided = True
                continue
            if isinstance(node.op, ast.And) and t is False:
                return val if not undecided else False
            if isinstance(node.op, ast.Or) and t is True:
                return val if not undecided else Unknown("undecided `or`")
        if undecided:
            xs = [to_rat(x) for x in vals]
            if any(is_unknown(x) for x in xs):
                return next(x for x in xs if is_unknown(x))
            return F.fn("bool:" + type(node.op).__name__, *xs)
        return vals[-1]

    def _e_IfExp(self, node, fr):
        c = self.decide(node.test, fr)
        if c is True:
            return self.ev(node.body, fr)
        if c is False:
            return self.ev(node.orelse, fr)
        a, b = self.ev(node.body, fr), self.ev(node.orelse, fr)
        if same_value(a, b):
            return a
        return Unknown(f"undecided conditional {ast.unparse(node.test)}")

    def _e_Compare(self, node, fr):
        left = self.ev(node.left, fr)
        result = True
        for op, cn in zip(node.ops, node.comparators):
            right = self.ev(cn, fr)
            r = self.compare(op, left, right)
            if r is False:
                return False
            if r is not True:
                if len(node.ops) > 1:
                    return Unknown("undecided chained comparison")
                result = r
            left = right
        return result

    def compare(self, op, a, b):
        """True / False when decided, else an opaque application cmp:<Op>(a, b) (or Unknown)"""
        if is_unknown(a):
            return a
        if is_unknown(b):
            return b
        if isinstance(op, (ast.Is, ast.IsNot)):
            neg = isinstance(op, ast.IsNot)
            if a is None or b is None:
                r = (a is None and b is None)
                return (not r) if neg else r
            if isinstance(a, bool) or isinstance(b, bool):
                r = a is b
                return (not r) if neg else r
            if a is b:
                return not neg
            if isinstance(a, Ref) and isinstance(b, Ref) and a.name == b.name:
                return not neg
            if isinstance(a, SEQ) and isinstance(b, SEQ):
                # two lists built separately are two objects; two tuples with different content are (equal constant tuples may be
                # one object in CPython: not decided)
                if isinstance(a, list) or isinstance(b, list) or _surely_differ(a, b):
                    return neg
            if isinstance(a, (Obj, ClassV, FuncV)) and isinstance(b, (Obj, ClassV)) or isinstance(a, (Obj, ClassV)) and isinstance(b, FuncV):
                return neg                          # (objects / classes of the module are kept one host object each)
            if isinstance(a, (str, SEQ, DictV, Obj)) != isinstance(b, (str, SEQ, DictV, Obj)) and isinstance(a, (F.Rat, str, tuple, list, DictV, Obj)) \
                    and isinstance(b, (F.Rat, str, tuple, list, DictV, Obj)) and not (isinstance(a, F.Rat) and isinstance(b, F.Rat)):
                return neg                          # an array / number is never a sequence / dict / object of the module
            return Unknown("identity of two objects")
        if isinstance(op, (ast.In, ast.NotIn)):
            neg = isinstance(op, ast.NotIn)
            if isinstance(b, DictV):
                if b.poisoned is not None:
                    return Unknown(b.poisoned)
                k = key_of(a)
                if k is None or (isinstance(a, F.Rat) and not is_const(a)):
                    return Unknown("membership of a value that is not a literal key")
                r = k in b.d
                return (not r) if neg else r
            if isinstance(b, (tuple, list, str)) and not (isinstance(b, str) and not isinstance(a, str)):
                if isinstance(b, str):
                    r = a in b
                    return (not r) if neg else r
                und = False
                for x in b:
                    e = self.compare(ast.Eq(), a, x)
                    if e is True:
                        return not neg
                    if e is not False:
                        und = True
                if und:
                    return Unknown("undecided membership")
                return neg
            return Unknown("membership in a non-sequence")
        if isinstance(op, (ast.Eq, ast.NotEq)):
            neg = isinstance(op, ast.NotEq)
            r = self._eq(a, b)
            if r is None:
                x, y = to_rat(a), to_rat(b)
                if is_unknown(x) or is_unknown(y):
                    return x if is_unknown(x) else y
                return F.fn("cmp:" + type(op).__name__, x, y)
            return (not r) if neg else r
        # ordering
        if is_const(a) and is_const(b):
            x, y = cval(a), cval(b)
            return {ast.Lt: x < y, ast.LtE: x <= y, ast.Gt: x > y, ast.GtE: x >= y}[type(op)]
        if self.hook is not None and isinstance(a, F.Rat) and isinstance(b, F.Rat):
            r = self.hook(self, "compare:" + type(op).__name__, [a, b], {}, None)
            if r is True or r is False:
                return r
        x, y = to_rat(a), to_rat(b)
        if is_unknown(x) or is_unknown(y):
            return x if is_unknown(x) else y
        return F.fn("cmp:" + type(op).__name__, x, y)

    def _eq(self, a, b):
        """True / False / None"""
        py = lambda v: v is None or isinstance(v, (bool, str))  # noqa: E731
        if py(a) and py(b):
            return type(a) is type(b) and a == b
        if isinstance(a, Ref) and isinstance(b, Ref):
            return True if a.name == b.name else None
        if isinstance(a, SEQ) and isinstance(b, SEQ):
            if isinstance(a, list) != isinstance(b, list):
                return False                    # (a list never equals a tuple)
            if len(a) != len(b):
                return False
            rs = [self._eq(x, y) for x, y in zip(a, b)]
            if any(r is False for r in rs):
                return False
            return True if all(r is True for r in rs) else None
        if is_const(a) and is_const(b):
            return cval(a) == cval(b)
        if isinstance(a, F.Rat) and isinstance(b, F.Rat):
            try:
                if a.equals(b):
                    return True
            except Unsupported:
                pass
            return None
        # a number is never None / a string ; a symbol may be anything except None (symbols stand for values that are present)
        if (is_const(a) and py(b)) or (is_const(b) and py(a)):
            return False
        if (a is None and isinstance(b, (F.Rat, tuple, list, Obj, Ref, DictV, IterV))) or (b is None and isinstance(a, (F.Rat, tuple, list, Obj, Ref, DictV, IterV))):
            return False
        if isinstance(a, SEQ) != isinstance(b, SEQ) and (py(a) or py(b)):
            return False
        return None

    def _e_Tuple(self, node, fr):
        out = []
        for e in node.elts:
            if isinstance(e, ast.Starred):
                v = self._iterable(self.ev(e.value, fr))
                if v is None:
                    return Unknown("starred value of unknown length")
                out.extend(v)
            else:
                out.append(self.ev(e, fr))
        for v in out:
            if is_crash(v):
                return v
        return tuple(out)

    def _e_Set(self, node, fr):
        """a set literal: used for membership tests and iteration (kept as a tuple without duplicates; sets are not mutated here)"""
        v = self._e_Tuple(node, fr)
        if not isinstance(v, tuple):
            return v
        out = []
        for x in v:
            if not any(same_value(x, y) for y in out):
                out.append(x)
        return tuple(out)

    def _e_List(self, node, fr):
        v = self._e_Tuple(node, fr)
        return list(v) if isinstance(v, tuple) else v

    def _e_Dict(self, node, fr):
        d = DictV()
        for k, v in zip(node.keys, node.values):
            if k is None:
                src = self.ev(v, fr)
                if not isinstance(src, DictV) or src.poisoned is not None:
                    return Unknown("dict unpacking of a value that is not a followed dict")
                d.d.update(src.d)
                continue
            kv = self.ev(k, fr)
            key = key_of(kv)
            if key is None:
                return Unknown("dict key")
            d.d[key] = (kv, self.ev(v, fr))
        return d

    def _e_JoinedStr(self, node, fr):
        parts = []
        for v in node.values:
            if isinstance(v, ast.Constant) and isinstance(v.value, str):
                parts.append(v.value)
            elif isinstance(v, ast.FormattedValue) and v.format_spec is None and v.conversion == -1:
                x = self.ev(v.value, fr)
                if isinstance(x, str):
                    parts.append(x)
                elif is_const(x):
                    parts.append(str(py_number(x)))
                else:
                    return Unknown("f-string of a non-constant")
            else:
                return Unknown("f-string with a format specification")
        return "".join(parts)

    def _e_Lambda(self, node, fr):
        return self._with_defaults(FuncV(node, fr.mod or self.mod, fr, None, None, "<lambda>"), fr)

    def _with_defaults(self, f, fr):
        """default values are evaluated when the function is defined (`lambda x, c=c: ...` in a loop keeps that iteration's c)"""
        a = f.node.args
        if a.defaults or any(d is not None for d in a.kw_defaults):
            f.defaults = [self.ev(d, fr) for d in a.defaults]
            f.kw_defaults = [None if d is None else self.ev(d, fr) for d in a.kw_defaults]
        return f

    def _e_Slice(self, node, fr):
        return self._index_value(node, fr)

    def _index_value(self, sl, fr):
        if isinstance(sl, ast.Tuple):
            xs = [self._index_value(e, fr) for e in sl.elts]
            for x in xs:
                if is_unknown(x):
                    return x
            return F.fn("tuple", *xs)
        if isinstance(sl, ast.Slice):
            parts = []
            for p in (sl.lower, sl.upper, sl.step):
                if p is None:
                    parts.append(F.sym("None"))
                else:
                    v = to_rat(self.ev(p, fr))
                    if is_unknown(v):
                        return v
                    parts.append(v)
            return F.fn("slice", *parts)
        return to_rat(self.ev(sl, fr))

    def _py_index(self, sl, fr):
        """a constant index / slice as a Python object, or None"""
        def c(n):
            if n is None:
                return None
            v = self.ev(n, fr)
            if is_const(v) and cval(v).denominator == 1:
                return int(cval(v))
            raise Unsupported("non-constant index")
        try:
            if isinstance(sl, ast.Slice):
                return slice(c(sl.lower), c(sl.upper), c(sl.step))
            v = self.ev(sl, fr)
            p = fn_parts(v) if isinstance(v, F.Rat) else None
            if p is not None and p[0] == "slice" and len(p[1]) == 3:       # a slice(...) object
                parts = []
                for x in p[1]:
                    if _named(x, "None"):
                        parts.append(None)
                    elif is_const(x) and cval(x).denominator == 1:
                        parts.append(int(cval(x)))
                    else:
                        return None
                return slice(*parts)
            if is_const(v) and cval(v).denominator == 1:
                return int(cval(v))
            if isinstance(v, bool):
                return int(v)
            if isinstance(v, F.Rat) and not is_unknown(v):
                t = self.truth(v, sl)                     # (a comparison the rule's oracle decides, used as 0 / 1)
                p = fn_parts(v)
                if t is not None and p is not None and (p[0].startswith("cmp:") or p[0].startswith("bool:") or p[0] == "not"):
                    return int(t)
            return None
        except Unsupported:
            return None

    def _e_Subscript(self, node, fr):
        base = self.ev(node.value, fr)
        if is_unknown(base):
            return base
        if isinstance(base, list) and any(isinstance(x, PoisonedSeq) for x in base):
            return base[0]
        if isinstance(base, (tuple, list, str)):
            ix = self._py_index(node.slice, fr)
            if ix is None:
                return Unknown(f"non-constant index into a sequence: {ast.unparse(node)}")
            try:
                return base[ix]
            except IndexError:
                return Crash(f"IndexError: {ast.unparse(node)} on a sequence of length {len(base)}")
            except TypeError:
                return Unknown(f"index of a sequence: {ast.unparse(node)}")
        if isinstance(base, DictV):
            kv = self.ev(node.slice, fr)
            if isinstance(kv, F.Rat) and not is_const(kv):
                t = self.truth(kv, node.slice)          # {True: f, False: g}[bool(test)] with an oracle-decided test
                if t is not None:
                    kv = t
            k = key_of(kv)
            if k is None or (isinstance(kv, F.Rat) and not is_const(kv)):
                return kv if is_unknown(kv) else Unknown(f"dict lookup {ast.unparse(node)}")
            if base.poisoned is not None:
                return Unknown(base.poisoned)
            if k not in base.d:
                return Crash(f"KeyError: {ast.unparse(node)}")
            return base.d[k][1]
        if isinstance(base, F.Rat):
            if self.erase:
                return base
            ix = self._index_value(node.slice, fr)
            if is_unknown(ix):
                return ix
            root, ix = self.subscript(base, ix)
            return F.fn("idx", root, ix)
        if isinstance(base, Obj) and base.cls is not None and "__getitem__" in self._owner(base.cls, "__getitem__").methods:
            return self.apply(self._getattr(base, "__getitem__", node), [self._index_value(node.slice, fr) if isinstance(node.slice, (ast.Slice, ast.Tuple))
                                                                        else self.ev(node.slice, fr)], {}, node, fr)
        if isinstance(base, Ref) and base.name in ("np.s_", "np.index_exp", "numpy.s_", "numpy.index_exp"):
            ix = self._index_value(node.slice, fr)          # np.s_[a:b, c:d] is the index itself
            if base.name.endswith("index_exp") and not is_unknown(ix) and not _index_items(ix)[1]:
                ix = F.fn("tuple", ix)
            return ix
        return Unknown(f"subscript of {type(base).__name__}")

    def _comprehension(self, elt, generators, fr, out):
        """unroll the generators of a comprehension over known finite sequences"""
        def rec(i, f):
            if len(out) > MAX_UNROLL:
                raise Unsupported("comprehension too long")
            if i == len(generators):
                out.append(elt(f))
                return
            g = generators[i]
            seq = self._iterable(self.ev(g.iter, f))
            if seq is None:
                raise Unsupported(f"comprehension over an unknown sequence: {ast.unparse(g.iter)}")
            for item in seq:
                f2 = scope
                self._bind_target(g.target, item, f2, g.iter)
                ok = True
                for cond in g.ifs:
                    r = self.decide(cond, f2)
                    if r is None:
                        raise Unsupported(f"undecided comprehension filter: {ast.unparse(cond)}")
                    if not r:
                        ok = False
                        break
                if ok:
                    rec(i + 1, f2)
        scope = Frame(fr.func, fr, fr.mod)          # (a comprehension is one scope: its loop variables are rebound, closures see the last)
        scope.gen = fr.gen
        scope.comp = True
        rec(0, scope)

    def _e_ListComp(self, node, fr):
        out = []
        try:
            self._comprehension(lambda f: self.ev(node.elt, f), node.generators, fr, out)
        except Unsupported as e:
            return Unknown(str(e))
        return out

    def _e_GeneratorExp(self, node, fr):
        """a generator expression is an iterator: the first iterable is evaluated now, everything else when an item is asked for"""
        gens = node.generators
        first = self._iter(self.ev(gens[0].iter, fr))
        if first is None:
            return Unknown(f"generator expression over an unknown sequence: {ast.unparse(gens[0].iter)}")

        def rec(i, f, seq):
            g = gens[i]
            if seq is None:
                seq = self._iter(self.ev(g.iter, f))
                if seq is None:
                    raise Unsupported(f"generator expression over an unknown sequence: {ast.unparse(g.iter)}")
            for item in seq:
                f2 = scope
                self._bind_target(g.target, item, f2, g.iter)
                ok = True
                for cond in g.ifs:
                    r = self.decide(cond, f2)
                    if r is None:
                        raise Unsupported(f"undecided filter of a generator expression: {ast.unparse(cond)}")
                    if not r:
                        ok = False
                        break
                if not ok:
                    continue
                if i + 1 == len(gens):
                    yield self.ev(node.elt, f2)
                else:
                    yield from rec(i + 1, f2, None)

        scope = Frame(fr.func, fr, fr.mod)          # (one scope for the whole expression, as in Python)
        scope.gen = True                            # (and it is a generator: its loops are not summarised)
        scope.comp = True
        return IterV(rec(0, scope, first), "generator expression")

    def _e_DictComp(self, node, fr):
        out = []
        try:
            self._comprehension(lambda f: (self.ev(node.key, f), self.ev(node.value, f)), node.generators, fr, out)
        except Unsupported as e:
            return Unknown(str(e))
        d = DictV()
        for k, v in out:
            key = key_of(k)
            if key is None:
                return Unknown("dict key")
            d.d[key] = (k, v)
        return d

    def _iterable(self, v):
        """all (remaining) items of an iterable value as a list (an iterator is consumed), or None"""
        if isinstance(v, SEQ):
            if any(isinstance(x, PoisonedSeq) for x in v):
                return None
            return list(v)
        if isinstance(v, DictV):
            if v.poisoned is not None:
                return None
            return [kv for kv, _ in v.d.values()]
        if isinstance(v, str):
            return list(v)
        if isinstance(v, IterV):
            return list(self._iter(v))
        if isinstance(v, RepeatV) and is_const(v.count) and cval(v.count).denominator == 1:
            return [v.value] * max(int(cval(v.count)), 0)
        if isinstance(v, Obj):
            g = self._iter(v)
            return list(g) if g is not None else None
        return None

    def _next(self, itv, send=None):
        """the next item of an iterator (for a generator: after sending it `send[0]`); raises _Stop when there is none"""
        if itv.pos < len(itv.buf):
            if send is not None:
                raise Unsupported(f"{itv.what} driven by send() is re-run after a trial evaluation was rolled back")
            v = itv.buf[itv.pos]
        else:
            if itv.broken is not None:
                raise Unsupported(itv.broken)
            if itv.done:
                raise _Stop()
            if len(itv.buf) >= MAX_UNROLL:
                raise Unsupported(f"{itv.what} yields more than {MAX_UNROLL} items")
            try:
                v = next(itv.gen) if send is None else itv.gen.send(send[0])
            except TypeError as e:
                if send is not None:
                    raise _CrashSig(Crash(f"TypeError: {e}"))
                raise
            except StopIteration:
                itv.done = True
                raise _Stop()
            except ValueError as e:
                if "already executing" in str(e):
                    raise Unsupported(f"{itv.what} advanced re-entrantly")
                raise
            except Unsupported as e:
                # (the host generator is dead now: what the iterator would have produced is not known, now or later)
                itv.broken = f"{itv.what} could not be followed: {e}"
                raise Unsupported(itv.broken)
            itv.buf.append(v)
        self._log("iter", itv, itv.pos)
        itv.pos += 1
        return v

    def _iter(self, v):
        """a host iterator over the items of an iterable value, produced on demand (a list is read as it is at that moment); None when
        the value is not a known finite iterable"""
        if isinstance(v, list):
            if any(isinstance(x, PoisonedSeq) for x in v):
                return None

            def live():
                k = 0
                while k < len(v):
                    yield v[k]
                    k += 1
            return live()
        if isinstance(v, (tuple, str)):
            return iter(v)
        if isinstance(v, DictV):
            return iter([kv for kv, _ in v.d.values()])
        if isinstance(v, IterV):
            def pull():
                while True:
                    try:
                        x = self._next(v)
                    except _Stop:
                        return
                    yield x
            return pull()
        if isinstance(v, RepeatV) and is_const(v.count) and cval(v.count).denominator == 1:
            return iter([v.value] * max(int(cval(v.count)), 0))
        if isinstance(v, Obj) and v.cls is not None and "__iter__" in self._owner(v.cls, "__iter__").methods:
            r = self.apply(self._getattr(v, "__iter__", None), [], {}, v.cls.node)
            if not isinstance(r, Obj):
                return self._iter(r)
            if r.cls is not None and "__next__" in self._owner(r.cls, "__next__").methods:
                # the iterator protocol: __next__ until it raises StopIteration
                def protocol(r=r):
                    nxt = self._getattr(r, "__next__", None)
                    while True:
                        try:
                            x = self.apply(nxt, [], {}, r.cls.node)
                        except _Raise as e:
                            if _exc_kind(e) == "StopIteration":
                                return
                            raise
                        yield x
                return protocol()
            return None
        return None

    # ------------------------------------------------------------------ calls
    def _e_Call(self, node, fr):
        # arguments
        pos = []
        for a in node.args:
            if isinstance(a, ast.Starred):
                v = self._iterable(self.ev(a.value, fr))
                if v is None:
                    return Unknown("starred argument of unknown length")
                pos.extend(v)
            else:
                pos.append(self.ev(a, fr))
        kw = {}
        for k in node.keywords:
            if k.arg is None:
                v = self.ev(k.value, fr)
                if isinstance(v, DictV) and all(isinstance(kv, str) for kv, _ in v.d.values()):
                    for kv, vv in v.d.values():
                        kw[kv] = vv
                else:
                    return Unknown("**kwargs of unknown content")
            else:
                kw[k.arg] = self.ev(k.value, fr)
        for v in list(pos) + list(kw.values()):
            if is_crash(v):
                return v
        # callee
        f = node.func
        if isinstance(f, ast.Attribute) and isinstance(f.value, ast.Call) and isinstance(f.value.func, ast.Name) and f.value.func.id == "super" \
                and not f.value.keywords and len(f.value.args) in (0, 2) and not any("super" in x.vars for x in self._frames(fr)):
            r = self._super_call(f, pos, kw, node, fr)
            if r is not NotImplemented:
                return r
        if isinstance(f, ast.Attribute):
            base = self.ev(f.value, fr)
            if isinstance(base, Ref):
                callee = Ref(extend_ref(base.name, f.attr))
            elif isinstance(base, Obj):
                callee = self._getattr(base, f.attr, node)
            elif isinstance(base, ClassV):
                callee = self._getattr(base, f.attr, node)
            elif isinstance(base, NamedT) and f.attr not in ("index", "count"):
                callee = self._getattr(base, f.attr, node)
            elif is_unknown(base):
                return base
            else:
                return self._call_value_method(base, f.attr, pos, kw, node, fr)
        else:
            callee = self.ev(f, fr)
        return self.apply(callee, pos, kw, node, fr)

    @staticmethod
    def _frames(fr):
        while fr is not None:
            yield fr
            fr = fr.parent

    def _super_call(self, f, pos, kw, node, fr):
        """super().m(args) / super(C, self).m(args) inside a method: the same call as Base.m(self, args), Base being the first base class
        (of the module, searched upwards, or of a library) that can have the attribute"""
        meth = next((x for x in self._frames(fr) if x.func is not None and x.func.cls is not None and x.func.self_obj is not None), None)
        if meth is None:
            return NotImplemented
        cls, obj = meth.func.cls, meth.func.self_obj
        if f.value.args:
            c0 = self.ev(f.value.args[0], fr)
            o0 = self.ev(f.value.args[1], fr)
            if not isinstance(c0, ClassV) or o0 is not obj:
                return NotImplemented
            cls = c0
        seen = 0
        while cls is not None and seen < 8:
            seen += 1
            nxt = None
            for b in cls.node.bases:
                bv = self.ev(b, Frame(None, None, cls.mod))
                if isinstance(bv, ClassV):
                    if f.attr in bv.methods:
                        self.src.funcs_consulted.add(f"{bv.mod.rel}:{bv.name}.{f.attr}")
                        return self.apply(FuncV(bv.methods[f.attr], bv.mod, bv.closure, obj, bv, f"{bv.name}.{f.attr}"), pos, kw, node, fr)
                    nxt = nxt or bv
                elif isinstance(bv, Ref):
                    return self.apply(Ref(extend_ref(bv.name, f.attr)), [obj] + list(pos), kw, node, fr)
            cls = nxt
        return NotImplemented

    def apply(self, callee, pos, kw, node, fr=None):
        if is_unknown(callee):
            return callee
        if isinstance(callee, FuncV):
            name = callee.qual
            if self.hook is not None:
                full = ([callee.self_obj] if callee.self_obj is not None and not isinstance(callee.node, ast.Lambda) else []) + list(pos)
                rec = self._record(name, callee, full, kw, node)
                r = self.hook(self, name, full, kw, node)
                if r is not NotImplemented:
                    rec.result = clone(r)
                    return r
                self.calls.remove(rec)
            return self._invoke(callee, pos, kw, node)
        if isinstance(callee, ClassV):
            if self.hook is not None:
                rec = self._record(callee.name, callee, pos, kw, node)
                r = self.hook(self, callee.name, list(pos), kw, node)
                if r is not NotImplemented:
                    rec.result = r
                    return r
                self.calls.remove(rec)
            return self._construct(callee, pos, kw, node)
        if isinstance(callee, Ref):
            return self._call_named(callee.name, pos, kw, node, fr)
        if isinstance(callee, Obj) and callee.cls is not None and "__call__" in self._owner(callee.cls, "__call__").methods:
            return self.apply(self._getattr(callee, "__call__", node), pos, kw, node, fr)
        if isinstance(callee, Native):
            rec = self._record(callee.name, callee, pos, kw, node)
            r = callee.fn(self, pos, kw, node)
            rec.result = clone(r)
            return r
        return Unknown(f"call of {type(callee).__name__}")

    def _record(self, name, callee, pos, kw, node, bound=None):
        self.seq += 1
        rec = CallRec(name, callee, [clone(p) for p in pos], {k: clone(v) for k, v in kw.items()}, bound, node, self.seq)
        self.calls.append(rec)
        return rec

    def _opaque(self, name, pos, kw):
        args = []
        for p in pos:
            v = to_rat(p)
            if is_unknown(v):
                return v
            args.append(v)
        for k in sorted(kw):
            v = to_rat(kw[k])
            if is_unknown(v):
                return v
            args.append(F.fn("kw:" + k, v))
        return F.fn("call:" + name, *args)

    def _call_value_method(self, base, attr, pos, kw, node, fr):
        """method call on a value that is not an object of the module: .dot, .copy, .max, .format, .items, .get ..."""
        name = "." + attr
        rec = self._record(name, None, [base] + list(pos), kw, node)
        if self.hook is not None:
            r = self.hook(self, name, [base] + list(pos), kw, node)
            if r is not NotImplemented:
                rec.result = clone(r)
                return r
        r = self._builtin_method(base, attr, pos, kw, node)
        rec.result = clone(r)
        return r

    def _builtin_method(self, base, attr, pos, kw, node):
        if isinstance(base, str):
            if attr == "format":
                try:
                    def py(v):
                        if isinstance(v, str):
                            return v
                        if is_const(v):
                            n = py_number(v)
                            return float(n) if isinstance(n, Fraction) else n
                        raise Unsupported("format argument")
                    return base.format(*[py(p) for p in pos], **{k: py(v) for k, v in kw.items()})
                except (Unsupported, IndexError, KeyError, ValueError) as e:
                    return Unknown(f"str.format: {e}")
            if attr in ("lower", "upper", "strip", "title", "capitalize", "isdigit", "isalpha") and not pos:
                return getattr(base, attr)()
            if attr == "join" and len(pos) == 1:
                xs = self._iterable(pos[0])
                if xs is not None and all(isinstance(x, str) for x in xs):
                    return base.join(xs)
                return Unknown("str.join of values that are not literal strings")
            if attr in ("startswith", "endswith", "split", "replace", "rstrip", "lstrip", "zfill", "rjust", "ljust", "partition", "rpartition", "removeprefix", "removesuffix", "find", "index", "count") \
                    and all(isinstance(x, str) or (is_const(x) and cval(x).denominator == 1) or (isinstance(x, tuple) and all(isinstance(y, str) for y in x)) for x in pos) and not kw:
                try:
                    r = getattr(base, attr)(*[int(cval(x)) if isinstance(x, F.Rat) else x for x in pos])
                except Exception as e:  # noqa
                    return Crash(f"{type(e).__name__}: str.{attr}")
                if isinstance(r, bool) or isinstance(r, str):
                    return r
                if isinstance(r, int):
                    return F.const(r)
                if isinstance(r, (list, tuple)):
                    return type(r)(r)
            return Unknown(f"str.{attr}")
        if isinstance(base, (DictV, list, tuple)) and attr in ("__getitem__", "__contains__", "__len__"):
            fr0 = Frame(None, None, self.mod)
            fr0.vars.update({"_b": base, "_k": pos[0] if pos else None})
            txt = {"__getitem__": "_b[_k]", "__contains__": "_k in _b", "__len__": "len(_b)"}[attr]
            return self.ev(ast.parse(txt, mode="eval").body, fr0)
        if isinstance(base, DictV):
            if attr == "items" and not pos:
                return tuple((kv, v) for kv, v in base.d.values())
            if attr == "keys" and not pos:
                return tuple(kv for kv, _ in base.d.values())
            if attr == "values" and not pos:
                return tuple(v for _, v in base.d.values())
            if attr in ("get", "pop", "setdefault") and pos and len(pos) <= 2 and not kw:
                k = key_of(pos[0])
                if k is None or (isinstance(pos[0], F.Rat) and not is_const(pos[0])):
                    if attr != "get":
                        self._poison_dict(base, f"dict.{attr} with a key that is not a literal")
                    return Unknown(f"dict.{attr} of a value that is not a literal key")
                if k in base.d:
                    v = base.d[k][1]
                    if attr == "pop":
                        self._log("dict", base, k, base.d[k])
                        del base.d[k]
                    return v
                if attr == "pop" and len(pos) == 1:
                    return Crash(f"KeyError: {ast.unparse(node) if node is not None else 'dict.pop'}")
                dv = pos[1] if len(pos) > 1 else None
                if attr == "setdefault":
                    self._set_item(base, k, (pos[0], dv))
                return dv
            if attr == "update" and len(pos) <= 1:
                items = []
                if pos:
                    if isinstance(pos[0], DictV):
                        items = list(pos[0].d.items())
                    else:
                        seq = self._iterable(pos[0])
                        pairs = [self._iterable(x) for x in seq] if seq is not None else None
                        if pairs is None or any(q is None or len(q) != 2 or key_of(q[0]) is None for q in pairs):
                            self._poison_dict(base, "dict.update with an unknown sequence")
                            return None
                        items = [(key_of(q[0]), (q[0], q[1])) for q in pairs]
                items += [(("py", k_), (k_, v_)) for k_, v_ in kw.items()]
                for k_, kv_ in items:
                    self._set_item(base, k_, kv_)
                return None
            if attr == "copy" and not pos:
                d2 = DictV()
                d2.d.update(base.d)
                return d2
            if attr == "clear" and not pos:
                for k_ in list(base.d):
                    self._log("dict", base, k_, base.d[k_])
                    del base.d[k_]
                return None
            self._poison_dict(base, f"dict.{attr} is not followed")
            return Unknown(f"dict.{attr}")
        if isinstance(base, SEQ):
            if attr == "index" and len(pos) == 1:
                for i, x in enumerate(base):
                    e = self.compare(ast.Eq(), x, pos[0])
                    if e is True:
                        return F.const(i)
                    if e is not False:
                        return Unknown("undecided sequence.index")
                return Crash("ValueError: value is not in the sequence")
            if attr == "count" and len(pos) == 1:
                es = [self.compare(ast.Eq(), x, pos[0]) for x in base]
                if all(e is True or e is False for e in es):
                    return F.const(sum(1 for e in es if e is True))
                return Unknown("undecided sequence.count")
            if isinstance(base, list):
                return self._list_method(base, attr, pos, kw)
            return Unknown(f"tuple.{attr}")
        if isinstance(base, IterV):
            if attr == "__next__" and not pos:
                try:
                    return self._next(base)
                except _Stop:
                    raise _Raise(node, "StopIteration", getattr(base, "retval", None))
            if attr == "send" and len(pos) == 1 and not kw and base.what.startswith("generator "):
                try:
                    return self._next(base, send=(pos[0],))
                except _Stop:
                    raise _Raise(node, "StopIteration", getattr(base, "retval", None))
            if attr == "close" and not pos:
                base.done = True                  # (nothing more is produced; a `finally` in the generator is not run: not lowered when there is one)
                if any(isinstance(n, ast.Try) and n.finalbody for n in ast.walk(getattr(base, "fn_node", ast.Pass()))):
                    return Unknown("close() of a generator with a `finally`")
                return None
            return Unknown(f"{base.what}.{attr}")
        if isinstance(base, F.Rat):
            if attr == "copy" and not pos:
                return clone(base)
            if attr == "fill" and len(pos) == 1 and not kw and self.erase:
                new = to_rat(pos[0])
                self._note_inplace(base, node)
                if isinstance(new, F.Rat) and not is_unknown(new):
                    self._set_rat(base, new)
                else:
                    self._clobber(base, ".fill of a value that could not be evaluated")
                return None
            if attr in ("astype", "ravel", "squeeze", "flatten", "conj", "view", "reshape", "toarray", "todense", "transpose"):
                return base
            v = self._opaque("." + attr, [base] + list(pos), kw)
            return v
        return Unknown(f"method {attr} of {type(base).__name__}")

    def _poison_dict(self, d, why):
        """the dict may have been changed in a way that was not followed: nothing read from it afterwards is known"""
        for k_ in list(d.d):
            self._set_item(d, k_, (d.d[k_][0], Unknown(why)))
        self._log("dictflag", d, d.poisoned)
        d.poisoned = why

    def _list_method(self, lst, attr, pos, kw):
        """the mutating methods of a list act on the object (every alias sees them)"""
        n = len(pos)

        def index(v, lo, hi):
            if is_const(v) and cval(v).denominator == 1:
                return int(cval(v))
            raise Unsupported("list method with a non-constant index")
        if any(is_crash(p_) for p_ in pos):
            return next(p_ for p_ in pos if is_crash(p_))
        if attr == "append" and n == 1 and not kw:
            self._touch_list(lst)
            lst.append(pos[0])
            return None
        if attr == "extend" and n == 1 and not kw:
            xs = self._iterable(pos[0])
            if xs is None:
                self._touch_list(lst)
                lst[:] = [PoisonedSeq("list extended by an unknown sequence")]
                return None
            self._touch_list(lst)
            lst.extend(xs)
            return None
        if attr == "insert" and n == 2 and not kw:
            self._touch_list(lst)
            lst.insert(index(pos[0], 0, 0), pos[1])
            return None
        if attr == "pop" and n <= 1 and not kw:
            if not lst:
                return Crash("IndexError: pop from empty list")
            self._touch_list(lst)
            try:
                return lst.pop(index(pos[0], 0, 0)) if n else lst.pop()
            except IndexError:
                return Crash("IndexError: pop index out of range")
        if attr == "reverse" and n == 0:
            self._touch_list(lst)
            lst.reverse()
            return None
        if attr == "clear" and n == 0:
            self._touch_list(lst)
            del lst[:]
            return None
        if attr == "copy" and n == 0:
            return list(lst)
        if attr == "appendleft" and n == 1 and not kw:
            self._touch_list(lst)
            lst.insert(0, pos[0])
            return None
        if attr == "popleft" and n == 0:
            if not lst:
                return Crash("IndexError: pop from an empty deque")
            self._touch_list(lst)
            return lst.pop(0)
        if attr == "extendleft" and n == 1:
            xs = self._iterable(pos[0])
            if xs is not None:
                self._touch_list(lst)
                for x in xs:
                    lst.insert(0, x)
                return None
        if attr == "sort" and n == 0 and set(kw) <= {"reverse"} and all(is_const(x) for x in lst):
            self._touch_list(lst)
            lst.sort(key=cval, reverse=bool(self.truth(kw.get("reverse", False))))
            return None
        if attr == "remove" and n == 1:
            for i, x in enumerate(lst):
                e = self.compare(ast.Eq(), x, pos[0])
                if e is True:
                    self._touch_list(lst)
                    del lst[i]
                    return None
                if e is not False:
                    break
        # anything else may have changed the list in a way that was not followed
        self._touch_list(lst)
        lst[:] = [PoisonedSeq(f"list.{attr} not followed")]
        return Unknown(f"list.{attr}")

    def _call_named(self, name, pos, kw, node, fr):
        if kw.get("out") is not None and (name.startswith("np.") or name.startswith("la.")):
            # f(..., out=X): the result is stored into the array X (every alias sees it) and X is returned
            out = kw["out"]
            r = self._call_named(name, pos, {k: v for k, v in kw.items() if k != "out"}, node, fr)
            if isinstance(out, F.Rat):
                self._note_inplace(out, node)
                if isinstance(r, F.Rat) and not is_unknown(r) and self.erase:
                    self._set_rat(out, r)
                else:
                    self._clobber(out, f"out= of {name}")
                return out
            return Unknown(f"{name} with an out= that is not an array the evaluator follows")
        rec = self._record(name, None, pos, kw, node)
        if self.hook is not None:
            r = self.hook(self, name, pos, kw, node)
            if r is not NotImplemented:
                rec.result = clone(r)
                return r
        r = self._builtin(name, pos, kw, node, fr)
        if r is NotImplemented:
            for a_ in list(pos) + list(kw.values()):
                # a mutable value of the module handed to a library call that is not modelled: it may come back changed
                if isinstance(a_, Obj):
                    a_.escaped = True
                elif isinstance(a_, DictV) and not name.startswith(NO_EFFECT_STATEMENTS):
                    self._poison_dict(a_, f"handed to {name}, which is not followed")
            r = self._opaque(name, pos, kw)
        rec.result = clone(r)
        return r

    def _builtin(self, name, pos, kw, node, fr):
        n = len(pos)
        if any(is_unknown(p) for p in pos):
            return next(p for p in pos if is_unknown(p))
        if name == "len" and n == 1:
            if isinstance(pos[0], list) and any(isinstance(x, PoisonedSeq) for x in pos[0]):
                return pos[0][0]
            if isinstance(pos[0], (tuple, list, str)):
                return F.const(len(pos[0]))
            if isinstance(pos[0], DictV):
                return F.const(len(pos[0].d))
            if isinstance(pos[0], (IterV, RepeatV)):
                return Unknown("len() of an iterator")
            if isinstance(pos[0], Obj) and pos[0].cls is not None and "__len__" in self._owner(pos[0].cls, "__len__").methods:
                return self.apply(self._getattr(pos[0], "__len__", node), [], {}, node, fr)
            return NotImplemented
        if name == "range" and 1 <= n <= 3:
            if all(is_const(p) and cval(p).denominator == 1 for p in pos):
                return tuple(F.const(i) for i in range(*[int(cval(p)) for p in pos]))
            if n == 1:
                return RangeV(F.const(0), to_rat(pos[0]))
            if n == 2:
                return RangeV(to_rat(pos[0]), to_rat(pos[1]))
            if n == 3 and is_const(pos[2]) and cval(pos[2]) in (1, -1):
                return RangeV(to_rat(pos[0]), to_rat(pos[1]), int(cval(pos[2])))
            return NotImplemented
        # iterators: zip, enumerate, map, filter, reversed, iter produce their items on demand and have a position
        if name in ("zip", "itertools.zip_longest"):
            its = [self._iter(p) for p in pos]
            if any(s is None for s in its):
                return Unknown("zip of an unknown sequence")
            longest = name != "zip"
            fill = kw.get("fillvalue")

            def zipped():
                if not its:
                    return
                while True:
                    row, live = [], 0
                    for s_ in its:
                        try:
                            row.append(next(s_))
                            live += 1
                        except StopIteration:
                            if not longest:
                                return
                            row.append(fill)
                    if not live:
                        return
                    yield tuple(row)
            return IterV(zipped(), "zip")
        if name == "enumerate" and n >= 1:
            s = self._iter(pos[0])
            if s is None:
                return Unknown("enumerate of an unknown sequence")
            st = kw.get("start", pos[1] if n > 1 else F.const(0))
            if not (is_const(st) and cval(st).denominator == 1):
                return Unknown("enumerate with a computed start")
            st = int(cval(st))
            return IterV(((F.const(i + st), x) for i, x in enumerate(s)), "enumerate")
        if name == "reversed" and n == 1 and isinstance(pos[0], SEQ):
            return IterV(iter(list(reversed(pos[0]))), "reversed")
        if name == "iter" and n == 2 and not kw and isinstance(pos[0], (FuncV, Native)):
            f0, sentinel = pos[0], pos[1]

            def until():
                while True:
                    v_ = self.apply(f0, [], {}, node, fr)
                    if v_ is sentinel or (isinstance(v_, bool) and isinstance(sentinel, bool) and v_ == sentinel):
                        return
                    e_ = self.compare(ast.Eq(), v_, sentinel)
                    if e_ is True:
                        return
                    if e_ is not False:
                        t_ = self.truth(v_, node) if isinstance(sentinel, bool) else None     # a test whose outcome the rule's oracle decides
                        if t_ is None:
                            raise Unsupported("iter(callable, sentinel): undecided comparison with the sentinel")
                        if t_ == sentinel:
                            return
                    yield v_
            return IterV(until(), "iter(callable, sentinel)")
        if name == "iter" and n == 1:
            if isinstance(pos[0], IterV):
                return pos[0]
            s = self._iter(pos[0])
            return IterV(s, "iterator") if s is not None else Unknown("iter() of an unknown sequence")
        if name in ("map", "itertools.starmap") and n >= 2 and isinstance(pos[0], (FuncV, ClassV, Ref, Native)):
            its = [self._iter(p) for p in pos[1:]]
            if any(s is None for s in its):
                return Unknown("map over an unknown sequence")
            f0 = pos[0]
            star = name != "map"

            def mapped():
                for row in zip(*its):
                    if star:
                        xs = self._iterable(row[0])
                        if xs is None:
                            raise Unsupported("starmap over items of unknown length")
                        yield self.apply(f0, list(xs), {}, node, fr)
                    else:
                        yield self.apply(f0, list(row), {}, node, fr)
            return IterV(mapped(), "map")
        if name in ("filter", "itertools.takewhile", "itertools.dropwhile", "itertools.filterfalse") and n == 2 and (pos[0] is None or isinstance(pos[0], (FuncV, Ref, Native))):
            s = self._iter(pos[1])
            if s is None:
                return Unknown(f"{name} over an unknown sequence")
            f0 = pos[0]

            def filtered():
                dropping = name.endswith("dropwhile")
                for x in s:
                    t = self.truth(x if f0 is None else self.apply(f0, [x], {}, node, fr), node)
                    if t is None:
                        raise Unsupported(f"undecided predicate of {name}")
                    if name == "filter":
                        if t:
                            yield x
                    elif name.endswith("filterfalse"):
                        if not t:
                            yield x
                    elif name.endswith("takewhile"):
                        if not t:
                            return
                        yield x
                    else:
                        if dropping and t:
                            continue
                        dropping = False
                        yield x
            return IterV(filtered(), name)
        if name in ("itertools.chain", "itertools.chain.from_iterable"):
            outer = self._iter(pos[0]) if name.endswith("from_iterable") and n == 1 else iter(list(pos))
            if outer is None:
                return Unknown("chain over an unknown sequence")

            def chained():
                for part in outer:
                    s_ = self._iter(part)
                    if s_ is None:
                        raise Unsupported("itertools.chain over an unknown sequence")
                    yield from s_
            return IterV(chained(), "chain")
        if name == "itertools.repeat" and 1 <= n <= 2 and set(kw) <= {"times"}:
            cnt = kw.get("times", pos[1] if n == 2 else None)
            if cnt is None:
                def forever():
                    while True:
                        yield pos[0]
                return IterV(forever(), "repeat")
            cnt = to_rat(cnt)
            if is_const(cnt) and cval(cnt).denominator == 1:
                return IterV(iter([pos[0]] * max(int(cval(cnt)), 0)), "repeat")
            return RepeatV(pos[0], cnt)
        if name == "itertools.count" and n <= 2:
            start = kw.get("start", pos[0] if n >= 1 else F.const(0))
            step = kw.get("step", pos[1] if n == 2 else F.const(1))

            def counting():
                v_ = start
                while True:
                    yield v_
                    v_ = self.binop(ast.Add(), v_, step, node)
            return IterV(counting(), "count")
        if name == "itertools.islice" and 2 <= n <= 4 and not kw:
            s = self._iter(pos[0])
            try:
                idx = [None if p_ is None else int(cval(p_)) for p_ in pos[1:]]
            except Exception:  # noqa
                return Unknown("islice with a computed bound")
            if s is None or any(p_ is not None and not (is_const(p_) and cval(p_).denominator == 1) for p_ in pos[1:]):
                return Unknown("islice of an unknown sequence / with a computed bound")
            import itertools as _it
            return IterV(_it.islice(s, *idx), "islice")
        if name == "itertools.accumulate" and 1 <= n <= 2 and set(kw) <= {"func", "initial"}:
            s = self._iter(pos[0])
            f0 = kw.get("func", pos[1] if n == 2 else None)
            if s is None:
                return Unknown("accumulate over an unknown sequence")

            def acc():
                have = "initial" in kw and kw["initial"] is not None
                tot = kw.get("initial")
                if have:
                    yield tot
                for x in s:
                    if not have:
                        tot, have = x, True
                    else:
                        tot = self.binop(ast.Add(), tot, x, node) if f0 is None else self.apply(f0, [tot, x], {}, node, fr)
                    yield tot
            return IterV(acc(), "accumulate")
        if name == "itertools.product" and not kw:
            seqs = [self._iterable(p) for p in pos]
            if any(s is None for s in seqs):
                return Unknown("product of an unknown sequence")
            import itertools as _it
            return IterV(iter([tuple(t) for t in _it.product(*seqs)]), "product")
        if name == "itertools.pairwise" and n == 1:
            xs = self._iterable(pos[0])
            if xs is None:
                return Unknown("pairwise of an unknown sequence")
            return IterV(iter([(a_, b_) for a_, b_ in zip(xs, xs[1:])]), "pairwise")
        if name.startswith("itertools."):
            return Unknown(f"{name} is not followed")
        if name in ("set", "frozenset") and n <= 1 and not kw:
            xs = self._iterable(pos[0]) if n else []
            if xs is None:
                return Unknown(f"{name}() of an unknown sequence")
            out_ = []
            for x in xs:
                if not any(same_value(x, y) for y in out_):
                    out_.append(x)
            return tuple(out_)
        if name == "collections.deque" and n <= 1 and not kw:
            xs = self._iterable(pos[0]) if n else []
            return list(xs) if xs is not None else Unknown("deque of an unknown sequence")       # (a list with appendleft / popleft)
        if name == "collections.OrderedDict" and n <= 1:
            return self._builtin("dict", pos, kw, node, fr)
        if name in ("tuple", "list") and n <= 1:
            if n == 0:
                return () if name == "tuple" else []
            s = self._iterable(pos[0])
            if s is None:
                return Unknown(f"{name}() of an unknown sequence")
            return tuple(s) if name == "tuple" else list(s)
        if name == "sorted" and n == 1 and set(kw) <= {"reverse"}:
            s = self._iterable(pos[0])
            if s is None or not all(is_const(x) for x in s):
                return Unknown("sorted() of values that are not constants")
            return sorted(s, key=cval, reverse=bool(self.truth(kw.get("reverse", False))))
        if name == "dict" and n <= 1:
            d = DictV()
            if n == 1:
                if isinstance(pos[0], DictV):
                    d.d.update(pos[0].d)
                else:
                    items = self._iterable(pos[0])
                    if items is None:
                        return Unknown("dict() of an unknown sequence")
                    for it_ in items:
                        kvp = self._iterable(it_)
                        if kvp is None or len(kvp) != 2 or key_of(kvp[0]) is None:
                            return Unknown("dict() of items that are not pairs")
                        d.d[key_of(kvp[0])] = (kvp[0], kvp[1])
            for k_, v_ in kw.items():
                d.d[("py", k_)] = (k_, v_)
            return d
        if name in ("max", "min") and n >= 1:
            if n == 1 and isinstance(pos[0], (IterV, DictV, Obj)):
                xs = self._iterable(pos[0])
                if xs is None:
                    return Unknown(f"{name}() of a value that is not a followed iterable")
            else:
                xs = list(pos[0]) if n == 1 and isinstance(pos[0], SEQ) else list(pos)
            if kw:
                return Unknown(f"{name}() with key / default")
            if xs and all(is_const(x) for x in xs):
                f = max if name == "max" else min
                return F.const(f(cval(x) for x in xs))
            rs = [to_rat(x) for x in xs]
            if any(is_unknown(x) for x in rs):
                return next(x for x in rs if is_unknown(x))
            rs.sort(key=repr)
            return F.fn(name, *rs)
        if name == "abs" and n == 1:
            v = to_rat(pos[0])
            if is_const(v):
                return F.const(abs(cval(v)))
            return F.fn("abs", v)
        if name in ("int", "float") and n == 1 and isinstance(pos[0], bool):
            return F.const(int(pos[0]))
        if name == "int" and n == 1:
            if is_const(pos[0]):
                c = cval(pos[0])
                return F.const(int(c))
            return NotImplemented
        if name == "float" and n == 1:
            return pos[0] if isinstance(pos[0], F.Rat) else NotImplemented
        if name == "round" and n == 1 and not kw and is_const(pos[0]):
            return F.const(round(cval(pos[0])))
        if name == "bool" and n == 1:
            t = self.truth(pos[0], node)
            return t if t is not None else NotImplemented
        if name == "str" and n == 1:
            if isinstance(pos[0], str):
                return pos[0]
            if is_const(pos[0]):
                return str(py_number(pos[0]))
            return NotImplemented
        if name == "type" and n == 1 and not kw and isinstance(pos[0], Obj) and pos[0].cls is not None:
            return pos[0].cls
        if name in ("collections.namedtuple", "namedtuple") and n == 2 and set(kw) <= {"defaults"}:
            fields = pos[1].replace(",", " ").split() if isinstance(pos[1], str) else [x for x in (self._iterable(pos[1]) or [None])]
            if not fields or not all(isinstance(x, str) for x in fields) or not isinstance(pos[0], str):
                return Unknown("namedtuple with computed field names")
            dflt = self._iterable(kw["defaults"]) if kw.get("defaults") is not None else []
            if dflt is None:
                return Unknown("namedtuple with unknown defaults")

            def make(it_, p_, k_, nd_, fields=tuple(fields), dflt=tuple(dflt), tname=pos[0]):
                vals = dict(zip(fields, p_))
                if len(p_) > len(fields) or any(k in vals or k not in fields for k in k_):
                    return Crash(f"TypeError: {tname}() got unexpected arguments")
                vals.update(k_)
                for k, dv in zip(fields[len(fields) - len(dflt):], dflt):
                    vals.setdefault(k, dv)
                if len(vals) != len(fields):
                    return Crash(f"TypeError: {tname}() missing arguments")
                t = NamedT(vals[k] for k in fields)
                t._names = fields
                return t
            return Native("namedtuple " + pos[0], make)
        if name == "vars" and n == 1 and not kw and isinstance(pos[0], Obj):
            return ObjDictV(pos[0])
        if name == "property" and 1 <= n <= 2 and set(kw) <= {"doc"} and isinstance(pos[0], (FuncV, Native)):
            return PropV(pos[0])              # (a setter, if given, is not what a read of the attribute runs)
        if name == "setattr" and n == 3 and not kw:
            if isinstance(pos[0], Obj) and isinstance(pos[1], str):
                self._set_attr(pos[0], pos[1], pos[2])
                return None
            return Unknown("setattr on a value that is not an object of the module / with a computed name")
        if name == "hasattr" and n == 2 and isinstance(pos[0], Obj) and isinstance(pos[1], str):
            r = self._getattr(pos[0], pos[1], node)
            if is_crash(r) and r.why.startswith("AttributeError"):
                return False
            return Unknown("hasattr of an attribute the evaluator does not know") if is_unknown(r) else True
        if name == "getattr" and n in (2, 3):
            if not isinstance(pos[1], str):
                return Unknown("getattr with a computed name")
            r = self._getattr(pos[0], pos[1], node)
            if is_crash(r) and r.why.startswith("AttributeError") and n == 3:
                return pos[2]
            if is_unknown(r) and n == 3:
                return Unknown("getattr default")
            return r
        if name == "sum" and n >= 1:
            s = self._iterable(pos[0])
            if s is None:
                return NotImplemented
            tot = pos[1] if n > 1 else kw.get("start", F.const(0))
            for x in s:
                tot = self.binop(ast.Add(), tot, x)
            return tot
        if name in ("any", "all") and n == 1:
            s = self._iter(pos[0])
            if s is None:
                return NotImplemented
            for x in s:                              # (stops at the first decisive item, as Python does)
                t = self.truth(x, node)
                if t is None:
                    return Unknown(f"undecided {name}()")
                if t is (name == "any"):
                    return t
            return name == "all"
        if name == "next" and n >= 1 and isinstance(pos[0], Obj) and pos[0].cls is not None and "__next__" in self._owner(pos[0].cls, "__next__").methods:
            try:
                return self.apply(self._getattr(pos[0], "__next__", node), [], {}, node, fr)
            except _Raise as e:
                if _exc_kind(e) == "StopIteration" and n > 1:
                    return pos[1]
                raise
        if name == "next" and n >= 1:
            if not isinstance(pos[0], IterV):
                return Unknown("next() of a value that is not a followed iterator")
            try:
                return self._next(pos[0])
            except _Stop:
                if n > 1:
                    return pos[1]
                raise _Raise(node, "StopIteration", getattr(pos[0], "retval", None))
        if name in ("operator.iadd", "operator.isub", "operator.imul", "operator.itruediv", "operator.imatmul") and n == 2 and not kw \
                and isinstance(pos[0], F.Rat) and not is_const(pos[0]):
            # the in-place operators update an array object (and return it)
            op_ = {"iadd": ast.Add, "isub": ast.Sub, "imul": ast.Mult, "itruediv": ast.Div, "imatmul": ast.MatMult}[name.split(".")[1]]
            new_ = self.binop(op_(), pos[0], pos[1], node)
            self._note_inplace(pos[0], node)
            if isinstance(new_, F.Rat) and not is_unknown(new_):
                self._set_rat(pos[0], new_)
            else:
                self._clobber(pos[0], f"{name} of a value that could not be evaluated")
            return pos[0]
        if name in OPERATOR_FUNCS and not kw and n == (1 if name in ("operator.neg", "operator.pos") else 2):
            if n == 1:
                v = to_rat(pos[0])
                return v if is_unknown(v) or name == "operator.pos" else -v
            return self.binop(OPERATOR_FUNCS[name](), pos[0], pos[1], node)
        if name == "operator.getitem" and n == 2 and not kw and isinstance(pos[0], SEQ) and is_const(pos[1]) and cval(pos[1]).denominator == 1:
            try:
                return pos[0][int(cval(pos[1]))]
            except IndexError:
                return Crash(f"IndexError: operator.getitem on a sequence of length {len(pos[0])}")
        if name == "functools.partialmethod" and n >= 1 and isinstance(pos[0], (FuncV, Native)):
            return PartialMethodV(pos[0], pos[1:], kw)
        if name == "functools.partial" and n >= 1:
            f0, pre, prekw = pos[0], list(pos[1:]), dict(kw)
            if isinstance(f0, (FuncV, ClassV, Ref, Native)):
                return Native("partial", lambda it_, p_, k_, nd_: it_.apply(f0, pre + list(p_), {**prekw, **k_}, nd_, fr))
            return Unknown("functools.partial of a value that is not a function")
        if name == "operator.itemgetter" and n == 1 and not kw and ((isinstance(pos[0], F.Rat) and not is_const(pos[0]))
                                                                    or (isinstance(pos[0], tuple) and any(fn_parts(x) is not None for x in pos[0] if isinstance(x, F.Rat)))):
            ix0 = to_rat(pos[0])
            if is_unknown(ix0):
                return ix0

            def agetter(it_, p_, k_, nd_):
                if len(p_) == 1 and isinstance(p_[0], F.Rat) and not is_unknown(p_[0]):
                    if it_.erase:
                        return p_[0]
                    root, ix = it_.subscript(p_[0], ix0)
                    return F.fn("idx", root, ix)
                return Unknown("operator.itemgetter(index) of a value that is not an array")
            return Native("itemgetter", agetter)
        if name == "operator.itemgetter" and n == 1 and not kw and is_const(pos[0]) and cval(pos[0]).denominator == 1:
            k0 = int(cval(pos[0]))

            def getter(it_, p_, k_, nd_):
                if len(p_) == 1 and isinstance(p_[0], (tuple, list, str)):
                    try:
                        return p_[0][k0]
                    except IndexError:
                        return Crash("IndexError: operator.itemgetter beyond the end of a sequence")
                return Unknown("operator.itemgetter of a value that is not a literal sequence")
            return Native("itemgetter", getter)
        if name == "operator.attrgetter" and n >= 1 and not kw and all(isinstance(p_, str) and "." not in p_ for p_ in pos):
            names_ = list(pos)

            def agetter(it_, p_, k_, nd_):
                if len(p_) != 1:
                    return Unknown("attrgetter")
                vs = [it_._getattr(p_[0], a_, nd_) for a_ in names_]
                return vs[0] if len(vs) == 1 else tuple(vs)
            return Native("attrgetter", agetter)
        if name == "operator.methodcaller" and n >= 1 and isinstance(pos[0], str):
            m0, pre, prekw = pos[0], list(pos[1:]), dict(kw)

            def caller(it_, p_, k_, nd_):
                if len(p_) != 1:
                    return Unknown("methodcaller")
                f_ = it_._getattr(p_[0], m0, nd_) if isinstance(p_[0], (Obj, ClassV)) else None
                if isinstance(f_, FuncV):
                    return it_.apply(f_, pre, prekw, nd_, fr)
                if isinstance(p_[0], (F.Rat, str, DictV, tuple, list)):
                    return it_._call_value_method(p_[0], m0, pre, prekw, nd_, fr)
                return Unknown("methodcaller on a value the evaluator has no methods for")
            return Native("methodcaller", caller)
        if name == "functools.reduce" and n in (2, 3) and not kw:
            seq = self._iterable(pos[1])
            if seq is None or not isinstance(pos[0], (FuncV, ClassV, Ref, Native)):
                return Unknown("functools.reduce over an unknown sequence")
            if n == 2 and not seq:
                return Crash("TypeError: reduce() of empty iterable with no initial value")
            acc = pos[2] if n == 3 else seq[0]
            for x in (seq if n == 3 else seq[1:]):
                acc = self.apply(pos[0], [acc, x], {}, node, fr)
                if is_unknown(acc):
                    return acc
            return acc
        if name in NP_ARITH and n == NP_ARITH[name][1] and not kw:
            if n == 1:
                v = to_rat(pos[0])
                return v if is_unknown(v) else -v
            return self.binop(NP_ARITH[name][0](), pos[0], pos[1], node)
        if name == "np.copyto" and n == 2 and not kw and self.erase and isinstance(pos[0], F.Rat):
            src = to_rat(pos[1])
            self._note_inplace(pos[0], node)
            if isinstance(src, F.Rat) and not is_unknown(src):
                self._set_rat(pos[0], src)
            else:
                self._clobber(pos[0], "np.copyto of a value that could not be evaluated")
            return None
        if name in ("copy.copy", "copy.deepcopy") and n >= 1:
            if isinstance(pos[0], F.Rat):
                return clone(pos[0])
            if isinstance(pos[0], list):
                return list(pos[0]) if name == "copy.copy" else Unknown("deepcopy of a list")
            if isinstance(pos[0], (tuple, str)) or pos[0] is None or isinstance(pos[0], bool):
                return pos[0]
            return Unknown(f"{name} of {type(pos[0]).__name__}")
        if name == "divmod" and n == 2 and not kw:
            return (self.binop(ast.FloorDiv(), pos[0], pos[1], node), self.binop(ast.Mod(), pos[0], pos[1], node))
        if name == "slice" and 1 <= n <= 3 and not kw:
            parts = [None, None, None]
            if n == 1:
                parts[1] = pos[0]
            else:
                parts[:n] = pos
            rs = [F.sym("None") if x is None else to_rat(x) for x in parts]
            if any(is_unknown(x) for x in rs):
                return next(x for x in rs if is_unknown(x))
            return F.fn("slice", *rs)
        if name == "isinstance" and n == 2:
            ts = pos[1] if isinstance(pos[1], SEQ) else (pos[1],)
            if ts and all(isinstance(t, ClassV) for t in ts):
                v = pos[0]
                if isinstance(v, NamedT) and getattr(v, "_cls", None) is not None:
                    return any(t is v._cls for t in ts)
                if isinstance(v, Obj) and v.cls is not None:
                    def anc(c, depth=0):
                        yield c
                        if depth < 8:
                            for b in self._bases(c):
                                yield from anc(b, depth + 1)
                    return any(a is t for a in anc(v.cls) for t in ts)
                if isinstance(v, (F.Rat, str, tuple, list, DictV, bool)) or v is None:
                    return False                  # (an array / number / literal is never an instance of a class of the module)
            if all(isinstance(t, Ref) for t in ts):
                names = {t.name for t in ts}
                v = pos[0]
                if isinstance(v, str):
                    return "str" in names
                if isinstance(v, SEQ):
                    return ("tuple" if isinstance(v, tuple) else "list") in names
                if isinstance(v, DictV):
                    return "dict" in names
                if v is None or isinstance(v, bool):
                    return ("bool" in names or "int" in names) if isinstance(v, bool) else False
                if isinstance(v, Obj) and v.cls is not None:
                    return v.cls.name in names
            return NotImplemented
        return NotImplemented

    # ------------------------------------------------------------------ following functions of the module
    def _fields(self, cls):
        """(name, default expression | None) of the annotated class-level names, in order (dataclass / NamedTuple fields)"""
        out = []
        for b in self._bases(cls):
            if self._record_class(b) is not None:
                for n_, d_ in self._fields(b):
                    out = [x for x in out if x[0] != n_] + [(n_, d_)]
        for st in cls.node.body:
            if isinstance(st, ast.AnnAssign) and isinstance(st.target, ast.Name):
                ann = ast.unparse(st.annotation)
                if "ClassVar" in ann:
                    continue
                if any(x[0] == st.target.id for x in out):
                    out = [(n_, st.value if n_ == st.target.id else d_) for n_, d_ in out]      # (a redefined field keeps its position)
                else:
                    out.append((st.target.id, st.value))
        return out

    def _record_class(self, cls):
        """'dataclass' / 'namedtuple' when the class is one whose constructor takes its annotated fields, else None"""
        for d in cls.node.decorator_list:
            nm = ast.unparse(d.func if isinstance(d, ast.Call) else d)
            if nm in ("dataclass", "dataclasses.dataclass"):
                return "dataclass"
        for b in cls.node.bases:
            if ast.unparse(b) in ("NamedTuple", "typing.NamedTuple"):
                return "namedtuple"
        for b in self._bases(cls):
            if self._record_class(b) == "dataclass" and "__init__" not in b.methods:
                return "dataclass"          # (a subclass of a dataclass that is not decorated itself keeps the generated constructor)
        return None

    def _construct(self, cls, pos, kw, node):
        kind = self._record_class(cls)
        if kind is not None and "__init__" not in cls.methods and "__new__" not in cls.methods:
            fields = self._fields(cls)
            names = [n for n, _d in fields]
            if len(pos) > len(names) or any(k not in names for k in kw) or any(k in names[:len(pos)] for k in kw):
                return Crash(f"TypeError: {cls.name}() got unexpected arguments")
            vals = dict(zip(names, pos))
            vals.update(kw)
            for n, dflt in fields:
                if n not in vals:
                    if dflt is None:
                        return Crash(f"TypeError: {cls.name}() missing argument {n}")
                    if isinstance(dflt, ast.Call) and ast.unparse(dflt.func) in ("field", "dataclasses.field"):
                        return Unknown(f"dataclass field {n} with a field(...) default")
                    vals[n] = self.ev(dflt, Frame(None, None, cls.mod))
            if kind == "namedtuple":
                t = NamedT(vals[n] for n in names)
                t._names = tuple(names)
                t._cls = cls
                return t
            obj = Obj(cls)
            for n in names:
                obj.attrs[n] = vals[n]
            post = self._owner(cls, "__post_init__").methods.get("__post_init__")
            if post is not None:
                self._invoke(FuncV(post, cls.mod, cls.closure, obj, cls, f"{cls.name}.__post_init__"), [], {}, node)
            return obj
        obj = Obj(cls)
        own = self._owner(cls, "__init__")
        init = own.methods.get("__init__")
        if init is not None:
            self.src.funcs_consulted.add(f"{own.mod.rel}:{own.name}.__init__")
            self._invoke(FuncV(init, own.mod, own.closure, obj, own, f"{own.name}.__init__"), pos, kw, node)
        elif self.hook is not None:
            r = self.hook(self, cls.name + ".__init__", [obj] + list(pos), kw, node)
            if r is NotImplemented and (pos or kw):
                return Unknown(f"constructor of {cls.name}")
        return obj

    def _invoke(self, f, pos, kw, node):
        if self.depth >= MAX_DEPTH:
            raise Unsupported(f"call depth exceeded at {f.qual}")
        fn = f.node
        fr = Frame(f, f.closure, f.mod)
        a = fn.args
        params = [p.arg for p in a.posonlyargs + a.args]
        vals = list(pos)
        if f.self_obj is not None and not isinstance(fn, ast.Lambda):
            vals = [f.self_obj] + vals
        bound = {}
        if len(vals) > len(params) and a.vararg is None:
            raise Unsupported(f"{f.qual}: too many positional arguments")
        for p, v in zip(params, vals):
            bound[p] = v
        if a.vararg is not None:
            bound[a.vararg.arg] = tuple(vals[len(params):])
        kwonly = [p.arg for p in a.kwonlyargs]
        extra = {}
        for k, v in kw.items():
            if k in bound:
                raise Unsupported(f"{f.qual}: argument {k} given twice")
            if k in params or k in kwonly:
                bound[k] = v
            elif a.kwarg is not None:
                extra[k] = v
            else:
                raise Unsupported(f"{f.qual}: unexpected keyword {k}")
        if a.kwarg is not None:
            d = DictV()
            for k, v in extra.items():
                d.d[("py", k)] = (k, v)
            bound[a.kwarg.arg] = d
        dfr = Frame(None, f.closure, f.mod)
        ndef = len(a.defaults)
        fixed = getattr(f, "defaults", None)
        for i, p in enumerate(params):
            if p not in bound:
                j = i - (len(params) - ndef)
                if j < 0:
                    raise Unsupported(f"{f.qual}: missing argument {p}")
                bound[p] = fixed[j] if fixed is not None else self.ev(a.defaults[j], dfr)
        for k_, (p, d) in enumerate(zip(kwonly, a.kw_defaults)):
            if p not in bound:
                if d is None:
                    raise Unsupported(f"{f.qual}: missing keyword-only argument {p}")
                bound[p] = f.kw_defaults[k_] if fixed is not None else self.ev(d, dfr)
        fr.vars.update(bound)
        rec = self._record(f.qual, f, [v for v in vals], kw, node, bound={k: clone(v) for k, v in bound.items()})
        if not isinstance(fn, ast.Lambda):
            odd = [ast.unparse(d) for d in fn.decorator_list if not _transparent_decorator(d)]
            if odd and not getattr(f, "decorated", False):
                # what is called is whatever the decorator returned, not this body
                rec.result = Unknown(f"{f.qual} is wrapped by a decorator the evaluator does not follow: {odd[0]}")
                return rec.result
            if _is_generator(fn):
                # a generator function: the body runs when items are asked for
                r = IterV(None, f"generator {f.qual}")
                r.fn_node = fn
                r.gen = self._gen_body(fn, fr, r)
                r.is_cm = any(ast.unparse(d.func if isinstance(d, ast.Call) else d) in ("contextlib.contextmanager", "contextmanager") for d in fn.decorator_list)
                rec.result = r
                return r
        self.depth += 1
        self._loopmode.append(None)
        try:
            if isinstance(fn, ast.Lambda):
                r = self.ev(fn.body, fr)
            else:
                try:
                    self.run(fn.body, fr)
                    r = None
                except _Return as ret:
                    r = ret.v
        finally:
            self.depth -= 1
            if self._loopmode:
                self._loopmode.pop()
        rec.result = clone(r)
        return r

    # ------------------------------------------------------------------ generator functions
    def _gen_body(self, fn, fr, itv):
        fr.gen = True          # (its loops are not summarised: an undecided test in it is not lowered)
        itv.retval = None
        try:
            yield from self._gen_run(fn.body, fr)
        except _Return as ret:
            itv.retval = ret.v
            return

    def _gen_run(self, stmts, fr):
        """statements of a generator function, as a host generator: a statement without `yield` is executed as usual, a compound statement
        that contains one is executed here (its tests must be decided; loops over known sequences / decided `while` tests only)"""
        for st in stmts:
            if not _has_yield(st):
                self.stmt(st, fr)
                continue
            if isinstance(st, (ast.Assign, ast.AugAssign, ast.AnnAssign, ast.Return, ast.Expr)) and st.value is not None \
                    and not isinstance(st.value, (ast.Yield, ast.YieldFrom)):
                # one `yield` inside a larger expression whose other parts only read locals and constants: the value it receives is
                # bound to a temporary first (locals cannot change while the generator is suspended)
                ys = [n for n in ast.walk(st.value) if isinstance(n, (ast.Yield, ast.YieldFrom))]
                inner = set()
                if len(ys) == 1 and isinstance(ys[0], ast.Yield):
                    inner = {id(n) for n in ast.walk(ys[0])}
                pure = len(ys) == 1 and isinstance(ys[0], ast.Yield) and all(
                    id(n) in inner or isinstance(n, (ast.Name, ast.Constant, ast.BinOp, ast.UnaryOp, ast.Compare, ast.BoolOp, ast.Tuple, ast.IfExp, ast.expr_context,
                                                     ast.operator, ast.unaryop, ast.cmpop, ast.boolop)) for n in ast.walk(st.value))
                if not pure or any(isinstance(n, (ast.Yield, ast.YieldFrom)) for t_ in getattr(st, "targets", [getattr(st, "target", None)]) if t_ is not None for n in ast.walk(t_)):
                    raise Unsupported(f"`yield` inside an expression at line {st.lineno}")
                y = ys[0]
                v = self.ev(y.value, fr) if y.value is not None else None
                if is_crash(v):
                    raise _CrashSig(v)
                got = yield v
                tmp = f"<yield@{st.lineno}>"
                self._set_var(fr, tmp, got)

                st2 = getattr(st, "_v_unyield", None)
                if st2 is None:
                    class _Swap(ast.NodeTransformer):
                        def visit_Yield(self, node):
                            return ast.copy_location(ast.Name(id=tmp, ctx=ast.Load()), node)
                    # (a fresh copy of the statement alone -- the nodes of the module carry links to their parents)
                    st2 = _Swap().visit(ast.parse(ast.unparse(st)).body[0])
                    ast.copy_location(st2, st)
                    ast.fix_missing_locations(st2)
                    for n_ in ast.walk(st2):
                        if isinstance(n_, (ast.stmt, ast.expr)):
                            n_.lineno = getattr(st, "lineno", 0)
                    st._v_unyield = st2
                self.stmt(st2, fr)
                continue
            if isinstance(st, (ast.Expr, ast.Assign, ast.AnnAssign, ast.Return)) and isinstance(st.value, (ast.Yield, ast.YieldFrom)):
                y = st.value
                if isinstance(y, ast.Yield):
                    v = self.ev(y.value, fr) if y.value is not None else None
                    if is_crash(v):
                        raise _CrashSig(v)
                    got = yield v                # (what `send` delivers; None when the consumer only asks for the next item)
                else:
                    srcv = self.ev(y.value, fr)
                    src = self._iter(srcv)
                    if src is None:
                        raise Unsupported(f"`yield from` an unknown sequence at line {st.lineno}")
                    yield from src
                    got = getattr(srcv, "retval", None) if isinstance(srcv, IterV) and hasattr(srcv, "retval") else None
                if isinstance(st, ast.Assign):
                    for t in st.targets:
                        self._bind_target(t, got, fr, st)
                elif isinstance(st, ast.AnnAssign):
                    self._bind_target(st.target, got, fr, st)
                elif isinstance(st, ast.Return):
                    raise _Return(got, st)
            elif isinstance(st, ast.If):
                c = self.decide(st.test, fr)
                if c is None:
                    raise Unsupported(f"undecided test around a `yield`: `{ast.unparse(st.test)}` at line {st.lineno}")
                yield from self._gen_run(st.body if c else st.orelse, fr)
            elif isinstance(st, ast.For):
                seq = self._iter(self.ev(st.iter, fr))
                if seq is None:
                    raise Unsupported(f"`yield` inside a loop over an unknown sequence at line {st.lineno}")
                broke = False
                n = 0
                for item in seq:
                    n += 1
                    if n > MAX_UNROLL:
                        raise Unsupported("loop too long to unroll")
                    self._bind_target(st.target, item, fr, st)
                    try:
                        yield from self._gen_run(st.body, fr)
                    except _Break:
                        broke = True
                        break
                    except _Continue:
                        continue
                if not broke:
                    yield from self._gen_run(st.orelse, fr)
            elif isinstance(st, ast.While):
                n = 0
                while True:
                    c = self.decide(st.test, fr)
                    if c is None:
                        raise Unsupported(f"`yield` inside a loop with an undecided test at line {st.lineno}")
                    if not c:
                        yield from self._gen_run(st.orelse, fr)
                        break
                    n += 1
                    if n > MAX_UNROLL:
                        raise Unsupported("generator loop does not terminate under constant folding")
                    try:
                        yield from self._gen_run(st.body, fr)
                    except _Break:
                        break
                    except _Continue:
                        continue
            elif isinstance(st, ast.With):
                for it in st.items:
                    v = self.ev(it.context_expr, fr)
                    if it.optional_vars is not None:
                        self._bind_target(it.optional_vars, v, fr, st)
                yield from self._gen_run(st.body, fr)
            elif isinstance(st, ast.Try):
                try:
                    yield from self._gen_run(st.body, fr)
                except (_Raise, _CrashSig):
                    if st.handlers:
                        raise Unsupported(f"an exception inside a `try` with handlers around a `yield` at line {st.lineno}")
                    self.run(st.finalbody, fr)
                    raise
                yield from self._gen_run(st.orelse, fr)
                yield from self._gen_run(st.finalbody, fr)
            else:
                raise Unsupported(f"`yield` inside {type(st).__name__} at line {st.lineno}")

    # ------------------------------------------------------------------ statements
    def run(self, stmts, fr):
        for st in stmts:
            self.stmt(st, fr)

    def stmt(self, st, fr):
        m = getattr(self, "_s_" + type(st).__name__, None)
        if m is None:
            raise Unsupported(f"statement {type(st).__name__} at line {getattr(st, 'lineno', '?')}")
        m(st, fr)

    def _s_Pass(self, st, fr):
        pass

    _s_Assert = _s_Pass

    def _s_Nonlocal(self, st, fr):
        for name in st.names:
            f = fr.parent
            while f is not None and name not in f.vars and name not in f.outer:
                f = f.parent
            if f is None:
                raise Unsupported(f"nonlocal {name}: no enclosing binding")
            fr.outer[name] = f.outer.get(name, f.vars)

    def _s_Global(self, st, fr):
        mod = fr.mod or self.mod
        for name in st.names:
            fr.outer[name] = self._modvars.setdefault(mod.rel, {})

    def _s_Delete(self, st, fr):
        for t in st.targets:
            if isinstance(t, ast.Subscript):
                base = self.ev(t.value, fr)
                if isinstance(base, list):
                    ix = self._py_index(t.slice, fr)
                    if ix is None:
                        raise Unsupported(f"del with a non-constant index at line {st.lineno}")
                    self._touch_list(base)
                    try:
                        del base[ix]
                    except IndexError:
                        raise _CrashSig(Crash(f"IndexError: {ast.unparse(st)}"))
                elif isinstance(base, DictV):
                    kv = self.ev(t.slice, fr)
                    k = key_of(kv)
                    if k is None or (isinstance(kv, F.Rat) and not is_const(kv)):
                        raise Unsupported(f"del of a computed dict key at line {st.lineno}")
                    if k not in base.d:
                        raise _CrashSig(Crash(f"KeyError: {ast.unparse(st)}"))
                    self._log("dict", base, k, base.d[k])
                    del base.d[k]
                elif isinstance(base, F.Rat) or is_unknown(base):
                    raise Unsupported(f"del of a part of an array at line {st.lineno}")
            elif isinstance(t, ast.Name):
                d = fr.outer.get(t.id, fr.vars)
                if t.id in d:
                    self._log("var", d, t.id, d[t.id])
                    del d[t.id]

    def _s_Import(self, st, fr):
        for a in st.names:
            nm = a.asname or a.name.split(".")[0]
            full = _import_full(st, a, (fr.mod or self.mod).rel)
            self._set_var(fr, nm, Ref(canon_dotted(full) or full))

    def _s_ImportFrom(self, st, fr):
        for a in st.names:
            if a.name != "*":
                full = _import_full(st, a, (fr.mod or self.mod).rel)
                self._set_var(fr, a.asname or a.name, Ref(canon_dotted(full) or full))

    def _s_Expr(self, st, fr):
        if isinstance(st.value, ast.Constant):
            return
        n0 = len(self.calls)
        try:
            v = self.ev(st.value, fr)
        except Unsupported as e:
            v = Unknown(str(e))
        if is_crash(v):
            raise _CrashSig(v)
        if isinstance(st.value, ast.Call) and v is not None:
            # a library call (or a method of an array) written as a statement is there for its effect: when the evaluator has no model of
            # it, the arrays it is given are not known afterwards
            rec = next((c for c in self.calls[n0:] if c.node is st.value), None)
            p = fn_parts(v) if isinstance(v, F.Rat) else None
            modelled = not is_unknown(v) and not (p is not None and p[0].startswith("call:"))
            if rec is not None and rec.callee is None and not modelled and not rec.name.startswith(NO_EFFECT_STATEMENTS):
                f = st.value.func
                args = ([f.value] if isinstance(f, ast.Attribute) and rec.name.startswith(".") else []) + list(st.value.args) \
                    + [k.value for k in st.value.keywords]
                for a in args:
                    # (the record holds snapshots: the live object is the value of the argument expression)
                    if any(isinstance(x, (ast.Call, ast.Starred, ast.NamedExpr, ast.Yield, ast.Await, ast.Lambda)) for x in ast.walk(a)):
                        continue
                    try:
                        live = self.ev(a, fr)
                    except Unsupported:
                        continue
                    if isinstance(live, F.Rat) and not is_unknown(live) and not is_const(live):
                        self._note_inplace(live, st)
                        self._clobber(live, f"{rec.name} called as a statement")

    def _s_Return(self, st, fr):
        v = self.ev(st.value, fr) if st.value is not None else None
        if is_crash(v):
            raise _CrashSig(v)
        raise _Return(v, st)

    def _s_Raise(self, st, fr):
        raise _Raise(st)

    def _s_Break(self, st, fr):
        raise _Break()

    def _s_Continue(self, st, fr):
        raise _Continue()

    def _s_FunctionDef(self, st, fr):
        self._set_var(fr, st.name, self._decorate(self._with_defaults(FuncV(st, fr.mod or self.mod, fr, None, None, getattr(st, "_vqual", st.name)), fr), fr))

    def _decorate(self, f, fr):
        """what a `def` binds: the function object passed through its decorators, innermost first (memoisation and marker decorators
        leave it as it is; a decorator defined in the module is called with it)"""
        v = f
        for d in reversed(f.node.decorator_list):
            if _transparent_decorator(d):
                continue
            try:
                dv = self.ev(d, fr)
                v = self.apply(dv, [v], {}, d, fr) if isinstance(dv, (FuncV, Native)) else Unknown(f"decorator {ast.unparse(d)} is not followed")
            except Unsupported as e:
                v = Unknown(str(e))
            except (_Raise, _CrashSig):
                v = Unknown(f"decorator {ast.unparse(d)} raises")
            if is_unknown(v):
                return Unknown(f"{f.qual} is wrapped by a decorator the evaluator does not follow: {ast.unparse(d)}")
        f.decorated = True
        return v

    def _s_ClassDef(self, st, fr):
        if st.keywords or any(not _transparent_decorator(d) and ast.unparse(d.func if isinstance(d, ast.Call) else d) not in ("dataclass", "dataclasses.dataclass")
                              for d in st.decorator_list):
            self._set_var(fr, st.name, Unknown(f"class {st.name} with a metaclass / a decorator the evaluator does not follow"))
            return
        c = ClassV(st.name, st, fr.mod or self.mod)
        c.closure = fr
        self._set_var(fr, st.name, c)

    def _s_Assign(self, st, fr):
        v = self.ev(st.value, fr)
        if is_crash(v):
            raise _CrashSig(v)
        for t in st.targets:
            self._bind_target(t, v, fr, st)

    def _s_AnnAssign(self, st, fr):
        if st.value is not None:
            self._bind_target(st.target, self.ev(st.value, fr), fr, st)

    def _bind_target(self, t, v, fr, st):
        if isinstance(t, ast.Name):
            self._set_var(fr, t.id, v)
        elif isinstance(t, (ast.Tuple, ast.List)):
            if isinstance(v, (IterV, DictV, str, Obj)) or (isinstance(v, RepeatV) and is_const(v.count)):
                xs = self._iterable(v)
                v = tuple(xs) if xs is not None else Unknown("unpacking of a value that is not a followed iterable")
            if isinstance(v, list) and any(isinstance(x, PoisonedSeq) for x in v):
                v = v[0]
            stars = [k for k, e in enumerate(t.elts) if isinstance(e, ast.Starred)]
            if isinstance(v, SEQ) and not stars and len(v) == len(t.elts):
                for e, x in zip(t.elts, v):
                    self._bind_target(e, x, fr, st)
            elif isinstance(v, SEQ) and len(stars) == 1 and len(v) >= len(t.elts) - 1:
                k = stars[0]
                tail = len(t.elts) - 1 - k
                for e, x in zip(t.elts[:k], v[:k]):
                    self._bind_target(e, x, fr, st)
                self._bind_target(t.elts[k].value, list(v[k:len(v) - tail]), fr, st)
                for e, x in zip(t.elts[k + 1:], v[len(v) - tail:]):
                    self._bind_target(e, x, fr, st)
            else:
                if isinstance(v, SEQ):
                    raise _CrashSig(Crash(f"ValueError: {len(v)} values to unpack into {len(t.elts)} targets"))
                why = v if is_unknown(v) else Unknown("tuple unpacking of a non-tuple")
                for e in t.elts:
                    self._bind_target(e.value if isinstance(e, ast.Starred) else e, why, fr, st)
        elif isinstance(t, ast.Attribute):
            base = self.ev(t.value, fr)
            if isinstance(base, Obj):
                self._set_attr(base, t.attr, v)
            elif isinstance(base, ClassV):
                self._log("dict", _ConstsView(base), t.attr, base.consts.get(t.attr, _MISSING))
                base.consts[t.attr] = v
            elif isinstance(base, FuncV):
                self._log("dict", _AttrsView(base), t.attr, base.attrs.get(t.attr, _MISSING))
                base.attrs[t.attr] = v
        elif isinstance(t, ast.Starred):
            self._bind_target(t.value, v, fr, st)
        elif isinstance(t, ast.Subscript):
            self._store_subscript(t, v, fr, st, aug=None)
        else:
            raise Unsupported(f"assignment target {type(t).__name__}")

    def _store_subscript(self, t, v, fr, st, aug):
        if is_crash(v):
            raise _CrashSig(v)
        base = self.ev(t.value, fr)
        if is_crash(base):
            raise _CrashSig(base)
        if isinstance(base, DictV):
            kv = self.ev(t.slice, fr)
            k = key_of(kv)
            if k is None or (isinstance(kv, F.Rat) and not is_const(kv)):
                raise Unsupported("dict store with a key that is not a literal")
            if aug is not None:
                if k not in base.d:
                    raise _CrashSig(Crash(f"KeyError: {ast.unparse(t)}"))
                v = self.binop(aug, base.d[k][1], v, st)
            self._set_item(base, k, (kv, v))
            return
        if isinstance(base, list):
            ix = self._py_index(t.slice, fr)
            if ix is None:
                self._touch_list(base)
                base[:] = [Unknown("list store with a non-constant index") for _x in base]
                return
            self._touch_list(base)
            try:
                if isinstance(ix, slice):
                    if aug is not None:
                        raise Unsupported("augmented assignment to a slice of a list")
                    xs = self._iterable(v)
                    if xs is None:
                        raise Unsupported("a slice of a list assigned from an unknown sequence")
                    base[ix] = xs
                else:
                    base[ix] = v if aug is None else self.binop(aug, base[ix], v, st)
            except IndexError:
                raise _CrashSig(Crash(f"IndexError: {ast.unparse(t)} on a list of length {len(base)}"))
            return
        if isinstance(base, tuple):
            raise _CrashSig(Crash("TypeError: 'tuple' object does not support item assignment"))
        if is_unknown(base):
            return
        if isinstance(base, F.Rat):
            self._note_inplace(base, st)
            if self.erase:
                if aug is None:
                    new = to_rat(v)
                else:
                    new = self.binop(aug, base, v, st)
                if isinstance(new, F.Rat) and not is_unknown(new):
                    self._set_rat(base, new)
                else:
                    self._clobber(base, "a subscript store of a value that could not be evaluated")
                return
            ix = self._index_value(t.slice, fr)
            if not is_unknown(ix):
                base, ix = self.subscript(base, ix)         # a store through a view is a store into the array viewed
            if aug is not None and not is_unknown(ix):
                v = self.binop(aug, F.fn("idx", base, ix), v, st)
            self.cells.append((clone(base), ix, clone(v), st, aug is not None))
            return
        raise Unsupported(f"subscript store into {type(base).__name__}")

    def _clobber(self, obj, why):
        """the array object now holds something the evaluator could not follow: every alias sees an opaque value (which the rules treat
        as not evaluated, never as a value to compare)"""
        self._merges += 1
        self._set_rat(obj, F.fn("call:not-followed", F.const(self._merges)))

    def _reachable_ids(self):
        seen = set()
        stack = list(self.protected)
        while stack:
            v = stack.pop()
            if id(v) in seen:
                continue
            seen.add(id(v))
            if isinstance(v, Obj):
                stack.extend(v.attrs.values())
            elif isinstance(v, tuple):
                stack.extend(v)
            elif isinstance(v, DictV):
                for kv, x in v.d.values():
                    stack.append(x)
        return seen

    def _note_inplace(self, obj, st):
        if self.protected and id(obj) in self._reachable_ids():
            self.inplace.append((st, ast.unparse(st)))

    def _s_AugAssign(self, st, fr):
        t = st.target
        if isinstance(t, ast.Subscript):
            base = self.ev(t.value, fr)
            if isinstance(base, (list, DictV)):
                # an element of a list / dict: an array element is updated in place (the object the slot holds), a number is replaced
                if isinstance(base, list):
                    ix = self._py_index(t.slice, fr)
                    if ix is None or isinstance(ix, slice):
                        self._touch_list(base)
                        base[:] = [Unknown("augmented assignment to a list element with a non-constant index") for _x in base]
                        return
                    try:
                        cur = base[ix]
                    except IndexError:
                        raise _CrashSig(Crash(f"IndexError: {ast.unparse(t)} on a list of length {len(base)}"))
                else:
                    kv = self.ev(t.slice, fr)
                    ix = key_of(kv)
                    if ix is None or (isinstance(kv, F.Rat) and not is_const(kv)):
                        raise Unsupported("dict store with a key that is not a literal")
                    if ix not in base.d:
                        raise _CrashSig(Crash(f"KeyError: {ast.unparse(t)}"))
                    cur = base.d[ix][1]
                rhs = self.ev(st.value, fr)
                for v in (cur, rhs):
                    if is_crash(v):
                        raise _CrashSig(v)
                if isinstance(cur, list):
                    raise Unsupported("augmented assignment to a list held in a list")
                new = self.binop(st.op, cur, rhs, st)
                counter = (isinstance(st.op, (ast.Add, ast.Sub)) and is_const(rhs)) \
                    or isinstance(st.op, (ast.RShift, ast.LShift, ast.FloorDiv, ast.Mod, ast.BitAnd, ast.BitOr, ast.BitXor))
                if isinstance(cur, F.Rat) and not counter:
                    self._note_inplace(cur, st)
                    if isinstance(new, F.Rat) and not is_unknown(new):
                        self._set_rat(cur, new)
                    else:
                        self._clobber(cur, "an in-place update by a value that could not be evaluated")
                    return
                if isinstance(base, list):
                    self._touch_list(base)
                    base[ix] = new
                else:
                    self._set_item(base, ix, (base.d[ix][0], new))
                return
            self._store_subscript(t, self.ev(st.value, fr), fr, st, aug=st.op)
            return
        if isinstance(t, ast.Name):
            cur = self._lookup(t.id, fr)
        elif isinstance(t, ast.Attribute):
            cur = self._getattr(self.ev(t.value, fr), t.attr, t)
        else:
            raise Unsupported(f"augmented assignment to {type(t).__name__}")
        rhs = self.ev(st.value, fr)
        for v in (cur, rhs):
            if is_crash(v):
                raise _CrashSig(v)
        if isinstance(cur, list) and isinstance(st.op, (ast.Add, ast.Mult)):
            # a list is extended / repeated in place
            if isinstance(st.op, ast.Add):
                xs = self._iterable(rhs)
                self._touch_list(cur)
                if xs is None:
                    cur[:] = [PoisonedSeq("list extended by an unknown sequence")]
                else:
                    cur.extend(xs)
            elif is_const(rhs) and cval(rhs).denominator == 1:
                self._touch_list(cur)
                cur[:] = cur * int(cval(rhs))
            else:
                self._touch_list(cur)
                cur[:] = [PoisonedSeq("list repeated an unknown number of times")]
            return
        new = self.binop(st.op, cur, rhs, st)
        # integers are rebound, not updated: counters (`j += 1.0`) and the operators only integers have (`n >>= 1`, `n //= 2`)
        counter = (isinstance(st.op, (ast.Add, ast.Sub)) and is_const(rhs)) \
            or isinstance(st.op, (ast.RShift, ast.LShift, ast.FloorDiv, ast.Mod, ast.BitAnd, ast.BitOr, ast.BitXor))
        if isinstance(cur, F.Rat) and not counter:
            # numpy semantics: the array object is updated, every alias sees it
            self._note_inplace(cur, st)
            if isinstance(new, F.Rat) and not is_unknown(new):
                self._set_rat(cur, new)
                return
            self._clobber(cur, "an in-place update by a value that could not be evaluated")
            return
        self._bind_target(t, new, fr, st)

    def _s_If(self, st, fr):
        c = self.decide(st.test, fr)
        if c is True:
            self.run(st.body, fr)
            return
        if c is False:
            self.run(st.orelse, fr)
            return
        # undecided
        if _may_only_raise_or_pass(st.body) and _may_only_raise_or_pass(st.orelse):
            return
        if _only_raises(st.body):
            self.run(st.orelse, fr)
            return
        if st.orelse and _only_raises(st.orelse):
            self.run(st.body, fr)
            return
        what = ast.unparse(st.test)
        # both arms are evaluated from the same state (a trial that is rolled back, then the other arm); what the two leave behind is
        # compared location by location (locals, arrays / lists / dicts / attributes updated in place): where they differ the value is
        # not known afterwards
        finals, origs, made, flows = [], {}, [], []
        j = None
        for k, arm in enumerate((st.body, st.orelse)):
            j = self.begin()
            flow = None
            try:
                self.run(arm, fr)
            except (_Break, _Continue) as e:
                flow = e
            except (_Return, _Raise):
                self.rollback(j)
                raise Unsupported(f"undecided test guards control flow: `{what}` at line {st.lineno}")
            except _CrashSig as cs:
                self.rollback(j)
                raise Unsupported(f"an arm of the undecided test `{what}` raises: {cs.crash.why}")
            except BaseException:
                self.rollback(j)
                raise
            flows.append(flow)
            fin = {}
            for e in j["undo"]:
                loc = _loc(e)
                if loc is None:
                    continue
                origs.setdefault(loc, (e, _old_of(e)))
                fin[loc] = _snapshot(_current(e))
            finals.append(fin)
            if k == 0:
                made = self.rollback(j, keep_calls=True)
        if flows[0] is not None or flows[1] is not None:
            # a `break` / `continue` under an undecided test: an exit of the loop being summarised (see _summarize), else not lowered
            rec = self._loopmode[-1] if self._loopmode else None
            self.rollback(j)
            if isinstance(rec, LoopRec) and not fr.gen and (flows[0] is None) != (flows[1] is None) \
                    and isinstance(flows[0] or flows[1], _Break):
                self._loop_exit(rec, st, fr, 0 if flows[0] is not None else 1)
                return
            raise Unsupported(f"undecided test guards control flow: `{what}` at line {st.lineno}")
        # the state is the one after the second arm
        for loc in set(finals[0]) | set(finals[1]):
            e, old = origs[loc]
            a = finals[0].get(loc, old)
            b = finals[1].get(loc, old)
            same = (a is _MISSING and b is _MISSING) or (a is not _MISSING and b is not _MISSING and same_value(a, b) and not is_unknown(a))
            if not same:
                self._poison_loc(e, f"assigned differently under undecided test `{what}`")
        self.commit(j)
        if made:
            # (records of the calls the first arm made are kept, after those of the second: either may have happened)
            self.calls.extend(made)

    def _poison_loc(self, e, why):
        k = e[0]
        if k == "var":
            self._log("var", e[1], e[2], e[1].get(e[2], _MISSING))
            e[1][e[2]] = Unknown(why)
        elif k == "rat":
            self._clobber(e[1], why)
        elif k == "attr":
            self._set_attr(e[1], e[2], Unknown(why))
        elif k == "dict":
            self._log("dict", e[1], e[2], e[1].d.get(e[2], _MISSING))
            e[1].d[e[2]] = (e[1].d.get(e[2], (None, None))[0], Unknown(why))
        elif k == "list":
            lst, old = e[1], e[2]
            self._touch_list(lst)
            if len(lst) == len(old) and not any(isinstance(x, PoisonedSeq) for x in list(lst) + list(old)):
                lst[:] = [x if (x is y or same_value(x, y)) and not is_unknown(x) else Unknown(why) for x, y in zip(lst, old)]
            else:
                lst[:] = [PoisonedSeq(why)]

    def _loop_exit(self, rec, st, fr, arm):
        """`if test: <arm that ends in break>` in the single pass over a summarised loop: the test is one of the loop's exits; the pass goes
        on through the other arm.  What the leaving arm assigns before it breaks is not known after the loop."""
        leaving, staying = (st.body, st.orelse) if arm == 0 else (st.orelse, st.body)
        if not isinstance(leaving[-1], ast.Break):
            raise Unsupported(f"undecided test guards control flow: `{ast.unparse(st.test)}` at line {st.lineno}")
        for x in leaving[:-1]:
            for n in ast.walk(x):
                if isinstance(n, (ast.Break, ast.Continue, ast.Return, ast.Raise)) or \
                        (isinstance(n, (ast.Subscript, ast.Attribute)) and isinstance(n.ctx, ast.Store)):
                    raise Unsupported(f"an arm that leaves a loop under the undecided test `{ast.unparse(st.test)}` does more than assign locals")
        try:
            tv = self.ev(st.test, fr)
        except Unsupported as e:
            tv = Unknown(str(e))
        at_top = all(same_value(fr.vars.get(n), rec.in_sym(n)) for n in rec.carried)
        rec.exits.append((tv if isinstance(tv, (F.Rat, bool)) or is_unknown(tv) else to_rat(tv), arm == 0, at_top, st))
        rec.exit_assigned.update(_assigned_names(leaving[:-1]))
        self.run(staying, fr)

    def _s_Match(self, st, fr):
        """`match` on literal / dotted-name patterns, `|` of those, a capture or wildcard, optional guard: the first case whose pattern
        equals the subject is run; an undecided comparison is not lowered"""
        subj = self.ev(st.subject, fr)
        if is_crash(subj):
            raise _CrashSig(subj)

        def decided(r, pat):
            # (a comparison constant folding leaves open may be one the rule's oracle decides, as for an `if`)
            if r is True or r is False:
                return r
            t = self.truth(r, pat) if isinstance(r, F.Rat) and not is_unknown(r) else None
            return r if t is None else t

        def matches(pat, subj=subj):
            if isinstance(pat, ast.MatchValue):
                return decided(self.compare(ast.Eq(), subj, self.ev(pat.value, fr)), pat)
            if isinstance(pat, ast.MatchSingleton):
                return decided(self.compare(ast.Is(), subj, pat.value), pat)
            if isinstance(pat, ast.MatchOr):
                und = False
                for q in pat.patterns:
                    r = matches(q, subj)
                    if r is True:
                        return True
                    if r is not False:
                        und = True
                return None if und else False
            if isinstance(pat, ast.MatchSequence) and not any(isinstance(q, ast.MatchStar) for q in pat.patterns):
                if not isinstance(subj, SEQ):
                    if isinstance(subj, (str, DictV)) or subj is None or isinstance(subj, bool) or is_const(subj):
                        return False
                    raise Unsupported(f"sequence pattern on a value that is not a literal sequence at line {st.lineno}")
                if len(subj) != len(pat.patterns):
                    return False
                res = True
                for item, q in zip(subj, pat.patterns):
                    r = matches(q, item)
                    if r is False:
                        return False
                    if r is not True:
                        res = None
                return res
            if isinstance(pat, ast.MatchClass):
                cv = self.ev(pat.cls, fr)
                if not isinstance(cv, ClassV):
                    raise Unsupported(f"class pattern on a class the evaluator does not follow at line {st.lineno}")
                inst = self._builtin("isinstance", [subj, cv], {}, st, fr)
                if inst is not True and inst is not False:
                    raise Unsupported(f"undecided class pattern at line {st.lineno}")
                if not inst:
                    return False
                names = list(pat.kwd_attrs)
                subs = list(pat.kwd_patterns)
                if pat.patterns:
                    margs = self._class_const(self._owner(cv, "__match_args__"), "__match_args__")
                    if margs is None and self._record_class(cv) is not None:
                        margs = tuple(n for n, _d in self._fields(cv))
                    if not isinstance(margs, SEQ) or len(margs) < len(pat.patterns) or not all(isinstance(x, str) for x in margs):
                        raise Unsupported(f"positional class pattern without known __match_args__ at line {st.lineno}")
                    names = list(margs[:len(pat.patterns)]) + names
                    subs = list(pat.patterns) + subs
                res = True
                for nm_, q in zip(names, subs):
                    av = self._getattr(subj, nm_, st)
                    if is_crash(av):
                        return False
                    r = matches(q, av)
                    if r is False:
                        return False
                    if r is not True:
                        res = None
                return res
            if isinstance(pat, ast.MatchAs):
                r = True if pat.pattern is None else matches(pat.pattern, subj)
                if r is True and pat.name is not None:
                    self._set_var(fr, pat.name, subj)
                return r
            raise Unsupported(f"match pattern {type(pat).__name__} at line {st.lineno}")

        for case in st.cases:
            r = matches(case.pattern)
            if r is True and case.guard is not None:
                r = self.decide(case.guard, fr)
            if r is True:
                self.run(case.body, fr)
                return
            if r is not False:
                raise Unsupported(f"undecided `case` at line {case.pattern.lineno}")

    def _s_With(self, st, fr):
        """context managers: contextlib.suppress(E, ...) is `try: body except (E, ...): pass`; a generator function used through
        contextlib.contextmanager runs to its `yield` on entry and to its end on a normal exit; anything else only evaluates its
        expression (errstate, catch_warnings, open ...: the body is what matters)"""
        suppress = []
        gens = []
        for it in st.items:
            try:
                v = self.ev(it.context_expr, fr)
            except Unsupported as e:
                v = Unknown(str(e))
            p = fn_parts(v) if isinstance(v, F.Rat) else None
            if p is not None and p[0] == "call:contextlib.suppress":
                names = []
                for a in p[1]:
                    nm = sym_name(a) if isinstance(a, F.Rat) else None
                    names.append(nm[1:].split(".")[-1] if nm and nm.startswith("@") else None)
                suppress.append(names)
            if isinstance(v, IterV) and v.what.startswith("generator ") and getattr(v, "is_cm", False):
                try:
                    entered = self._next(v)
                except _Stop:
                    raise Unsupported(f"context manager generator at line {st.lineno} does not yield")
                gens.append(v)
                v = entered
            if it.optional_vars is not None:
                self._bind_target(it.optional_vars, v, fr, st)
        try:
            self.run(st.body, fr)
        except (_Raise, _CrashSig) as e:
            if gens:
                raise Unsupported(f"an exception inside a `with` on a generator-based context manager at line {st.lineno}")
            kind = _exc_kind(e) if isinstance(e, _Raise) else e.crash.why.split(":")[0]
            for names in suppress:
                if kind is None or any(n_ is None for n_ in names):
                    raise Unsupported(f"cannot decide whether contextlib.suppress at line {st.lineno} catches the exception")
                h_ = ast.ExceptHandler(type=ast.Tuple(elts=[ast.Name(id=n_) for n_ in names]), name=None, body=[])
                c = _catches(h_, kind)
                if c is None:
                    raise Unsupported(f"cannot decide whether contextlib.suppress at line {st.lineno} catches {kind}")
                if c:
                    return
            raise
        except (_Return, _Break, _Continue):
            self._leave_cms(gens, st)
            raise
        self._leave_cms(gens, st)

    def _leave_cms(self, gens, st):
        for g in reversed(gens):
            try:
                self._next(g)
            except _Stop:
                continue
            raise Unsupported(f"context manager generator at line {st.lineno} yields twice")

    def _s_Try(self, st, fr):
        """the body; an exception raised in it for certain (a `raise` reached on the evaluated path, an expression that raises: Crash) is
        handled by the first handler that catches its class (builtin hierarchy; other classes by name), the state being what the body
        left up to that point; `else` after a body that completed; `finally` in every case"""
        def finish():
            if st.finalbody:
                self.run(st.finalbody, fr)

        def handle(kind, reraise):
            for h_ in st.handlers:
                c = _catches(h_, kind)
                if c is None:
                    raise Unsupported(f"cannot decide whether `except {ast.unparse(h_.type) if h_.type is not None else ''}` at line {h_.lineno} catches {kind}")
                if c:
                    if h_.name:
                        if isinstance(reraise, _Raise) and reraise.kind is not None:
                            self._set_var(fr, h_.name, Obj(None, {"value": reraise.value, "args": () if reraise.value is None else (reraise.value,)}))
                        else:
                            self._set_var(fr, h_.name, Unknown(f"the {kind} caught at line {h_.lineno}"))
                    try:
                        self.run(h_.body, fr)
                    except _Raise as r2:
                        if isinstance(r2.node, ast.Raise) and r2.node.exc is None:
                            finish()
                            raise reraise                  # a bare `raise` in the handler: the exception goes on
                        finish()
                        raise
                    except (_Return, _Break, _Continue, _CrashSig):
                        finish()
                        raise
                    finish()
                    return
            finish()
            raise reraise

        try:
            self.run(st.body, fr)
        except _Raise as r:
            if not st.handlers:
                finish()
                raise
            kind = _exc_kind(r)
            if kind is None:
                raise Unsupported(f"`raise` of an exception whose class is not evident inside `try` at line {st.lineno}")
            handle(kind, r)
            return
        except _CrashSig as c:
            if not st.handlers:
                finish()
                raise
            handle(c.crash.why.split(":")[0], c)
            return
        except (_Return, _Break, _Continue):
            finish()
            raise
        try:
            self.run(st.orelse, fr)
        except (_Return, _Break, _Continue, _Raise, _CrashSig):
            finish()
            raise
        finish()

    def _s_For(self, st, fr):
        try:
            it = self.ev(st.iter, fr)
        except Unsupported as e:
            it = Unknown(str(e))
        if is_crash(it):
            raise _CrashSig(it)
        known = self._iter(it) is not None if not isinstance(it, IterV) else True
        if known:
            # unrolled by constant folding; when a test in the body turns out undecided the trial is rolled back and the loop summarised
            j = self.begin()
            try:
                self._loopmode.append("fold")
                try:
                    broke = False
                    n = 0
                    for item in self._iter(it):
                        n += 1
                        if n > MAX_UNROLL:
                            raise Unsupported("loop too long to unroll")
                        self._bind_target(st.target, item, fr, st)
                        try:
                            self.run(st.body, fr)
                        except _Break:
                            broke = True
                            break
                        except _Continue:
                            continue
                    if not broke:
                        self.run(st.orelse, fr)
                finally:
                    if self._loopmode:
                        self._loopmode.pop()
            except Unsupported as e:
                self.rollback(j)
                first = e
            except BaseException:
                self.commit(j)
                raise
            else:
                self.commit(j)
                return
            rec = LoopRec(st, "for")
            if isinstance(it, IterV):
                # (how many items the loop takes is not known: whatever asks the iterator for more afterwards is not followed)
                it.broken = f"{it.what} was consumed by the loop at line {st.lineno}, which is left under a test the evaluator does not decide"
            else:
                rec.trip = F.const(len(self._iterable(it)))
            rec.partial = True
            try:
                self._summarize(rec, st, fr, None)
            except Unsupported as e:
                raise Unsupported(f"{first}; as a loop summarised by one pass: {e}")
            return
        rec = LoopRec(st, "for")
        if isinstance(it, RangeV):
            rec.trip = (it.hi - it.lo) if it.step == 1 else (it.lo - it.hi)
        elif isinstance(it, RepeatV):
            rec.trip = to_rat(it.count)
            rec.item = it.value
        self._summarize(rec, st, fr, None)

    def _s_While(self, st, fr):
        j = self.begin()
        n = 0
        try:
            self._loopmode.append("fold")
            try:
                while True:
                    c = self.decide(st.test, fr)
                    if c is None:
                        raise Unsupported(f"while test undecided after {n} iterations: `{ast.unparse(st.test)}`")
                    if c is False:
                        self.run(st.orelse, fr)
                        break
                    n += 1
                    if n > MAX_UNROLL:
                        raise Unsupported(f"while loop does not terminate under constant folding: `{ast.unparse(st.test)}`")
                    try:
                        self.run(st.body, fr)
                    except _Break:
                        break
                    except _Continue:
                        continue
            finally:
                if self._loopmode:
                    self._loopmode.pop()
        except Unsupported as e:
            self.rollback(j)
            first = e
        except BaseException:
            self.commit(j)
            raise
        else:
            self.commit(j)
            return
        rec = LoopRec(st, "while")
        rec.partial = n > 0
        try:
            self._summarize(rec, st, fr, st.test)
        except Unsupported as e:
            raise Unsupported(f"{first}; as a loop summarised by one pass: {e}" if n else str(e))

    def _slots(self, fr):
        """the container slots reachable from the locals of the frame: {(id(container), key): (label, container, key)} and, for the
        arrays they hold, {id(array): slot key} -- `EI[1]`, `state["E"]`, `obj.attr` are places a loop may carry a value in"""
        slots, held = {}, {}
        for name, v in list(fr.vars.items()):
            if isinstance(v, list) and not any(isinstance(x, PoisonedSeq) for x in v):
                for i, x in enumerate(v):
                    slots.setdefault((id(v), i), (f"{name}[{i}]", v, i))
                    if isinstance(x, F.Rat):
                        held.setdefault(id(x), (id(v), i))
            elif isinstance(v, DictV) and v.poisoned is None:
                for k, (kv, x) in v.d.items():
                    slots.setdefault((id(v), k), (f"{name}[{kv!r}]", v, k))
                    if isinstance(x, F.Rat):
                        held.setdefault(id(x), (id(v), k))
            elif isinstance(v, Obj):
                for a, x in v.attrs.items():
                    slots.setdefault((id(v), a), (f"{name}.{a}", v, a))
                    if isinstance(x, F.Rat):
                        held.setdefault(id(x), (id(v), a))
        return slots, held

    @staticmethod
    def _slot_get(c, k):
        if isinstance(c, list):
            return c[k] if k < len(c) else _MISSING
        if isinstance(c, DictV):
            return c.d[k][1] if k in c.d else _MISSING
        return c.attrs.get(k, _MISSING)

    def _slot_set(self, c, k, v):
        if isinstance(c, list):
            self._touch_list(c)
            c[k] = v
        elif isinstance(c, DictV):
            self._set_item(c, k, (c.d[k][0] if k in c.d else k[1], v))
        else:
            self._set_attr(c, k, v)

    def _summarize(self, rec, st, fr, test, extra_carried=(), extra_slots=(), inplace_names=()):
        """one pass over the body on symbols: every carried local starts as <name>@in<k>; afterwards it is <name>@out<k> (or @exit<k> when
        the loop can also be left from inside its body, or was first tried by unrolling: the rules that understand counted loops do not
        take those for one).  Anything else the pass changes (an array / list / dict / attribute that existed before the loop, updated
        in place) is not known afterwards, unless the pass left it as it was."""
        self._loopk += 1
        rec.k = self._loopk
        names = _assigned_names(st.body)
        if isinstance(st, ast.For):
            for x in ast.walk(st.target):
                if isinstance(x, ast.Name) and x.id in names:
                    names.remove(x.id)
        local = lambda n: n not in fr.outer                 # noqa: E731
        rec.carried = [n for n in names if n in fr.vars and local(n)] + [n for n in extra_carried if n not in names and n in fr.vars and local(n)]
        names = names + [n for n in extra_carried if n not in names]
        rec.init = {n: clone(fr.vars[n]) for n in rec.carried}
        before = {n: fr.vars[n] for n in rec.carried}
        before_all = set(fr.vars)
        ins = {}
        obj_state = []
        for n in rec.carried:
            if n in inplace_names and isinstance(before[n], F.Rat):
                # the array the name is bound to is updated in place by the pass (through this name or an alias): the *object* is the
                # in-symbol for the pass, so every alias (another name, a container slot) sees the same value
                obj = before[n]
                sym = rec.in_sym(n)
                obj_state.append((obj, (obj.n, obj.d)))
                obj.n, obj.d = sym.n, sym.d
                ins[n] = obj
                continue
            ins[n] = rec.in_sym(n)
            self._set_var(fr, n, ins[n])
        # container slots that carry a value through the loop (found by a first pass): the slot starts as <label>@in<k>; an array held in
        # it *is* that symbol for the pass (so what is updated in place through any alias is seen)
        slot_state = []
        for label, cont, key in extra_slots:
            cur = self._slot_get(cont, key)
            if cur is _MISSING:
                continue
            sym = rec.in_sym(label)
            rec.carried.append(label)
            rec.init[label] = clone(cur)
            if isinstance(cur, F.Rat):
                slot_state.append((label, cont, key, cur, (cur.n, cur.d)))
                cur.n, cur.d = sym.n, sym.d
                ins[label] = cur
            else:
                slot_state.append((label, cont, key, cur, None))
                self._slot_set(cont, key, sym)
                ins[label] = sym

        def restore_slots():
            for obj, saved in obj_state:
                obj.n, obj.d = saved
            for label, cont, key, cur, saved in slot_state:
                if saved is not None:
                    cur.n, cur.d = saved
                else:
                    self._slot_set(cont, key, cur)
        if isinstance(st, ast.For):
            self._bind_target(st.target, getattr(rec, "item", None) if hasattr(rec, "item") else F.sym(f"<index>@{rec.k}"), fr, st)
        j = self.begin()
        self._loopmode.append(rec)
        try:
            if test is not None:
                try:
                    tv = self.ev(test, fr)
                except Unsupported as e:
                    tv = Unknown(str(e))
                rec.test = tv if isinstance(tv, (F.Rat, bool)) or is_unknown(tv) else to_rat(tv)
            try:
                self.run(st.body, fr)
            except (_Break, _Continue, _Return, _Raise):
                raise Unsupported(f"control flow inside a loop with a symbolic trip count at line {st.lineno}")
            except _CrashSig as c:
                raise Unsupported(f"the body of a loop with a symbolic trip count raises: {c.crash.why}")
            rec.out = {n: clone(fr.vars.get(n)) for n in rec.carried if n in before}
            for label, cont, key, _cur, _saved in slot_state:
                rec.out[label] = clone(self._slot_get(cont, key))
        except BaseException:
            self.rollback(j)
            for n in before:
                self._set_var(fr, n, before[n])
            restore_slots()
            raise
        finally:
            if self._loopmode and self._loopmode[-1] is rec:
                self._loopmode.pop()
        undo = list(j["undo"])
        # a local array the pass updated in place without assigning the name (np.add(..., out=X), X.fill(..)): it is carried too
        if not extra_carried and not extra_slots:
            byid = {id(v): n for n, v in fr.vars.items() if isinstance(v, F.Rat) and n not in rec.carried and local(n)}
            more = [byid[id(e[1])] for e in undo if e[0] == "rat" and id(e[1]) in byid]
            inplace_found = tuple(dict.fromkeys(more))
            # (and a local that a closure called in the pass rebinds through `nonlocal`)
            more += [e[2] for e in undo if e[0] == "var" and e[1] is fr.vars and e[2] not in names and e[2] in before_all
                     and not (isinstance(st, ast.For) and any(isinstance(x, ast.Name) and x.id == e[2] for x in ast.walk(st.target)))]
            # (and slots of containers bound to locals: EI[1] += ..., state["E"] = ..., obj.attr = ...)
            slots, held = self._slots(fr)
            hit = []
            for e in undo:
                if e[0] == "rat" and id(e[1]) in held and id(e[1]) not in byid and held[id(e[1])] in slots:
                    hit.append(held[id(e[1])])
                elif e[0] == "list" and len(e[1]) == len(e[2]):
                    hit += [(id(e[1]), i) for i, (x, y) in enumerate(zip(e[1], e[2])) if x is not y and (id(e[1]), i) in slots]
                elif e[0] == "dict" and isinstance(e[1], DictV) and (id(e[1]), e[2]) in slots and e[3] is not _MISSING:
                    hit.append((id(e[1]), e[2]))
                elif e[0] == "attr" and (id(e[1]), e[2]) in slots and e[3] is not _MISSING:
                    hit.append((id(e[1]), e[2]))
            more_slots = [slots[k_] for k_ in dict.fromkeys(hit)]
            more_slots = [sl for sl in more_slots if not (isinstance(self._slot_get(sl[1], sl[2]), F.Rat) and id(self._slot_get(sl[1], sl[2])) in byid
                                                          and byid[id(self._slot_get(sl[1], sl[2]))] in inplace_found)]
            if more or more_slots:
                self.rollback(j)
                for n in rec.carried:
                    self._set_var(fr, n, before[n])
                rec2 = LoopRec(st, rec.kind)
                rec2.trip = rec.trip
                if hasattr(rec, "item"):
                    rec2.item = rec.item
                rec.__dict__.update(rec2.__dict__)
                return self._summarize(rec, st, fr, test, tuple(dict.fromkeys(more)), tuple(more_slots), inplace_found)
        self.commit(j)
        # a counted loop (for over a range, `while` on a counter: see trip_count) leaves <name>@out<k>; a loop whose number of passes
        # depends on the data leaves <name>@exit<k> (the rules do not take such a result for a value they can compare)
        tag = "out" if trip_count(rec) is not None else "exit"
        rec.out_tag = tag
        if st.orelse and rec.exits:
            raise Unsupported(f"`else` of a loop that is left under an undecided test at line {st.lineno}")
        # what the pass changed besides the locals of this frame
        in_ids = {id(v) for v in ins.values()}
        carried_slots = {(id(cont), key) for _l, cont, key, _c, _s in slot_state}
        seen = set()
        for e in undo:
            loc = _loc(e)
            if loc is None or loc in seen:
                continue
            seen.add(loc)
            if e[0] == "var" and e[1] is fr.vars:
                continue
            if e[0] == "rat" and id(e[1]) in in_ids:
                continue
            if e[0] in ("dict", "attr") and (id(e[1]), e[2]) in carried_slots:
                continue
            if e[0] == "list" and len(e[1]) == len(e[2]) and all(x is y or (id(e[1]), i) in carried_slots or same_value(x, y)
                                                                   for i, (x, y) in enumerate(zip(e[1], e[2]))):
                continue
            cur, old = _current(e), _old_of(e)
            if cur is not _MISSING and old is not _MISSING and same_value(cur, old):
                continue
            if e[0] == "var" and not any(e[1] is f.vars for f in self._frames(fr)):
                continue                                    # (a local of a call that has returned)
            self._poison_loc(e, f"updated inside the loop at line {st.lineno}, which runs an unknown number of times")
        for n in names:
            if not local(n):
                self._set_var(fr, n, Unknown("a nonlocal name assigned inside a symbolic loop"))
            elif n in rec.exit_assigned:
                self._set_var(fr, n, Unknown(f"assigned where the loop at line {st.lineno} is left under an undecided test"))
            elif n in rec.carried and n in before:
                o = F.sym(f"{n}@{tag}{rec.k}")
                orig = before[n]
                if n in inplace_names and ins[n] is orig:
                    # the object itself was the in-symbol: it is the loop's result now (whatever names and slots refer to it)
                    self._set_rat(orig, o)
                    if fr.vars.get(n) is not orig:
                        self._set_var(fr, n, Unknown("a name rebound inside a loop that also updates its array in place"))
                elif fr.vars.get(n) is ins[n] and isinstance(orig, F.Rat) and not same_value(rec.out[n], ins[n]):
                    # updated in place: the array the name was bound to before the loop is the one updated (its aliases see it)
                    self._set_rat(orig, o)
                    self._set_var(fr, n, orig)
                else:
                    self._set_var(fr, n, o)
            else:
                self._set_var(fr, n, Unknown("assigned inside a symbolic loop"))
        for label, cont, key, cur, saved in slot_state:
            o = F.sym(f"{label}@{tag}{rec.k}")
            now = self._slot_get(cont, key)
            if saved is not None and now is cur:
                self._set_rat(cur, o)              # the array held in the slot was updated in place: it is the loop's result now
            else:
                if saved is not None:
                    cur.n, cur.d = saved           # (the slot was given another object: the one it held before is as it was)
                self._slot_set(cont, key, o)
        self.loops.append(rec)
        if st.orelse:
            self.run(st.orelse, fr)


def trip_count(rec):
    """number of passes of a summarised loop, as a value: `for _ in range(n)` -> n ; `while c > 0: ...; c -= 1` -> initial c ;
    `while c < n: ...; c += 1` -> n - initial c.  None if the loop has no such counter."""
    if rec.trip is not None:
        return rec.trip if not rec.exits else None
    t = rec.test
    neg = False
    if rec.exits:
        # `while True: if not (c > 0): break ...`: a single exit that stands before anything carried is updated is the loop's test
        live = [x for x in rec.exits]
        if len(live) != 1 or not live[0][2] or not (t is True or (is_const(t) and cval(t) != 0)):
            return None
        t, neg = live[0][0], live[0][1]
    if not isinstance(t, F.Rat):
        return None
    p = fn_parts(t)
    if p is not None and p[0] == "not":
        neg = not neg
        p = fn_parts(p[1][0])
    if p is None or not p[0].startswith("cmp:"):
        # `while c:` with c -= 1 (c a non-negative integer)
        for n in rec.carried:
            cs = rec.in_sym(n)
            if not neg and t.equals(cs):
                try:
                    d = rec.out[n] - cs
                    if d.is_const() and cval(d) == -1 and isinstance(rec.init[n], F.Rat):
                        return rec.init[n]
                except Exception:  # noqa
                    pass
        return None
    op, (a, b) = p[0][4:], p[1]
    if neg:
        op = {"Gt": "LtE", "GtE": "Lt", "Lt": "GtE", "LtE": "Gt", "NotEq": "Eq", "Eq": "NotEq"}.get(op, op)
    # normalise to  a OP b  with the counter on the left
    for n in rec.carried:
        cs = rec.in_sym(n)
        step = None
        try:
            d = rec.out[n] - cs
            if d.is_const():
                step = cval(d)
        except Exception:  # noqa
            step = None
        if step is None:
            continue
        x, y, o = a, b, op
        if y.equals(cs) and not x.depends_on(f"{n}@in{rec.k}"):
            x, y = y, x
            o = {"Gt": "Lt", "GtE": "LtE", "Lt": "Gt", "LtE": "GtE"}.get(o, o)
        if not x.equals(cs) or y.depends_on(f"{n}@in{rec.k}"):
            continue
        init = rec.init[n]
        if not isinstance(init, F.Rat):
            continue
        if step == -1 and o == "Gt":          # while c > y: c -= 1
            return init - y
        if step == -1 and o == "GtE":
            return init - y + 1
        if step == -1 and o == "NotEq":
            return init - y
        if step == 1 and o == "Lt":           # while c < y: c += 1
            return y - init
        if step == 1 and o == "LtE":
            return y - init + 1
        if step == 1 and o == "NotEq":
            return y - init
    # `while c:` with c -= 1
    for n in rec.carried:
        cs = rec.in_sym(n)
        if t.equals(cs):
            try:
                d = rec.out[n] - cs
                if d.is_const() and cval(d) == -1 and isinstance(rec.init[n], F.Rat):
                    return rec.init[n]
            except Exception:  # noqa
                pass
    return None
